#!/bin/bash
# offline: overlay venv on /venv (which has the repo's own dependencies) + solver wheels from the local wheelhouse
set -e
cd "$(dirname "$0")"
if [ ! -x .venv/bin/python ] || ! .venv/bin/python -c "import z3, jax" 2>/dev/null; then
  rm -rf .venv
  /venv/bin/python -m venv .venv
  echo "import site; site.addsitedir('/venv/lib/python3.12/site-packages')" > .venv/lib/python3.12/site-packages/_overlay.pth
  PIP_NO_INDEX=1 .venv/bin/pip install -q --no-index --find-links /opt/veriftools/wheels z3-solver cvc5 crosshair-tool
fi
.venv/bin/python -c "import z3, jax, numpy; print('setup ok: z3', z3.get_version_string(), 'jax', jax.__version__)"
