# Observation (UNCHANGED tree, run from the tree root): sqrt_symm of rank-deficient PSD tensors in general orientation is NaN for ~1 in 4 rotations.
import jax, jax.numpy as jnp, numpy as onp
jax.config.update("jax_enable_x64", True)
from optimism import TensorMath as TM
from scipy.spatial.transform import Rotation as R
rng = onp.random.default_rng(1); bad=0; ex=None
for i in range(200):
    Q = R.random(random_state=int(rng.integers(1<<30))).as_matrix()
    a,b = rng.uniform(0.5,2,2)
    C = Q@onp.diag([0.0,a,b])@Q.T; C=0.5*(C+C.T)
    S = onp.array(TM.sqrt_symm(jnp.array(C)))
    if not onp.all(onp.isfinite(S)):
        bad+=1
        if ex is None: ex=(C, onp.array(TM.eigen_sym33_unit(jnp.array(C))[0]))
print("nan count", bad, "of 200")
onp.set_printoptions(precision=17)
if ex: print(repr(ex[0])); print("evals", ex[1])
