# Reproducer (UNCHANGED tree): TensorMath.exp_symm of a symmetric tensor with a double eigenvalue
# is wrong when evaluated as compiled batched code, jax.jit(jax.vmap(exp_symm)), batch of 2.
#   cd <tree root> && /venv/bin/python out/vmap_repro.py      exit 1 = results disagree by > 1e-8
import sys, os
sys.path.insert(0, os.getcwd())
import numpy as onp
import jax
jax.config.update("jax_enable_x64", True)
import jax.numpy as np
from optimism import TensorMath

onp.set_printoptions(precision=17, linewidth=200)

# eigenvalues (-0.05, -0.05, 0.1): 0.1 * dev(Q diag(1,-1/2,-1/2) Q^T) for a random rotation Q
A = onp.array([[0.047198354880772037, -0.06970270272149047,    0.01654588389620907],
               [-0.06970270272149047, -1.4928003255904415e-05, -0.011865353358052604],
               [0.01654588389620907,  -0.011865353358052604,   -0.047183426877516144]])

w, V = onp.linalg.eigh(A)
reference = V @ onp.diag(onp.exp(w)) @ V.T

results = {
    'eager exp_symm(A)':            onp.array(TensorMath.exp_symm(np.array(A))),
    'jit(exp_symm)(A)':             onp.array(jax.jit(TensorMath.exp_symm)(np.array(A))),
    'vmap(exp_symm)([A,A])[0]':     onp.array(jax.vmap(TensorMath.exp_symm)(np.array([A, A])))[0],
    'jit(vmap(exp_symm))([A])[0]':  onp.array(jax.jit(jax.vmap(TensorMath.exp_symm))(np.array([A])))[0],
    'jit(vmap(exp_symm))([A,A])[0]': onp.array(jax.jit(jax.vmap(TensorMath.exp_symm))(np.array([A, A])))[0],
}

print('input A =\n%r' % A)
print('eigenvalues (numpy.linalg.eigh):', w)
print('reference exp(A) from numpy.linalg.eigh =\n%r' % reference)
worst = 0.0
for name, E in results.items():
    err = onp.abs(E - reference).max()
    worst = max(worst, err)
    print('\n%s   max |difference to reference| = %.3e   det = %.17g\n%r' % (name, err, onp.linalg.det(E), E))

if worst > 1e-8:
    print('\nDISAGREEMENT: largest deviation from the eigh reference %.3e' % worst)
    sys.exit(1)
print('\nall evaluations agree with the reference')
sys.exit(0)
