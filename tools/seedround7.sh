#!/bin/bash
# tools/seedround7.sh <PROP>: copy the seventh-round seed /tmp/seed7_<PROP>/out/1 to seeded/<PROP>-<next> and run demo + check + full pinned tests
P=$1
last=$(ls -d /verif/seeded/$P-* 2>/dev/null | sed "s/.*$P-//" | sort -n | tail -1); n=$P-$((last+1)); d=/verif/seeded/$n
[ -f /tmp/seed7_$P/out/1/patch.diff ] || { echo "no seed for $P"; exit 7; }
mkdir -p $d; cp /tmp/seed7_$P/out/1/{patch.diff,demo.py,notes.md} $d/ 2>/dev/null
echo "=== $n"
nice -n 19 /verif/tools/seedtests.sh $n $d > /dev/null 2>&1 &
/verif/tools/seedcheck.sh $P $d 2>&1 | grep -E "RESULT|VIOLATION|HARNESS|INCONCL|demo:" | awk '/RESULT|demo:/{print;next} n<5{print;n++}' | cut -c1-230
wait
echo "tests: $(cat $d/tests.txt)"
