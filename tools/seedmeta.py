#!/usr/bin/env python3
"""write seeded/<name>/meta.json from the table below (+ tests.txt written by tools/seedtests.sh)"""
import json, os
HERE = os.path.dirname(os.path.dirname(os.path.abspath(__file__)))
T = {
 'C01-1': dict(breaks='descent clause: the re-sign of rho under a positive model change is removed, so an uphill trial step with an increasing model is accepted',
               needs='indefinite Hessian + badly matched stale preconditioner + a re-used dogleg segment crossing a region where the model increases (1 in ~3000 random 2-D problems)',
               detected='yes (first run)', by='O1.step_default_euclid/step.descent_on_acceptance (all shards)'),
 'C01-2': dict(breaks='honest flag / parameters: objective.p is not replaced when useWarmStart=False and updatePrecond=False',
               needs='both non-default flags together and a second solve on the same Objective with changed parameters',
               detected='yes (first run)', by='O3.driver_parameter_order/driver[warm=False,precond=False].new_parameters_installed_before_solve, .objective_carries_new_parameters_after'),
 'C03-1': dict(breaks='axisymmetric volumes: quadrature radius interpolated from vertex nodes only', needs='axisymmetric mode with element order >= 2 or bubble',
               detected='yes (first run)', by='O5.A2_A3_quadrature_volumes/A3[P2[scrambled]].vols_eq_2pi_r_detJ_w'),
 'C03-2': dict(breaks='reproduction on elevated meshes: interior-node barycentric weights cyclically shifted', needs='>= 2 interior nodes (order >= 4, or bubble order >= 3)',
               detected='yes (first run)', by='O6.A4_quadrature_points_and_coordinate_gradient/A4[P3b_*].elevated_nodes_are_affine_images (+10 more)'),
 'C11-1': dict(breaks='monotone relaxation: left instead of right Cauchy-Green in the elastic log strain', needs='held deformation containing a rotation > ~45 degrees and >= 2 state updates',
               detected='MISSED at first (function was stubbed as a whole); caught after strengthening', by='new O8.log_strain_argument_is_right_elastic_cauchy_green/*[single].branch0_log_argument_is_FeT_Fe'),
 'C11-2': dict(breaks='isochoric viscous flow: expm replaced by a 2nd-order series in the three-branch model', needs='one branch taking an increment with dt of the order of tau or larger at finite strain',
               detected='exit 3 at first (harness assumed expm is called); caught after strengthening', by='O2.../state_new[multi].branchN_det_Fv_preserved.guided_search, O6 multi_vs_single.state_new'),
 'C12-1': dict(breaks='eigen-decomposition of exactly isotropic tensors with negative trace (tolerance sign slip)', needs='A = s*I with s < 0 exactly',
               detected='MISSED at first (eigen-solver was declared outside the technique); strengthening in progress: eigen_sym33 on low-dimensional families', by='pending O7.eigen_sym33_on_families'),
 'C12-2': dict(breaks='derivative rules: isclose instead of exact equality in the divided-difference switch', needs='small-norm tensors (atol 1e-8) or eigenvalue gaps below rtol 1e-5, perturbations coupling the two eigenvectors',
               detected='exit 3 at first (inf literal from isclose not encodable); strengthening in progress', by='pending O5a/O5b off-diagonal entries'),
 'C15-1': dict(breaks='Newmark velocity update: gamma weights swapped between predictor and corrector', needs='gamma != 1/2 and changing acceleration',
               detected='yes (first run)', by='O1.predict_correct_are_newmark/newmark.predictor_velocity, .corrector_velocity, .newmark_velocity_update'),
 'C15-2': dict(breaks='momentum balance / energy conservation: density applied twice in the inertial term', needs='density != 1 and non-zero acceleration',
               detected='yes (first run)', by='O5.trapezoidal_energy_conservation/identity[*], balance[*], hypotheses_reachable[*] (9 queries), O2'),
 'C16-1': dict(breaks='signed distance magnitude for collinear points beyond the second end', needs='point exactly on the line of the segment with t > 1',
               detected='yes (first run)', by='O1.cpp_distance/cpp_distance.magnitude_is_distance_to_segment'),
 'C16-2': dict(breaks='mortar integrals: abs dropped from the B-side parameter length', needs='non-default common normal and segment B traversed in the same direction as A',
               detected='yes (first run)', by='O4.mortar_active_integral/active.area_nonnegative (+2)'),
 'C17-1': dict(breaks='"whichever end is negative": Newton range test only valid for rising functions', needs='falling function and bracket wider than x_tol*2^max_iters',
               detected='MISSED at first (all bracket invariants still hold); caught after strengthening', by='new O7.orientation_symmetry_newton_acceptance/step.mirror_* and step.newton_taken_when_strictly_inside_either_order_and_fast'),
 'C17-2': dict(breaks='derivative at end-point roots: clip applied outside custom_root halves the tangent on ties', needs='root exactly on a bracket end and differentiation through find_root',
               detected='exit 3 at first (reduce_min unsupported in the NaN-tracking evaluator); caught after strengthening', by='O5.derivative/{separable,composite}.{left,right}_end_root.derivative_is_ift_value'),
 'C18-1': dict(breaks='quarter-width bound and C1 for small widths: safeTol raised to sqrt(eps)', needs='smoothing width <= 1.49e-8',
               detected='yes (first run)', by='O1.min_max_abs_bounds/*.within_quarter_eps, O3.C1_gradient_lipschitz/{min,max,abs}.comp*'),
 'C18-2': dict(breaks='friction: switch tested component-wise (square) instead of on the magnitude (disc)', needs='oblique slip direction with sReg < |s| <= sqrt(2) sReg',
               detected='yes (first run)', by='O2.friction/bounds.coulomb_minus_half_sReg_outside'),
 'C20-1': dict(breaks='cell array record count: one zero row per contact edge instead of one default record', needs='tensor cell field together with contact edges',
               detected='yes (first run)', by='O1.sections_and_rewrite[degree d]/write.cell_array_records_eq_cells_declared'),
 'C20-2': dict(breaks='value round trip: 2x2 tensors flattened into the first 4 of 9 columns', needs='tensor field supplied as 2x2 matrices',
               detected='exit 3 at first (shape shim) and value placement was outside the claim; caught after strengthening', by='new O3.values_land_in_place[degree d]/{point,cell}_tensor_values_in_place'),
 'C07-1': dict(breaks='IFT derivative through multi-step histories: the parameters are installed in the objective only after the adjoint solve', needs='>= 2 solves with different parameters before the backward pass and a parameter-dependent Hessian',
               detected='yes (first run)', by='O1.reverse_rule_ift[nonlinear_solve_with_state_b]/state[...].cotangent_is_ift[slot_k]'),
 'C07-2': dict(breaks='helper VJP of the internal-variable update w.r.t. displacements silently evaluated at dt=0', needs='rate-dependent material and dt != 0',
               detected='MISSED at first (helper VJPs were declared outside as JAX-vs-JAX); strengthening in progress: translation-validation obligation O4.helper_vjps', by='pending'),
 'C09-1': dict(breaks='commit consistency / yield consistency at finite deformation: plastic distortion composed on the wrong side', needs='finite-deformation kinematics and two non-commuting plastic steps',
               detected='MISSED at first (finite-deformation kinematics outside the claim); strengthening in progress: structural obligations on the multiplicative update', by='pending'),
 'C09-2': dict(breaks='variational/yield consistency of the Seth-Hill option: update uses the linear strain, energy the Seth-Hill strain', needs="'kinematics': 'seth hill' and a finite strain or rotation",
               detected='MISSED at first (Seth-Hill kinematics outside the claim); strengthening in progress: update and energy must use the same strain function', by='pending'),
 'C19-1': dict(breaks='exact linear predictor under scaling: warm start evaluated at the unscaled point', needs='ScaledObjective with non-identity scaling, warm start, non-quadratic energy',
               detected='yes (first run)', by='O2.driver_order[nonlinear_equation_solve]/driver[warm=True,*].warm_start_from_scaled_start'),
 'C19-2': dict(breaks='objective carries the new parameters: TrustRegionSPG.solve only assigns p inside `if updatePrecond`', needs='SPG driver with updatePrecond=False and changing parameters',
               detected='yes (first run)', by='O2.driver_order[spg_solve]/driver[*,precond=False].new_parameters_installed_before_solve, .objective_carries_new_parameters_after'),
}
for name, t in T.items():
    d = os.path.join(HERE, 'seeded', name)
    if not os.path.isdir(d):
        continue
    tests = open(os.path.join(d, 'tests.txt')).read().strip() if os.path.exists(os.path.join(d, 'tests.txt')) else 'not run yet'
    meta = dict(property=name.split('-')[0], source='independent sub-agent given only the property text and its own scratch worktree of /repo',
                breaks=t['breaks'], needs_to_manifest=t['needs'],
                confirmed=dict(demo='tools/seedcheck.sh: demo.py exits 0 on an unchanged scratch worktree and 1 with patch.diff applied',
                               existing_tests='tools/seedtests.sh (full pinned pytest command on a scratch worktree with the patch): ' + tests,
                               check='VERIF_REPO=<scratch worktree with the patch> ./check %s --tier quick' % name.split('-')[0]),
                detected=t['detected'], detected_by=t['by'])
    json.dump(meta, open(os.path.join(d, 'meta.json'), 'w'), indent=1)
print('meta written for', len(T))
