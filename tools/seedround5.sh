#!/bin/bash
# tools/seedround5.sh <PROP>: copy fifth-round seeds /tmp/seed5_<PROP>/out/{1,2} to seeded/<PROP>-{9,10} and run the check against them
P=$1
for k in 1 2; do n=$P-$((k+8)); d=/verif/seeded/$n; mkdir -p $d; cp /tmp/seed5_$P/out/$k/{patch.diff,demo.py,notes.md} $d/ 2>/dev/null; echo "=== $n"; /verif/tools/seedcheck.sh $P $d 2>&1 | grep -E "RESULT|VIOLATION|HARNESS|INCONCL" | awk '/RESULT/{print;next} n<5{print;n++}' | cut -c1-230; done
