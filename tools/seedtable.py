#!/usr/bin/env python3
"""print the markdown table of seeded changes (DESIGN.md section 10.6) from seeded/*/meta.json"""
import json, os
HERE = os.path.dirname(os.path.dirname(os.path.abspath(__file__)))
rows = []
for d in sorted(os.listdir(os.path.join(HERE, 'seeded'))):
    p = os.path.join(HERE, 'seeded', d, 'meta.json')
    if os.path.exists(p):
        m = json.load(open(p))
        rows.append((d, m['breaks'], m['needs_to_manifest'], m['detected'], m['detected_by']))
print('| seeded change | what it breaks | what it needs to manifest | detected | by (check queries) |')
print('|---|---|---|---|---|')
for r in rows:
    print('| ' + ' | '.join(x.replace('|', '/') for x in r) + ' |')
first = sum(1 for r in rows if r[3].startswith('yes'))
und = [r[0] for r in rows if r[3].startswith('NOT decided')]
print('\n%d seeded changes; %d caught on the first run of the check as it stood; %d not decided (%s: reason in the table); the others led to the strengthening described in the table.' % (len(rows), first, len(und), ', '.join(und) or '-'))
