#!/bin/bash
# tools/seedcheck.sh <PROP> <srcdir with patch.diff demo.py> [full]   -- confirm a seeded change and run the check against it
# Uses a scratch worktree of /repo (removed afterwards); the check runs against it through VERIF_REPO.
set -u
P=$1; SRC=$2; FULL=${3:-}
W=/tmp/sv_${P}_$$
git -C /repo worktree add -q --detach $W HEAD || exit 9
cleanup(){ git -C /repo worktree remove --force $W 2>/dev/null; }
trap cleanup EXIT
cp $SRC/demo.py $W/_demo.py
(cd $W && timeout 900 /venv/bin/python _demo.py >/tmp/sv_$$.base 2>&1); B=$?
(cd $W && git apply $SRC/patch.diff) || { echo "RESULT $P patch does not apply"; exit 8; }
(cd $W && timeout 900 /venv/bin/python _demo.py >/tmp/sv_$$.mut 2>&1); M=$?
echo "demo: unchanged exit=$B changed exit=$M"
tail -3 /tmp/sv_$$.mut
FILES=$(cd $W && git diff --name-only | tr '\n' ' ')
echo "touched: $FILES"
if [ -n "$FULL" ]; then
  (cd $W && timeout 3000 /venv/bin/python -m pytest -q -p no:cacheprovider --timeout=900 --continue-on-collection-errors 2>&1 | tail -2) 
fi
cd /verif && VERIF_REPO=$W ./check $P --tier quick > /tmp/sv_$$.chk 2>&1; C=$?
grep -E "^VIOLATION|^SUMMARY|^INCONCLUSIVE|^HARNESS" /tmp/sv_$$.chk | cut -c1-260 | head -12
echo "RESULT $P demo_base=$B demo_mut=$M check_exit=$C"
rm -f /tmp/sv_$$.*
