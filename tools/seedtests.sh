#!/bin/bash
# tools/seedtests.sh <name> <srcdir>  -- run the repository's full pinned test command on a scratch worktree with the seeded patch;
# writes /verif/seeded/<name>/tests.txt (summary line). Worktree removed afterwards.
N=$1; SRC=$2
W=/tmp/st_${N}_$$
git -C /repo worktree add -q --detach $W HEAD || exit 9
trap "git -C /repo worktree remove --force $W 2>/dev/null" EXIT
(cd $W && git apply $SRC/patch.diff) || { echo "patch does not apply" > /verif/seeded/$N/tests.txt; exit 8; }
mkdir -p /verif/seeded/$N
(cd $W && timeout 3400 /venv/bin/python -m pytest -q -p no:cacheprovider --timeout=900 --continue-on-collection-errors 2>&1 | tail -1) > /verif/seeded/$N/tests.txt
cat /verif/seeded/$N/tests.txt
