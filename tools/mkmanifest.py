#!/usr/bin/env python3
"""regenerate MANIFEST.json from the table below (kept valid at all times; validated against the schema)"""
import json, os, sys
HERE = os.path.dirname(os.path.dirname(os.path.abspath(__file__)))
props = [json.loads(l) for l in open(os.path.join(HERE, 'properties.jsonl'))]
CLAIMS = json.load(open(os.path.join(HERE, 'tools', 'claims.json')))
CLAIMED = {k: (v['technique'], v['text'], v['note'], v['ref']) for k, v in CLAIMS.items()}
NA = json.load(open(os.path.join(HERE, 'tools', 'not_applicable.json')))
NA_DEFAULT = 'check not built yet in this round (design in DESIGN.md section 5); no claim is made'
checks = []
for p in props:
    i = p['id']
    if i in CLAIMED:
        t, text, note, ref = CLAIMED[i]
        checks.append(dict(property_id=i, quick_cmd='./check %s --tier quick' % i, thorough_cmd='./check %s --tier thorough' % i,
                           evidence_file='evidence/%s.json' % i, replay_cmd_template='./check %s --replay {path}' % i, engine='vf',
                           level_claimed=dict(category='other', text=text, design_ref='DESIGN.md section ' + ref), level_note=note, technique=t))
na = [dict(property_id=p['id'], reason=NA.get(p['id'], NA_DEFAULT)) for p in props if p['id'] not in CLAIMED]
m = dict(version=1, setup_cmd='./setup.sh',
         hooks=dict(guard='OPTIMISM_VERIF', enable='no hooks: checks import /repo sources directly (guard unused)',
                    baseline_off_cmd='cd /repo && /venv/bin/python -m pytest -ra -q -p no:cacheprovider --timeout=900 --continue-on-collection-errors',
                    source_commits=[], add_only=True),
         engines=[dict(name='vf', path='vf/', serves_properties=sorted(CLAIMED), kind_free_text='solver-based bounded checking: jaxpr/Python-source symbolic execution to z3 (QF_NRA), replay on real code')],
         checks=checks, not_applicable=na,
         notes='exit codes: 0 all registered obligations discharged (or open known finding), 1 reproduced unlisted violation, 3 inconclusive/harness error (never success).')
json.dump(m, open(os.path.join(HERE, 'MANIFEST.json'), 'w'), indent=1)
try:
    import jsonschema
    jsonschema.validate(m, json.load(open('/root/.vp/MANIFEST.schema.json')))
    print('MANIFEST valid;', len(checks), 'checks,', len(na), 'not_applicable')
except ImportError:
    print('written (jsonschema not available to validate)')
