#!/usr/bin/env python3
"""regenerate MANIFEST.json from the table below (kept valid at all times; validated against the schema)"""
import json, os, sys
HERE = os.path.dirname(os.path.dirname(os.path.abspath(__file__)))
props = [json.loads(l) for l in open(os.path.join(HERE, 'properties.jsonl'))]
# id -> (technique, level text, level note, design_ref)
CLAIMED = {
 'C18': ('jaxpr -> z3 QF_NRA, all-reals bounds + gradient-Lipschitz queries, replay on jitted code',
         'Every stated bound, symmetry, exactness outside the band, friction bounds/convexity and C1 (gradient Lipschitz across all switches) is discharged by z3 for ALL real arguments and all widths > 1e-14, on formulas regenerated from the jaxprs of the real functions.',
         'Real arithmetic (no IEEE rounding); eps <= 1e-14 handled as a separate case for min only; JAX tracing, vf.jx interpreter (validated each run on ground inputs), z3 trusted.', '5/C18'),
 'C01': ('PX: real Python source of trust_region_minimize on z3 proxies, AST loop-body extraction (one inductive step from an arbitrary loop-head state), per-path QF_NRA queries, replay of models on the real source',
         'One pass of the real inner trust-region loop body from ANY loop-head state satisfying the invariant, with an arbitrary (uninterpreted, functionally consistent) objective and all admissible settings symbolic: acceptance implies descent, True only with |g|^2 < tol^2, failure exits return the last accepted iterate, radius shrinks on poor/NaN ratio, invariant re-established; prologue/epilogue of the whole function; driver installs new parameters before the solve. Holds for every history by induction on the loop.',
         'n=1 component mode; CG sub-solver and dogleg stubbed by arbitrary steps (C06 covers them); model change of a trial step assumed non-zero; convergence on convex problems only via a bounded n=1 obligation; real arithmetic. One open known finding (convergence test before acceptance).', '5/C01'),
 'C17': ('jaxpr of rtsafe_ with an uninterpreted f (custom uf primitive), k-induction on the real while body in a NaN-tracking real encoding, z3; replay via Hermite interpolants on the real find_root',
         'Base/step/exit obligations on the real loop body for ALL functions f (values and slopes are free symbols), all brackets, guesses, tolerances and iteration caps: bracket invariant, root inside, NaN iff unbracketed or cap exhausted, end-point roots exact, implicit-function derivative rule.',
         'Continuity of f turns sign change into existence of a root (stated); number of iterations to converge is outside the claim; real arithmetic with an explicit non-finite flag.', '5/C17'),
}
NA_DEFAULT = 'check not built yet in this round (design in DESIGN.md section 5); no claim is made'
NA = {}
checks = []
for p in props:
    i = p['id']
    if i in CLAIMED:
        t, text, note, ref = CLAIMED[i]
        checks.append(dict(property_id=i, quick_cmd='./check %s --tier quick' % i, thorough_cmd='./check %s --tier thorough' % i,
                           evidence_file='evidence/%s.json' % i, replay_cmd_template='./check %s --replay {path}' % i, engine='vf',
                           level_claimed=dict(category='other', text=text, design_ref='DESIGN.md section ' + ref), level_note=note, technique=t))
na = [dict(property_id=p['id'], reason=NA.get(p['id'], NA_DEFAULT)) for p in props if p['id'] not in CLAIMED]
m = dict(version=1, setup_cmd='./setup.sh',
         hooks=dict(guard='OPTIMISM_VERIF', enable='no hooks: checks import /repo sources directly (guard unused)',
                    baseline_off_cmd='cd /repo && /venv/bin/python -m pytest -ra -q -p no:cacheprovider --timeout=900 --continue-on-collection-errors',
                    source_commits=[], add_only=True),
         engines=[dict(name='vf', path='vf/', serves_properties=sorted(CLAIMED), kind_free_text='solver-based bounded checking: jaxpr/Python-source symbolic execution to z3 (QF_NRA), replay on real code')],
         checks=checks, not_applicable=na,
         notes='exit codes: 0 all registered obligations discharged (or open known finding), 1 reproduced unlisted violation, 3 inconclusive/harness error (never success).')
json.dump(m, open(os.path.join(HERE, 'MANIFEST.json'), 'w'), indent=1)
try:
    import jsonschema
    jsonschema.validate(m, json.load(open('/root/.vp/MANIFEST.schema.json')))
    print('MANIFEST valid;', len(checks), 'checks,', len(na), 'not_applicable')
except ImportError:
    print('written (jsonschema not available to validate)')
