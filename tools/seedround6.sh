#!/bin/bash
# tools/seedround6.sh <PROP>: copy sixth-round seeds /tmp/seed6_<PROP>/out/{1,2} to seeded/<PROP>-{11,12} and run the check against them
P=$1
for k in 1 2; do n=$P-$((k+10)); d=/verif/seeded/$n; mkdir -p $d; cp /tmp/seed6_$P/out/$k/{patch.diff,demo.py,notes.md} $d/ 2>/dev/null; echo "=== $n"; /verif/tools/seedcheck.sh $P $d 2>&1 | grep -E "RESULT|VIOLATION|HARNESS|INCONCL" | awk '/RESULT/{print;next} n<5{print;n++}' | cut -c1-230; done
