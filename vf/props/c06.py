"""C06 — trust-region subproblem steps respect the radius and beat the Cauchy step (PX on the real source).

Anchors: optimism/EquationSolver.py (project_to_boundary*, update_step_length_squared, cg_inner_products_*, dogleg_step,
solve_trust_region_minimization), optimism/EquationSolverSubspace.py (project_to_boundary_with_coefs, trust_region_cg),
optimism/treigen/treigen.py (solve).

Modes
* component mode: vectors are numpy object arrays of solver reals (n = 1, 2);
* Gram mode: vectors are dimension-free linear combinations of base vectors, every inner product the code forms is a
  fresh real of a Gram table; linear operators (approximate Hessian M, Hessian H) map base vectors to new base vectors
  and their symmetry is imposed by *canonicalising* Gram entries (<M a, b> and <a, M b> are the same solver variable);
* moment form (CG): single base vector g, operator H: <H^i g, H^j g> = mu_{i+j}, Hankel matrix of the moments PSD.

Division by zero: `x / 0` is modelled as a poisoned value (python NaN) on a forked path: arithmetic propagates it, every
comparison with it is False; a poisoned *returned* step fails the goal `step_is_finite`, a poisoned value inside any other
goal is a loud harness error.  This lets the real `alpha = rPr / curvature` line run with zero curvature (the quotient is
dead on that path) and makes finiteness of treigen's result a decidable goal.

Encodings that made the difference (all measured, see the helpers):
* quotients are *definitional*: `a / b` is a fresh real q with q*b = a (hash-consed per path): CG iteration-2 goals went from
  unknown at 60 s to unsat in < 0.3 s;
* equalities over sqrt/quotient terms are split into two inequalities (`add_eq`);
* cut lemmas (`cut`): a lemma proved on a path is an assumption of the later goals of that path;
* clean goals (`clean_goal`): the final goal of a chain is decided from an explicit list of already proved lemmas in renamed
  variables (eigen-coordinates) instead of the whole path condition; if that reduced query is not unsat the goal is recorded
  with the whole path condition, so that a counterexample is always a model of a real path and can be replayed;
* treigen: eigh is a contract stub (symbolic rotation with/without reflection; in a replay the real numpy eigh on the concrete
  matrix built from the model, eigenvector signs aligned with the model's); the three exits of `solve` are told apart by the
  ordinal of the `return` statement (sys.settrace), the secular while loop is covered by 1-induction (base / step / exit) on
  the loop body extracted from the current source.

Expected on the unchanged tree (three defects of treigen.solve, each reproduced on the real source and, as recorded in the
replay notes, on the real jax module):
* hard case uses `z = v[0]` (a ROW of the eigenvector matrix) instead of the eigenvector `v[:,0]`: for every non-symmetric
  eigenvector matrix the step is on the boundary but not stationary -> `hard_case:stationary_along_the_higher_eigenvector`;
* `np.sign(pz)` is 0 when the hard-case step is exactly orthogonal to z (b orthogonal to the lowest eigenvector, diagonal A;
  b = 0 with an indefinite A): tau = x/0 -> NaN step -> `hard_case:step_is_finite`;
* A = 0: eps = 0, 1/(0*0) -> NaN step -> `O4.treigen_zero_matrix/...secular:step_is_finite`.
"""
import ast
import importlib
import math
import sys
import types

import numpy as onp
import z3

from ..core import obligation
from .. import px, sym
from ..px import SymReal, SymBool, is_sym, NP, GV
from ..sym import Le, Lt, Eq, Holds

P = 'C06'
REL = 'optimism/EquationSolver.py'
REL_SUB = 'optimism/EquationSolverSubspace.py'
REL_TREIGEN = 'optimism/treigen/treigen.py'

DESIGNED_NOT_REGISTERED = [
    ('O1.kernels_component/preconditioned_project_to_boundary[n=2].*', 'explicit 2-D vectors with a symbolic SPD 2x2 matrix: result_on_boundary and tau_nonnegative unknown at 40 s (core+nlsat); the same kernel is discharged in Gram form for any dimension (< 0.1 s) and in component form n=1'),
    ('O3.cg_moment_form[max_cg_iters=3]', 'moment form unrolled to 3 iterations: every iteration-3 exit (sqrt_defined, step_inside_region, on_boundary_when_reported, model_does_not_increase, model_not_above_cauchy_step) unknown at 20 s per query even with the definitional-quotient encoding that makes iteration 2 instantaneous; unwinding bound 2 is the claim'),
    ('O3.cg_component[n=2; max_cg_iters=2]', 'explicit 2-D vectors with a symbolic symmetric Hessian, 2 iterations: iteration-2 exits unknown at 30 s per query; iteration 2 is covered in moment form for any dimension, n=2 component mode is registered for the first iteration'),
    ('O4.treigen_hard_case[symbolic eigenbasis; rotation]/hard_case:step_on_boundary[<=] on inputs where the stationarity lemma fails', 'with a symbolic non-symmetric eigenvector matrix and a step that is NOT stationary along the higher eigenvector (unchanged tree: z = v[0]) z3 needs 43 s (nlsat, after 30 s of core) / unknown at 300 s without the norm-preservation lemma; the goal is therefore evaluated in phase 2 (only when the stationarity lemma is discharged) for a symbolic eigenbasis and unconditionally for the concrete rotations (< 0.1 s)'),
    ('O4.treigen whole function with the secular loop unrolled to one pass (no invariant)', 'did not finish in 20 min; the loop is covered for any number of passes by the 1-induction O4.treigen_secular_loop_base/step/exit'),
    ('O5.subspace_model_problem[3 vectors] and [2 vectors; explicit dimension 3]', 'Gram mode with 3 added vectors: sqrt_defined / basis_is_finite (positivity of the third Gram-Schmidt norm from the 3x3 Gram determinant) unknown at 60 s; '
     'component mode (explicit 3-vectors, symbolic 3x3 K): sqrt_defined, basis_is_finite, orthonormality and the entry/model identities unknown at 60 s (406 s wall). Both variants do find the unsymmetrised-reduced-matrix '
     'seed (the harness factory make_model_problem(N, n) is kept), but cannot be discharged on the correct tree; the registered 2-vector Gram form is dimension-free and discharges in < 1 s'),
    ('O2.dogleg_component/dogleg[n=2] projection exit', 'inside_region / on_the_dogleg_path unknown at 60 s in explicit 2-D (as in the design probe); the projection exit is discharged in Gram form (O2.dogleg_gram) for any dimension'),
]

NAN = float('nan')


# ------------------------------------------------------------------------------------------ shared helpers
def U(x):
    return px.unwrap(x)


def isnan(x):
    return isinstance(x, float) and math.isnan(x)


def install_poison_division(ex):
    """x/0 -> NaN (poison) on a forked path; otherwise the quotient is a fresh real q with q*b == a (definitional encoding:
    measured on the CG moment form, iteration-2 goals go from unknown at 60 s to unsat in < 0.3 s)"""
    orig = ex.divide

    def divide(a, b):
        if not ex.symbolic or not (is_sym(a) or is_sym(b)):
            return orig(a, b)
        if isnan(a) or isnan(b):
            return NAN
        zb = px._z(b)
        if is_sym(b):
            if ex.branch(zb == 0):
                ex.note('x/0')
                return NAN
        elif b == 0:
            return NAN
        elif b == 1:
            return a
        # the same syntactic quotient on the same path is the same real (functional consistency, hash-consed)
        za = px._z(a)
        key = (za.get_id(), zb.get_id(), len(ex.trail))
        cache = getattr(ex, '_c06_quot', None)
        if cache is None or cache[0] is not ex.trail:
            cache = ex._c06_quot = (ex.trail, {})
        for (ia, ib, _k), q in cache[1].items():
            if ia == za.get_id() and ib == zb.get_id():
                return SymReal(q)
        q = z3.Real('px_' + ex._name('quot'))
        ex.pc.append(q * zb == za)
        cache[1][key] = q
        return SymReal(q)
    ex.divide = divide


def install_sqrt(ex, var_filter):
    """sqrt with the definedness goal decided from the part of the path condition selected by var_filter() (None: whole path condition)"""
    def sqrt(x):
        if not isinstance(x, SymReal):
            return math.sqrt(x) if x >= 0 else NAN
        f = var_filter()
        cond = x.z >= 0
        if f is None:
            ex._defined_goal('sqrt_defined', cond, 'negative radicand')
        else:
            clean_goal(ex, 'sqrt_defined[loop]', Holds(cond), pc_over(ex, f), info='negative radicand')
        ex.pc.append(cond)
        r = z3.Real('px_' + ex._name('sqrt'))
        ex.pc.append(z3.And(r >= 0, r * r == x.z))
        return SymReal(r)
    ex.sqrt = sqrt


def load_es(ex=None, **kw):
    if ex is not None:
        kw.setdefault('shims', {})['optimism.JaxConfig'] = px.jaxconfig_shim(extra={'np': _NPRec(ex)})
    return px.load_module(REL, **kw)


def load_sub(ex=None):
    es = load_es(ex)
    tre = types.SimpleNamespace(solve=None)
    shims = {'optimism.EquationSolver': es, 'optimism.treigen.treigen': tre}
    if ex is not None:
        shims['optimism.JaxConfig'] = px.jaxconfig_shim(extra={'np': _NPRec(ex)})
    return px.load_module(REL_SUB, shims=shims), es


class SymOp:
    """a symmetric linear operator on Gram vectors: base vector b -> base vector '<name><b>'.  Symmetry <Oa, b> = <a, Ob>
    is imposed by canonicalisation of the Gram table (both entries are the same solver variable).  Entries between two
    images <Oa, Ob> are left free (they are only realisable if some extension exists; they are never formed by the
    code paths checked here unless stated)."""

    def __init__(self, ex, name):
        self.ex, self.name = ex, name
        self.img = {}      # base id -> base id of the image
        self.pre = {}      # image id -> base id
        self._patch()

    def _patch(self):
        ex, op = self.ex, self
        if getattr(ex, '_c06_ops', None) is None:
            ex._c06_ops = []
            orig = ex.gram_entry

            def entry(i, j):
                # canonical form: move operator applications to the side with the larger pre-image id
                for o in ex._c06_ops:
                    i, j = o.canon(i, j)
                return orig(i, j)
            ex.gram_entry = entry
        ex._c06_ops.append(self)

    def image(self, bid):
        if bid not in self.img:
            nb = self.ex.gram_base('%s%s' % (self.name, self.ex.gram_bases[bid]))
            k = next(iter(nb.c))
            self.img[bid] = k
            self.pre[k] = bid
        return self.img[bid]

    def canon(self, i, j):
        # <O a, b> with b not an image, a > b  ->  <a, O b> ... canonical: the operator sits on the SMALLER pre-image id
        if i in self.pre and j not in self.pre:
            a, b = self.pre[i], j
        elif j in self.pre and i not in self.pre:
            a, b = self.pre[j], i
        else:
            return i, j
        lo, hi = (a, b) if a <= b else (b, a)
        return self.image(lo), hi

    def __call__(self, v):
        if not isinstance(v, GV):
            raise px.Unsupported('SymOp on %r' % (v,))
        return GV({self.image(k): c for k, c in v.c.items()})


def gcoef(v, base):
    k = next(iter(base.c))
    return v.c.get(k, 0.0)


def all_finite(xs):
    for x in sym.flat(list(xs)):
        if is_sym(x):
            continue
        if not math.isfinite(float(x)):
            return False
    return True


def add_goal(ex, name, atom, info=None):
    """a goal whose atom contains a poisoned value is a loud harness error (never silently true)"""
    for part in (getattr(atom, k, None) for k in ('a', 'b', 'c')):
        if part is None:
            continue
        for x in sym.flat(part):
            if isnan(x) and ex.symbolic:
                raise px.Unsupported('poisoned value (x/0) reached goal %s' % name)
    ex.goal(name, atom, info=info)


def B(ex, zexpr):
    """a boolean built with z3 operators over unwrapped values: the z3 term in a symbolic run, its truth value in a replay"""
    if ex.symbolic or not sym.isz(zexpr):
        return zexpr
    return bool(z3.is_true(z3.simplify(zexpr)))


def RZ(x):
    """unwrapped number -> z3 term (floats of a replay are rounded to 9 decimals / 9 significant digits so that identities that hold
    up to rounding are not refuted by the exact rational comparison)"""
    if sym.isz(x):
        return x
    return sym.rat(float('%.9g' % round(float(x), 9)))


def add_eq(ex, name, a, b, info=None, scale=1.0):
    """a == b as the two goals a <= b and b <= a (measured: a disequality over sqrt/division terms that costs z3 14 s is
    decided in 0.4 s + 0.2 s when split)"""
    add_goal(ex, name + '[<=]', Le(a, b, scale=scale), info=info)
    add_goal(ex, name + '[>=]', Le(b, a, scale=scale), info=info)


# =========================================================================================== O1 kernels
KERNEL_GOALS = ['result_on_boundary', 'tau_nonnegative', 'result_is_z_plus_multiple_of_d']


def spd_matrix(ex, n, name='M'):
    M = ex.mat(name, n, n, symmetric=True)
    if n == 1:
        ex.assume(M[0, 0] > 0)
    elif n == 2:
        ex.assume(M[0, 0] > 0)
        ex.assume(M[0, 0] * M[1, 1] - M[0, 1] * M[0, 1] > 0)
    else:
        raise px.Unsupported('SPD matrix n > 2')
    return M


def kernel_goals_component(ex, out, z, d, tr, ip):
    """out = z + tau d with tau >= 0 and <out,out> = tr^2 in the inner product ip"""
    n = len(z)
    w = out - z
    add_goal(ex, 'result_on_boundary', Eq(U(ip(out, out)), U(tr * tr)))
    add_goal(ex, 'tau_nonnegative', Le(0.0, U(ip(w, d))))
    if n == 2:
        add_goal(ex, 'result_is_z_plus_multiple_of_d', Eq(U(w[0] * d[1] - w[1] * d[0]), 0.0))
    else:
        add_goal(ex, 'result_is_z_plus_multiple_of_d', Holds(True))


def make_kernel_component(rel, fname, n):
    def fn(ex):
        mod = load_es(ex) if rel == REL else load_sub(ex)[0]
        z, d, tr = ex.vec('z', n), ex.vec('d', n), ex.real('trSize')
        ex.assume(tr > 0)
        if fname == 'preconditioned_project_to_boundary':
            M = spd_matrix(ex, n)
            mm = (lambda v: NP.dot(M, v))
            ip = lambda a, b: NP.dot(a, mm(b))
        else:
            ip = lambda a, b: NP.dot(a, b)
        zz, zd, dd = ip(z, z), ip(z, d), ip(d, d)
        ex.assume(zz <= tr * tr)
        ex.assume(dd > 0)
        if fname == 'project_to_boundary':
            out = mod.project_to_boundary(z, d, tr, zz)
        elif fname == 'project_to_boundary_with_coefs':
            out = mod.project_to_boundary_with_coefs(z, d, tr, zz, zd, dd)
        else:
            out = mod.preconditioned_project_to_boundary(z, d, tr, zz, mm)
        kernel_goals_component(ex, out, z, d, tr, ip)
    return fn


def make_kernel_gram(rel, fname):
    def fn(ex):
        mod = load_es(ex) if rel == REL else load_sub(ex)[0]
        z, d, tr = ex.gram_base('z'), ex.gram_base('d'), ex.real('trSize')
        ex.assume(tr > 0)
        if fname == 'preconditioned_project_to_boundary':
            M = SymOp(ex, 'M')
            ip = lambda a, b: a @ M(b)
            mm = M
        else:
            ip = lambda a, b: a @ b
        zz, zd, dd = ip(z, z), ip(z, d), ip(d, d)
        # realisability of the 2x2 Gram block in the inner product used (Cauchy-Schwarz) and the preconditions
        ex.assume(zz >= 0)
        ex.assume(zz * dd - zd * zd >= 0)
        ex.assume(zz <= tr * tr)
        ex.assume(dd > 0)
        if fname == 'project_to_boundary':
            out = mod.project_to_boundary(z, d, tr, zz)
        elif fname == 'project_to_boundary_with_coefs':
            out = mod.project_to_boundary_with_coefs(z, d, tr, zz, zd, dd)
        else:
            out = mod.preconditioned_project_to_boundary(z, d, tr, zz, mm)
        add_goal(ex, 'result_on_boundary', Eq(U(ip(out, out)), U(tr * tr)))
        add_goal(ex, 'tau_nonnegative', Le(0.0, U(gcoef(out, d))))
        add_goal(ex, 'result_is_z_plus_multiple_of_d', Holds(set(out.c) <= set(z.c) | set(d.c) and gcoef(out, z) == 1.0))
    return fn


def _kernel_meta(h):
    h.encoded('optimism.EquationSolver:project_to_boundary', 'optimism.EquationSolver:project_to_boundary_with_coefs',
              'optimism.EquationSolver:preconditioned_project_to_boundary', 'optimism.EquationSolver:update_step_length_squared',
              'optimism.EquationSolver:cg_inner_products_preconditioned', 'optimism.EquationSolver:cg_inner_products_unpreconditioned',
              'optimism.EquationSolverSubspace:project_to_boundary_with_coefs')
    h.bounds('all z, d, trSize > 0 with <z,z> <= trSize^2 and <d,d> > 0 in the inner product of the kernel; component mode n = 1, 2 '
             '(symbolic SPD matrix for the preconditioned kernel) and Gram mode (any dimension, any symmetric operator whose 2x2 Gram block '
             'on span{z,d} is positive semi-definite with <d,d> > 0)')
    h.assume_note('the inner products handed to the kernels (zz, zd, dd) are the true ones (consistency is the caller\'s obligation, checked in O3)')
    h.outside('IEEE rounding (cancellation in sqrt(...) - zd)')


@obligation(P, 'O1.kernels_component', cap=300)
def o1_component(h):
    """boundary projection kernels of EquationSolver and EquationSolverSubspace on explicit vectors, n = 1 and 2"""
    _kernel_meta(h)
    for rel, fname in ((REL, 'project_to_boundary'), (REL, 'project_to_boundary_with_coefs'), (REL, 'preconditioned_project_to_boundary'),
                       (REL_SUB, 'project_to_boundary_with_coefs')):
        for n in (1, 2):
            if fname == 'preconditioned_project_to_boundary' and n == 2:
                continue    # see DESIGNED_NOT_REGISTERED; decided in Gram form
            tag = '%s%s[n=%d]' % ('Subspace.' if rel == REL_SUB else '', fname, n)
            px.run_px(h, tag, make_kernel_component(rel, fname, n), cap=40, div_mode='goal', sqrt_mode='goal', expect_goals=KERNEL_GOALS)


@obligation(P, 'O1.kernels_gram', cap=300)
def o1_gram(h):
    """the same kernels on dimension-free vectors (Gram variables)"""
    _kernel_meta(h)
    for rel, fname in ((REL, 'project_to_boundary'), (REL, 'project_to_boundary_with_coefs'), (REL, 'preconditioned_project_to_boundary'),
                       (REL_SUB, 'project_to_boundary_with_coefs')):
        tag = '%s%s[gram]' % ('Subspace.' if rel == REL_SUB else '', fname)
        px.run_px(h, tag, make_kernel_gram(rel, fname), cap=40, div_mode='goal', sqrt_mode='goal', expect_goals=KERNEL_GOALS)


def make_recurrences():
    def fn(ex):
        mod = load_es()
        # update_step_length_squared: |z + alpha d|^2 from (zz, zd, dd), any inner product
        z, d = ex.gram_base('z'), ex.gram_base('d')
        alpha, beta = ex.real('alpha'), ex.real('beta')
        zz, zd, dd = z @ z, z @ d, d @ d
        zn = z + alpha * d
        add_goal(ex, 'step_length_recurrence_exact', Eq(U(mod.update_step_length_squared(alpha, zz, zd, dd)), U(zn @ zn)))
        # Gould-Lucidi-Roma-Toint recurrences: the Gram table is the M-inner product (M = inverse preconditioner), w = P r_new,
        # so <w,w>_M = r_new.P r_new = rPr, <z_new,w>_M = z_new.r_new, <d,w>_M = d.r_new
        w = ex.gram_base('Pr')
        rPr = w @ w
        ex.assume((zn @ w) == 0)      # CG: the new residual is orthogonal to the span of the directions, which contains z_new
        ex.assume((d @ w) == 0)       # CG: the new residual is orthogonal to the last direction
        dn = -w + beta * d
        zd2, dd2 = mod.cg_inner_products_preconditioned(alpha, beta, zd, dd, rPr, zn, dn)
        add_goal(ex, 'preconditioned_recurrence_zd', Eq(U(zd2), U(zn @ dn)))
        add_goal(ex, 'preconditioned_recurrence_dd', Eq(U(dd2), U(dn @ dn)))
        zd3, dd3 = mod.cg_inner_products_unpreconditioned(alpha, beta, zd, dd, rPr, zn, dn)
        add_goal(ex, 'unpreconditioned_zd', Eq(U(zd3), U(zn @ dn)))
        add_goal(ex, 'unpreconditioned_dd', Eq(U(dd3), U(dn @ dn)))
    return fn


@obligation(P, 'O1.recurrences', cap=120)
def o1_rec(h):
    """update_step_length_squared and the inner-product recurrences equal the true inner products of the updated vectors"""
    _kernel_meta(h)
    h.assume_note('cg_inner_products_preconditioned: the CG orthogonality relations z_new.r_new = 0 and d.r_new = 0 are assumed (they hold for exact CG; O3 n=1 checks the composed routine)')
    px.run_px(h, 'recurrences', make_recurrences(), cap=30,
              expect_goals=['step_length_recurrence_exact', 'preconditioned_recurrence_zd', 'preconditioned_recurrence_dd', 'unpreconditioned_zd', 'unpreconditioned_dd'])


# =========================================================================================== O2 dogleg
DOGLEG_GOALS = ['inside_region', 'on_boundary_when_clipped[<=]', 'on_boundary_when_clipped[>=]', 'on_the_dogleg_path', 'exit_kind_consistent']


def make_dogleg_gram():
    def fn(ex):
        mod = load_es()
        cp, nw, tr = ex.gram_base('cp'), ex.gram_base('newtonP'), ex.real('trSize')
        M = SymOp(ex, 'M')
        ex.assume(tr > 0)
        ip = lambda a, b: a @ M(b)
        cc, cn, nn = ip(cp, cp), ip(cp, nw), ip(nw, nw)
        # M symmetric positive definite on span{cp, newtonP}: Gram block PSD; definiteness: a vector of zero M-norm is zero,
        # used only as (newtonP - cp) != 0 => its M-norm is positive
        ex.assume(cc >= 0)
        ex.assume(nn >= 0)
        ex.assume(cc * nn - cn * cn >= 0)
        out = mod.dogleg_step(cp, nw, tr, M)
        a, b = gcoef(out, cp), gcoef(out, nw)
        oo = ip(out, out)
        tt = tr * tr
        add_goal(ex, 'inside_region', Le(U(oo), U(tt)))
        za, zb, zcc, znn, ztt = RZ(U(a)), RZ(U(b)), RZ(U(cc)), RZ(U(nn)), RZ(U(tt))
        on_ray = z3.And(zb == 0, za > 0, za <= 1)
        on_leg = z3.And(za + zb == 1, zb >= 0, zb <= 1)
        add_goal(ex, 'on_the_dogleg_path', Holds(B(ex, z3.Or(on_ray, on_leg))), info='result = a*cp + b*newtonP must be s*cp, 0<s<=1, or cp + tau (newtonP - cp), 0<=tau<=1')
        # the step is on the boundary unless it is (syntactically) the unclipped Cauchy point or the unclipped quasi-Newton point
        plain = lambda x, v: (not is_sym(x)) and float(x) == v
        unclipped = (plain(a, 1.0) and plain(b, 0.0)) or (plain(a, 0.0) and plain(b, 1.0))
        if unclipped:
            add_goal(ex, 'on_boundary_when_clipped[<=]', Holds(True))
            add_goal(ex, 'on_boundary_when_clipped[>=]', Holds(True))
        else:
            add_eq(ex, 'on_boundary_when_clipped', U(oo), U(tt))
        # which point is returned: Cauchy point clipped iff it is outside; never the quasi-Newton point if that is outside
        add_goal(ex, 'exit_kind_consistent', Holds(B(ex, z3.And(z3.Implies(zcc >= ztt, zb == 0), z3.Implies(z3.And(za == 0, zb == 1), znn <= ztt),
                                                              z3.Implies(z3.And(zcc < ztt, zcc <= znn, znn <= ztt), z3.And(za == 0, zb == 1))))))
    return fn


def make_dogleg_component(n, projection_exit):
    def fn(ex):
        mod = load_es()
        cp, nw, tr = ex.vec('cp', n), ex.vec('newtonP', n), ex.real('trSize')
        ex.assume(tr > 0)
        M = spd_matrix(ex, n)
        mm = lambda v: NP.dot(M, v)
        ip = lambda a, b: NP.dot(a, mm(b))
        cc, nn, tt = ip(cp, cp), ip(nw, nw), tr * tr
        if not projection_exit:
            ex.assume(~((cc < tt) & (cc <= nn) & (nn > tt)) if ex.symbolic else not (cc < tt and cc <= nn and nn > tt))
        out = mod.dogleg_step(cp, nw, tr, mm)
        oo = ip(out, out)
        add_goal(ex, 'inside_region', Le(U(oo), U(tt)))
        if n == 2:
            d = nw - cp
            w = out - cp
            ray = out[0] * cp[1] - out[1] * cp[0]
            leg = w[0] * d[1] - w[1] * d[0]
            sc = ip(out, cp)          # = s*cc on the ray
            tl = ip(w, d)             # = tau*dd on the leg
            on_ray = z3.And(RZ(U(ray)) == 0, RZ(U(sc)) > 0, RZ(U(sc)) <= RZ(U(cc)))
            on_leg = z3.And(RZ(U(leg)) == 0, RZ(U(tl)) >= 0, RZ(U(tl)) <= RZ(U(ip(d, d))))
            add_goal(ex, 'on_the_dogleg_path', Holds(B(ex, z3.Or(on_ray, on_leg))))
    return fn


def _dogleg_meta(h):
    h.encoded('optimism.EquationSolver:dogleg_step', 'optimism.EquationSolver:preconditioned_project_to_boundary')
    h.assume_note('mat_mul is a symmetric operator, positive semi-definite on span{cp, newtonP} (Gram block cc, cn, nn with cc*nn >= cn^2); '
                  'print is a no-op')
    h.outside('IEEE rounding')


@obligation(P, 'O2.dogleg_gram', cap=300)
def o2_gram(h):
    """dogleg_step, all four exits, any dimension and any symmetric positive (semi-)definite mat_mul (Gram mode)"""
    _dogleg_meta(h)
    h.bounds('dogleg_step: all cp, newtonP, trSize > 0 (Gram mode: any dimension); M-inner products cc, cn, nn free subject to Cauchy-Schwarz')
    px.run_px(h, 'dogleg', make_dogleg_gram(), cap=60, div_mode='goal', sqrt_mode='goal', expect_goals=DOGLEG_GOALS)


@obligation(P, 'O2.dogleg_component', cap=300)
def o2_comp(h):
    """dogleg_step on explicit vectors with a symbolic SPD matrix: n = 1 all exits, n = 2 the three exits without the projection (the projection exit is decided in Gram form)"""
    _dogleg_meta(h)
    h.bounds('dogleg_step component mode: n = 1 all four exits; n = 2 inputs that do not take the projection exit; symbolic SPD matrix M (Sylvester conditions)')
    px.run_px(h, 'dogleg[n=1]', make_dogleg_component(1, True), cap=40, div_mode='goal', sqrt_mode='goal', expect_goals=['inside_region'])
    px.run_px(h, 'dogleg[n=2,no projection exit]', make_dogleg_component(2, False), cap=40, div_mode='goal', sqrt_mode='goal', expect_goals=['inside_region', 'on_the_dogleg_path'])


# =========================================================================================== O3 truncated CG
def F(ex, x):
    """replay: numpy float64 scalars, so that x/0 follows IEEE (inf/nan) as in the real arrays instead of raising"""
    return x if ex.symbolic or isinstance(x, (bool, int)) else onp.float64(x)


def install_moments(ex):
    """Gram table of the Krylov vectors H^k g: <H^i g, H^j g> = mu_{i+j}"""
    cache = {}

    def mu(k):
        if k not in cache:
            cache[k] = F(ex, ex.real('mu%d' % k))
        return cache[k]
    ex.gram_entry = lambda i, j: mu(i + j)
    return mu


def hankel_psd(ex, mu, order):
    """all principal minors of the Hankel matrix [mu_{i+j}], i,j = 0..order (necessary and sufficient for PSD)"""
    import itertools
    n = order + 1
    Hm = [[mu(i + j) for j in range(n)] for i in range(n)]

    def det(idx):
        if len(idx) == 1:
            return Hm[idx[0]][idx[0]]
        if len(idx) == 2:
            i, j = idx
            return Hm[i][i] * Hm[j][j] - Hm[i][j] * Hm[i][j]
        i, j, k = idx
        a, b, c, d, e, f = Hm[i][i], Hm[j][j], Hm[k][k], Hm[i][j], Hm[i][k], Hm[j][k]
        return a * (b * c - f * f) - d * (d * c - f * e) + e * (d * f - b * e)
    for r in range(1, min(n, 3) + 1):
        for idx in itertools.combinations(range(n), r):
            ex.assume(det(idx) >= 0)


def cg_settings(ex, mod, K, precond_ip, ratio_symbolic=True):
    cgtol = F(ex, ex.real('cg_tol'))
    ex.assume(cgtol > 0)
    if ratio_symbolic:
        ratio = F(ex, ex.real('cg_inexact_solve_ratio'))
        ex.assume(ratio >= 0)
    else:
        ratio = 0.0
    return mod.Settings(t1=0.25, t2=1.75, eta1=1e-10, eta2=0.1, eta3=0.5, max_trust_iters=1, tol=1.0, max_cg_iters=K, max_cumulative_cg_iters=1000,
                        cg_tol=cgtol, cg_inexact_solve_ratio=ratio, tr_size=1.0, min_tr_size=1e-8, check_stability=False,
                        use_preconditioned_inner_product_for_cg=precond_ip, use_incremental_objective=False, debug_info=False, over_iters=0), cgtol, ratio


CG_GOALS = ['step_is_finite', 'step_inside_region', 'on_boundary_when_reported[<=]', 'on_boundary_when_reported[>=]', 'model_does_not_increase', 'model_not_above_cauchy_step',
            'interior_means_newton_residual_below_tolerance', 'step_kind_is_known', 'iteration_count_in_range', 'zero_iterations_only_with_gradient_below_tolerance']


def cg_common_goals(ex, mod, kind, it, K, zz, tt, model, cauchy_model, res2, tol2, is_zero_step):
    kinds = (mod.negCurveString, mod.boundaryString, mod.interiorString, mod.interiorString + '_')
    finite = all_finite([zz, model, res2])
    add_goal(ex, 'step_is_finite', Holds(finite), info='a division by zero reaches the returned step')
    if not finite:
        return
    add_goal(ex, 'step_kind_is_known', Holds(kind in kinds))
    add_goal(ex, 'iteration_count_in_range', Holds(isinstance(it, int) and 0 <= it <= K and (it >= 1 or (kind == mod.interiorString and is_zero_step))))
    add_goal(ex, 'step_inside_region', Le(U(zz), U(tt)))
    if mod.is_on_boundary(kind):
        add_eq(ex, 'on_boundary_when_reported', U(zz), U(tt))
    add_goal(ex, 'model_does_not_increase', Le(U(model), 0.0))
    if it != 0:
        add_goal(ex, 'model_not_above_cauchy_step', Le(U(model), U(cauchy_model)))
    else:
        add_goal(ex, 'zero_iterations_only_with_gradient_below_tolerance', Holds(kind == mod.interiorString and is_zero_step))
    if kind == mod.interiorString:
        add_goal(ex, 'interior_means_newton_residual_below_tolerance', Lt(U(res2), U(tol2)))


def make_cg_moment(K, routine, ratio_symbolic, precond_ip=False):
    def fn(ex):
        install_poison_division(ex)
        mu = install_moments(ex)
        mod = load_es(ex) if routine == 'solve_trust_region_minimization' else load_sub(ex)[0]
        g, x = GV({0: 1.0}), GV({})
        hv = lambda v: GV({k + 1: c for k, c in v.c.items()})
        tr = F(ex, ex.real('trSize'))
        ex.assume(tr > 0)
        settings, cgtol, ratio = cg_settings(ex, mod, K, precond_ip, ratio_symbolic)
        hankel_psd(ex, mu, 2)
        with onp.errstate(all='ignore'):
            if routine == 'solve_trust_region_minimization':
                z, cauchyP, kind, it = mod.solve_trust_region_minimization(x, GV(dict(g.c)), hv, lambda v: v, tr, settings)
            else:
                z, kind, it = mod.trust_region_cg(x, GV(dict(g.c)), GV(dict(g.c)), hv(g), hv, lambda v: v, tr, settings)
        if routine == 'solve_trust_region_minimization':
            add_goal(ex, 'cauchy_direction_is_minus_preconditioned_gradient', Holds(it == 0 or (isinstance(cauchyP, GV) and set(cauchyP.c) == {0} and cauchyP.c[0] == -1.0)))
        zz, tt = z @ z, tr * tr
        model = g @ z + 0.5 * (z @ hv(z))
        t = ex.real('t_cauchy')      # any step -t g, t >= 0, inside the region (the Cauchy step is the best of them)
        ex.assume(t >= 0)
        ex.assume(t * t * mu(0) <= tt)
        cauchy_model = -t * mu(0) + 0.5 * t * t * mu(1)
        res = g + hv(z)
        tol2 = NP.maximum(cgtol * cgtol, ratio * ratio * mu(0))
        cg_common_goals(ex, mod, kind, it, K, zz, tt, model, cauchy_model, res @ res, tol2, not z.c)
    return fn


def make_cg_component(n, K, precond_ip, precond_kind, routine='solve_trust_region_minimization', ratio_symbolic=True):
    """explicit vectors; H symmetric symbolic; preconditioner = inverse of a positive diagonal matrix M (n=1: any SPD preconditioner)"""
    def fn(ex):
        install_poison_division(ex)
        mod = load_es(ex) if routine == 'solve_trust_region_minimization' else load_sub(ex)[0]
        g = ex.vec('g', n)
        Hm = ex.mat('H', n, n, symmetric=True)
        hv = lambda v: NP.dot(Hm, v)
        if precond_kind == 'identity':
            precond = lambda v: v
            mmul = lambda v: v
        else:
            Md = ex.vec('M', n)
            for k in range(n):
                ex.assume(Md[k] > 0)
            precond = lambda v: v / Md
            mmul = lambda v: Md * v
        ip = (lambda a, b: NP.dot(a, mmul(b))) if precond_ip else (lambda a, b: NP.dot(a, b))
        tr = F(ex, ex.real('trSize'))
        ex.assume(tr > 0)
        settings, cgtol, ratio = cg_settings(ex, mod, K, precond_ip, ratio_symbolic)
        x = onp.zeros(n)
        with onp.errstate(all='ignore'):
            if routine == 'solve_trust_region_minimization':
                z, cauchyP, kind, it = mod.solve_trust_region_minimization(x, g.copy(), hv, precond, tr, settings)
            else:
                Pg = precond(g)
                z, kind, it = mod.trust_region_cg(x, g.copy(), Pg, hv(Pg), hv, precond, tr, settings)
        zz, tt = ip(z, z), tr * tr
        model = NP.dot(g, z) + 0.5 * NP.dot(z, hv(z))
        t = ex.real('t_cauchy')
        ex.assume(t >= 0)
        c = -t * precond(g)
        ex.assume(ip(c, c) <= tt)
        cauchy_model = NP.dot(g, c) + 0.5 * NP.dot(c, hv(c))
        res = g + hv(z)
        tol2 = NP.maximum(cgtol * cgtol, ratio * ratio * NP.dot(g, g))
        is_zero = all((not is_sym(v)) and float(v) == 0.0 for v in onp.asarray(z, dtype=object).reshape(-1))
        cg_common_goals(ex, mod, kind, it, K, zz, tt, model, cauchy_model, NP.dot(res, res), tol2, is_zero)
    return fn


def _cg_meta(h):
    h.encoded('optimism.EquationSolver:solve_trust_region_minimization', 'optimism.EquationSolver:project_to_boundary_with_coefs',
              'optimism.EquationSolver:update_step_length_squared', 'optimism.EquationSolver:cg_inner_products_unpreconditioned',
              'optimism.EquationSolver:cg_inner_products_preconditioned', 'optimism.EquationSolver:is_on_boundary',
              'optimism.EquationSolverSubspace:trust_region_cg', 'optimism.EquationSolverSubspace:project_to_boundary_with_coefs')
    h.assume_note('x/0 is a poisoned value (NaN: propagates, compares False; a poisoned returned step fails step_is_finite); the quotient rPr/curvature with zero curvature is dead in the real code',
                  'cg_tol > 0, cg_inexact_solve_ratio >= 0, trSize > 0 (symbolic)',
                  'entry with |g|^2 below the CG tolerance max(cg_tol^2, ratio^2 |g|^2) returns the zero step with 0 iterations: the Cauchy comparison is claimed for exits with >= 1 iteration '
                  '(the zero-iteration exit is checked to be the zero step, reported interior, with the residual = g below the tolerance)',
                  'the Cauchy step is represented by EVERY step -t P g, t >= 0, inside the region in the configured norm (the returned step must not be worse than any of them)')
    h.outside('CG iterations >= 3 (see DESIGNED_NOT_REGISTERED); general (non-diagonal) preconditioners for n >= 2; IEEE rounding')


MOMENT_BOUNDS = ('%s with max_cg_iters=%d in ANY dimension: Gram mode over the Krylov vectors H^k g with moments mu_k = g.H^k g (mu_0..mu_4 free reals, Hankel matrix '
                 '[mu_{i+j}] 3x3 positive semi-definite), symmetric H definite/indefinite/singular, identity preconditioner, Euclidean inner product%s')


def _reg_cg_moment(routine, K, ratio_symbolic, tiers, cap, precond_ip=False):
    short = 'cg' if routine == 'solve_trust_region_minimization' else 'subspace_cg'
    goals = CG_GOALS + (['cauchy_direction_is_minus_preconditioned_gradient'] if short == 'cg' else [])

    @obligation(P, 'O3.%s_moment_form[max_cg_iters=%d%s%s]' % (short, K, '' if ratio_symbolic else '; ratio=0', '; recurrence inner products' if precond_ip else ''), tiers=tiers, cap=cap)
    def ob(h):
        _cg_meta(h)
        h.bounds(MOMENT_BOUNDS % (routine, K, ('' if ratio_symbolic else '; cg_inexact_solve_ratio = 0 (the threshold is then cg_tol^2, any positive real; the max(...) formula itself is covered by the max_cg_iters=1 obligation)')
                                  + ('; use_preconditioned_inner_product_for_cg=True with the identity preconditioner: the step norm is tracked by the Gould et al. recurrences (cg_inner_products_preconditioned), the norm is still Euclidean' if precond_ip else '')))
        px.run_px(h, short, make_cg_moment(K, routine, ratio_symbolic, precond_ip), cap=60, sqrt_mode='goal', expect_goals=goals)
    ob.__doc__ = ('real %s unrolled to %d iteration(s), moment form (any dimension): every exit finite, inside the region, on the boundary when reported, model '
                  'not increased, not worse than any Cauchy-direction step, true Newton residual below the tolerance on interior' % (routine, K))
    return ob


for _routine in ('solve_trust_region_minimization', 'trust_region_cg'):
    _reg_cg_moment(_routine, 1, True, ('quick', 'thorough'), 300)
    _reg_cg_moment(_routine, 2, False, ('quick', 'thorough'), 600)
    _reg_cg_moment(_routine, 2, True, ('thorough',), 900)
_reg_cg_moment('solve_trust_region_minimization', 2, False, ('quick', 'thorough'), 600, precond_ip=True)


def _reg_cg_component(n, K, precond_ip, precond_kind, routine, tiers, cap):
    short = 'cg' if routine == 'solve_trust_region_minimization' else 'subspace_cg'
    name = 'O3.%s_component[n=%d; max_cg_iters=%d; %s inner product; %s preconditioner]' % (short, n, K, 'preconditioned' if precond_ip else 'euclidean', precond_kind)

    @obligation(P, name, tiers=tiers, cap=cap)
    def ob(h):
        _cg_meta(h)
        h.bounds('%s component mode n=%d, max_cg_iters=%d: symbolic gradient, symmetric Hessian (any signature), %s; norm of the region: %s' % (
            routine, n, K, 'preconditioner = inverse of a symbolic positive diagonal matrix M' if precond_kind != 'identity' else 'identity preconditioner',
            'M-norm (use_preconditioned_inner_product_for_cg=True)' if precond_ip else 'Euclidean'))
        px.run_px(h, short, make_cg_component(n, K, precond_ip, precond_kind, routine), cap=60, sqrt_mode='goal', expect_goals=CG_GOALS)
    ob.__doc__ = 'real %s on explicit vectors' % routine
    return ob


_reg_cg_component(1, 1, False, 'identity', 'solve_trust_region_minimization', ('quick', 'thorough'), 300)
_reg_cg_component(1, 2, False, 'identity', 'solve_trust_region_minimization', ('quick', 'thorough'), 300)
_reg_cg_component(1, 2, False, 'diagonal', 'solve_trust_region_minimization', ('quick', 'thorough'), 300)
_reg_cg_component(1, 2, True, 'diagonal', 'solve_trust_region_minimization', ('quick', 'thorough'), 300)
_reg_cg_component(2, 1, False, 'identity', 'solve_trust_region_minimization', ('quick', 'thorough'), 300)
_reg_cg_component(2, 1, True, 'diagonal', 'solve_trust_region_minimization', ('quick', 'thorough'), 300)
_reg_cg_component(1, 2, False, 'diagonal', 'trust_region_cg', ('quick', 'thorough'), 300)
_reg_cg_component(2, 1, False, 'identity', 'trust_region_cg', ('quick', 'thorough'), 300)


# =========================================================================================== O4 treigen
class AtArray(onp.ndarray):
    """object array with the functional update syntax of jax arrays: a.at[idx].set(value) returns an updated copy"""

    @property
    def at(self):
        arr = self

        class _At:
            def __getitem__(self, idx):
                class _Set:
                    def set(self, val):
                        out = onp.array(arr, dtype=object).view(AtArray)
                        out[idx] = val
                        return out
                return _Set()
        return _At()


class _NPRec:
    """px.NP plus a record of which numpy functions the code under test called (used to tell the exits of treigen.solve apart)"""

    def __init__(self, ex=None, sqrt_goal=lambda: 'sqrt_defined'):
        self.called = set()
        self.ex, self.sqrt_goal = ex, sqrt_goal

    def sign(self, x):
        self.called.add('sign')
        return NP.sign(x)

    def sqrt(self, x):
        if self.ex is not None and not self.ex.symbolic and onp.ndim(x) == 0:
            # replay: the definedness goal of the symbolic run (recorded there by the explorer) at the same site
            self.ex.goal(self.sqrt_goal(), Holds(bool(float(x) >= 0)), info='negative radicand')
        with onp.errstate(all='ignore'):
            r = NP.sqrt(x)
        self.last_sqrt = (x, r)
        return r

    def zeros(self, shape, dtype=None):
        return onp.zeros(shape, dtype=object).view(AtArray)

    def mean(self, a):
        a = onp.asarray(a, dtype=object) if px._has_sym(a) else onp.asarray(a)
        r = 0.0
        for x in a.reshape(-1):
            r = r + x
        return r / a.size

    def __getattr__(self, name):
        return getattr(NP, name)


def load_treigen(ex, eigh, sqrt_goal=lambda: 'sqrt_defined', on_norm=None):
    rec = _NPRec(ex, sqrt_goal)

    def norm(w):
        r = NP.linalg.norm(w)
        rec.last_norm = (w, r)
        if on_norm is not None:
            on_norm(w, r)
        return r
    lin = types.SimpleNamespace(norm=norm, eigh=eigh)
    mod = px.load_module(REL_TREIGEN, shims={'optimism.JaxConfig': px.jaxconfig_shim(extra={'np': rec}), 'jax.numpy.linalg': lin})
    return mod, rec


def assume_eq(ex, a, b, tol=1e-9):
    if ex.symbolic:
        ex.assume(a == b)
    elif abs(float(a) - float(b)) > tol * (1 + abs(float(b))):
        raise px.PathAbort('assumption false in replay')


def treigen_inputs(ex, rotation=None, reflect=None):
    """eigh contract, n = 2: ascending eigenvalues, orthogonal eigenvector matrix (rotation, optionally composed with a
    reflection of the second column), A = v diag(sig) v^T.  Returns A, b, Delta and the spectral data for the spec."""
    sig = ex.vec('sig', 2)
    ex.assume(sig[0] <= sig[1])
    c, s = ex.real('c'), ex.real('s')
    assume_eq(ex, c * c + s * s, 1.0)
    if rotation is not None:
        assume_eq(ex, c, rotation[0])
        assume_eq(ex, s, rotation[1])
    if not ex.symbolic:
        nrm = math.hypot(c, s)
        c, s = c / nrm, s / nrm
    refl = ex.bool('reflect')
    if reflect is not None:
        ex.assume(refl == reflect if ex.symbolic else bool(refl) == reflect)
    refl = bool(refl)
    u0 = onp.array([c, s], dtype=object if ex.symbolic else float)
    u1 = onp.array([-s, c], dtype=object if ex.symbolic else float)
    if refl:
        u1 = -u1
    v = onp.empty((2, 2), dtype=object if ex.symbolic else float)
    v[:, 0], v[:, 1] = u0, u1
    A = onp.empty((2, 2), dtype=object if ex.symbolic else float)
    for i in range(2):
        for j in range(i, 2):
            A[i, j] = sig[0] * u0[i] * u0[j] + sig[1] * u1[i] * u1[j]
            A[j, i] = A[i, j]
    b = ex.vec('b', 2)
    Delta = ex.real('Delta')
    ex.assume(Delta > 0)
    return A, b, Delta, sig, v


def real_eigh_aligned(M, v_model):
    """replay: the real numpy.linalg.eigh of the concrete matrix; eigenvectors are defined up to sign (LAPACK builds differ),
    so the columns are sign-aligned with the eigenvector matrix of the solver model; for a (nearly) repeated eigenvalue the
    model's eigenvectors are used (any orthonormal basis of the eigenspace is a valid output)"""
    w, vv = onp.linalg.eigh(onp.asarray(M, dtype=float))
    vm = onp.asarray(v_model, dtype=float)
    out = vv.copy()
    for k in range(vv.shape[1]):
        d = float(vv[:, k] @ vm[:, k])
        if abs(d) < 0.9:
            return w, vm.copy()
        if d < 0:
            out[:, k] = -vv[:, k]
    return w, out


def real_module_report(A, b, Delta, sig, v):
    """replay only: the same concrete inputs through the REAL module optimism.treigen.treigen (jax, real eigh, no shims)"""
    try:
        import jax.numpy as jnp
        tre = importlib.import_module('optimism.treigen.treigen')
        Aj, bj = jnp.array(onp.asarray(A, dtype=float)), jnp.array(onp.asarray(b, dtype=float))
        sj = onp.asarray(tre.solve(Aj, bj, float(Delta)), dtype=float)
        w, vv = onp.linalg.eigh(onp.asarray(A, dtype=float))
        m = float(0.5 * sj @ onp.asarray(A, dtype=float) @ sj + sj @ onp.asarray(b, dtype=float))
        return 'real optimism.treigen.treigen.solve(A=%s, b=%s, Delta=%r) -> step %s, |step|=%.12g, model value %.12g; real eigh eigenvector matrix %s (det %+.0f)' % (
            onp.asarray(A, dtype=float).tolist(), onp.asarray(b, dtype=float).tolist(), float(Delta), sj.tolist(), float(onp.linalg.norm(sj)), m, vv.tolist(), onp.linalg.det(vv))
    except Exception as e:      # pragma: no cover
        return 'real module not run: %s: %s' % (type(e).__name__, e)


def define(ex, name, value):
    """a named solver variable equal to value (cut point: later goals mention the name, not the expression)"""
    if not ex.symbolic or not is_sym(value):
        return value
    q = z3.Real('px_' + ex._name(name))
    ex.pc.append(q == value.z)
    return SymReal(q)


def cut(ex, name, atom, info=None):
    """prove the lemma on this path, then use it: goals recorded later on the path have it among their assumptions"""
    add_goal(ex, name, atom, info=info)
    if ex.symbolic:
        ex.pc.append(z3.Not(atom.neg(0)))
    else:
        bad, _ = atom.conc_violated(1e-9)
        if bad:
            raise px.PathAbort('lemma %s fails in replay' % name)


def clean_goal(ex, name, atom, assumptions, info=None):
    """a goal decided from an explicit, small list of assumptions (each of them an input assumption, a definition or a lemma
    already proved on this path by `cut`) instead of the whole path condition: fewer assumptions => still sound, and the
    solver is not distracted by the rotation algebra.  In a replay the atom is evaluated as usual."""
    if not ex.symbolic:
        add_goal(ex, name, atom, info=info)
        return
    small = [c.z if isinstance(c, SymBool) else c for c in assumptions if not isinstance(c, (bool, onp.bool_))]
    if not px._concrete_atom(atom):
        # a counterexample of the reduced query need not extend to a model of the whole path (it could not be replayed): if the
        # reduced query is not unsat, the goal is recorded with the whole path condition instead
        st = sym.solve(small + [atom.neg(0)], 20)[0]
        if st != 'unsat':
            add_goal(ex, name, atom, info=info)
            return
    saved = ex.pc
    ex.pc = small
    try:
        add_goal(ex, name, atom, info=info)
    finally:
        ex.pc = saved


def free_vars(e, acc=None, seen=None):
    acc = set() if acc is None else acc
    seen = set() if seen is None else seen
    stack = [e]
    while stack:
        t = stack.pop()
        if t.get_id() in seen:
            continue
        seen.add(t.get_id())
        if z3.is_const(t) and t.decl().kind() == z3.Z3_OP_UNINTERPRETED:
            acc.add(t.decl().name())
        else:
            stack.extend(t.children())
    return acc


def pc_over(ex, allowed):
    """the path-condition entries whose variables all satisfy `allowed(name)`"""
    return [c for c in ex.pc if all(allowed(n) for n in free_vars(c))]


def holds(atom):
    return z3.Not(atom.neg(0))


def model_e(sig, be, x):
    """the quadratic model in eigen-coordinates"""
    return 0.5 * (sig[0] * x[0] * x[0] + sig[1] * x[1] * x[1]) + x[0] * be[0] + x[1] * be[1]


TAGS = ('interior', 'hard_case', 'secular')


def call_and_find_exit(mod, fname, thunk):
    """run thunk() and report through which `return` statement (ordinal in source order) the function `fname` of the real
    source was left: the exits of treigen.solve are told apart by position, not by what the branch computes"""
    tree = ast.parse(mod.__source__)
    fd = [n for n in ast.walk(tree) if isinstance(n, ast.FunctionDef) and n.name == fname][0]
    rets = sorted(n.lineno for n in ast.walk(fd) if isinstance(n, ast.Return))
    seen = []

    def local(frame, event, arg):
        if event == 'return':
            seen.append(frame.f_lineno)
        return local

    def tracer(frame, event, arg):
        if event == 'call' and frame.f_code.co_name == fname and frame.f_code.co_filename == mod.__file__:
            return local
        return None
    old = sys.gettrace()
    sys.settrace(tracer)
    try:
        out = thunk()
    finally:
        sys.settrace(old)
    k = rets.index(seen[-1]) if seen and seen[-1] in rets else -1
    return out, k, len(rets)


def secular_certificate(ex, G, sig, Delta, xe, be, xx, qe, lam, pN, rN):
    """the exit of the secular iteration: the returned step is stationary for the shift lam >= max(0, -sig0), its norm is the code's
    last secular norm, which passed the exit test | |p| - Delta | <= 1e-9 Delta; hence a global minimiser over the ball of its own radius"""
    DD = Delta * Delta
    qq = qe[0] * qe[0] + qe[1] * qe[1]
    base = [sig[0] <= sig[1], Delta > 0]
    lemmas = []

    def lemma(name, atom, info=None):
        cut(ex, G(name), atom, info=info)
        lemmas.append(holds(atom) if ex.symbolic else True)
    lam = define(ex, 'lam', lam)
    pN = define(ex, 'pNormSq', pN)
    rN = define(ex, 'pNorm', rN)
    if not all_finite([lam, pN, rN]):
        add_goal(ex, G('secular_norm_is_finite'), Holds(False))
        return
    lemma('shift_is_nonnegative', Le(0.0, U(lam)))
    lemma('shifted_matrix_is_positive_semidefinite', Le(U(-sig[0]), U(lam)))
    lemma('stationary', Eq(U([(sig[i] + lam) * xe[i] + be[i] for i in range(2)]), 0.0))
    lemma('step_norm_is_the_secular_norm', Eq(U(xx), U(pN)))
    lemma('secular_norm_is_a_nonnegative_root', Holds(z3.And(U(rN) >= 0, U(rN) * U(rN) == U(pN))) if ex.symbolic else Eq(rN * rN, pN))
    # the exit test, decided from the path-condition entries over (Delta, the code's square roots and quotients) only
    small = pc_over(ex, lambda n: n in ('Delta', 'px_pNorm') or n.startswith('px_sqrt') or n.startswith('px_quot')) if ex.symbolic else []
    for nm, at in (('exit_test_passed[<=]', Le(U(rN - Delta), U(1e-9 * Delta))), ('exit_test_passed[>=]', Le(U(Delta - rN), U(1e-9 * Delta)))):
        clean_goal(ex, G(nm), at, small)
        if ex.symbolic:
            ex.pc.append(holds(at))
        lemmas.append(holds(at) if ex.symbolic else True)
    lo, hi = Delta - 1e-9 * Delta, Delta + 1e-9 * Delta
    clean_goal(ex, G('step_norm_within_1e-9_of_radius[<=]'), Le(U(xx), U(hi * hi)), base + lemmas)
    clean_goal(ex, G('step_norm_within_1e-9_of_radius[>=]'), Le(U(lo * lo), U(xx)), base + lemmas)
    ex.assume(qq <= xx)
    clean_goal(ex, G('global_minimizer_over_the_ball_of_its_own_radius'), Le(U(model_e(sig, be, xe)), U(model_e(sig, be, qe))), base + lemmas + [qq <= xx])


def make_treigen(zero_matrix=False, max_secular_iters=0, rotation=None, reflect=None, tags=TAGS, phase=None, finite_goal=True, nonzero_b=False, boundary_early=False, spectrum=None, only_finite=False):
    """phase None: the whole lemma chain; 1: up to and including the stationarity lemma of the hard case; 2: the goals that
    depend on that lemma (the lemma is assumed: it was proved by phase 1 of the same obligation)"""
    def fn(ex):
        install_poison_division(ex)
        A, b, Delta, sig, v = treigen_inputs(ex, rotation, reflect)
        if zero_matrix:
            ex.assume(sig[0] == 0)
            ex.assume(sig[1] == 0)
        else:
            ex.assume(NP.abs(sig[0]) + NP.abs(sig[1]) > 0)
        if nonzero_b:
            ex.assume(NP.dot(b, b) > 0)
        if spectrum == 'indefinite':
            ex.assume(sig[0] < 0)
        elif spectrum == 'semidefinite':
            ex.assume(sig[0] >= 0)
        if ex.symbolic:
            def eigh(M):
                if M is not A:
                    raise px.Unsupported('eigh called on something that is not the input matrix')
                return sig.copy(), v.copy()
        else:
            def eigh(M):
                return real_eigh_aligned(M, v)
        def on_norm(w, r):
            # lemma (contract of eigh only): the orthogonal eigenvector matrix preserves the norm of the vector whose norm the code just took
            if ex.symbolic and px._has_sym(w) and all_finite(w):
                vw = NP.dot(v, w)
                cut(ex, 'eigenvector_matrix_preserves_norm', Eq(U(NP.dot(vw, vw)), U(NP.dot(w, w))))
        mod, rec = load_treigen(ex, eigh, on_norm=on_norm)
        iters = [0]
        last = {}
        q_orig, p_orig = mod.qnorm_squared, mod.pnorm_squared

        def qn(bvv, sg):
            iters[0] += 1
            if ex.symbolic and iters[0] > max_secular_iters:
                ex.cut('secular iteration bound')
            return q_orig(bvv, sg)

        def pn(bvv, sg):
            rec.called.add('pnorm_squared')
            r = p_orig(bvv, sg)
            last['shifted'], last['pNormSq'] = sg, r
            return r
        mod.qnorm_squared, mod.pnorm_squared = qn, pn
        with onp.errstate(all='ignore'):
            step, k_exit, n_exits = call_and_find_exit(mod, 'solve', lambda: mod.solve(A, b.copy(), Delta))
        step = onp.asarray(step, dtype=object if ex.symbolic else float).reshape(-1)
        if n_exits != 3 or k_exit < 0:
            raise px.Unsupported('treigen.solve is expected to have three return statements (interior, hard case, secular): found %d' % n_exits)
        tag = TAGS[k_exit]
        ex.note('exit=%s secular_iterations=%d' % (tag, iters[0]))
        G = lambda name: '%s:%s' % (tag, name)
        if tag not in tags:
            raise px.PathAbort('other shard')     # this exit is examined by another obligation: drop the path together with the definedness goals recorded on it
        finite = all_finite(step)
        if finite_goal and phase != 2:
            add_goal(ex, G('step_is_finite'), Holds(finite), info='NaN/inf in the returned step (a division by zero reached it)')
        if not ex.symbolic:
            ex.note(real_module_report(A, b, Delta, sig, v))
        if not finite or only_finite:
            return
        DD = Delta * Delta
        # eigen-coordinates of the returned step and of b (spec side, with the contract's eigenvector matrix)
        xe = [define(ex, 'xe%d' % i, NP.dot(v[:, i], step)) for i in range(2)]
        be = [define(ex, 'be%d' % i, NP.dot(v[:, i], b)) for i in range(2)]
        xx = xe[0] * xe[0] + xe[1] * xe[1]
        if phase == 2:
            if ex.symbolic:
                ex.pc.append(U(NP.dot(step, step)) == U(xx))
        else:
            cut(ex, G('eigen_coordinates_preserve_norm'), Eq(U(NP.dot(step, step)), U(xx)))
        sigscale = 0.5 * (NP.abs(sig[0]) + NP.abs(sig[1]))
        qe = ex.vec('qe', 2)       # any other point of the ball, in eigen-coordinates (q = v qe, |q| = |qe|)
        qq = qe[0] * qe[0] + qe[1] * qe[1]
        base = [sig[0] <= sig[1], Delta > 0]
        lemmas = []

        def lemma(name, atom, info=None, proved_elsewhere=False):
            if proved_elsewhere:
                if ex.symbolic:
                    ex.pc.append(holds(atom))
            else:
                cut(ex, G(name), atom, info=info)
            lemmas.append(holds(atom) if ex.symbolic else True)
        m_x, m_q = model_e(sig, be, xe), model_e(sig, be, qe)
        if tag == 'interior':
            lemma('matrix_is_positive_definite', Lt(0.0, U(sig[0])))
            lemma('newton_system_satisfied', Eq(U([sig[i] * xe[i] + be[i] for i in range(2)]), 0.0))
            lemma('step_inside_region', Lt(U(xx), U(DD)))
            ex.assume(qq <= DD)
            clean_goal(ex, G('global_minimizer_over_the_ball'), Le(U(m_x), U(m_q)), base + lemmas + [qq <= DD])
        elif tag == 'hard_case':
            eps = define(ex, 'eps', 1e-12 * sigscale)
            lam = -sig[0] + eps
            p2 = phase == 2
            lemma('regularisation_is_positive', Lt(0.0, U(eps)), proved_elsewhere=p2)
            lemma('shift_is_nonnegative', Le(0.0, U(lam)), proved_elsewhere=p2)
            if boundary_early:
                lemma('step_on_boundary[<=]', Le(U(xx), U(DD)), proved_elsewhere=p2)
                lemma('step_on_boundary[>=]', Le(U(DD), U(xx)), proved_elsewhere=p2)
            lemma('stationary_along_the_higher_eigenvector', Eq(U((sig[1] + lam) * xe[1] + be[1]), 0.0), proved_elsewhere=p2,
                  info='(A + lam I) step + b must vanish along the eigenvector of the larger eigenvalue: the step may differ from -(A + lam I)^-1 b only by a multiple of the LOWEST eigenvector')
            if phase == 1:
                return
            if not boundary_early:
                lemma('step_on_boundary[<=]', Le(U(xx), U(DD)))
                lemma('step_on_boundary[>=]', Le(U(DD), U(xx)))
            r0 = (sig[0] + lam) * xe[0] + be[0]
            lemma('stationarity_residual_along_the_lowest_eigenvector_within_regularisation', Le(U(r0 * r0), U(4.0 * DD * eps * eps)))
            ex.assume(qq <= DD)
            clean_goal(ex, G('global_minimizer_over_the_ball'), Le(U(m_x), U(m_q + 4.0 * eps * DD)), base + lemmas + [qq <= DD],
                       info='model(step) exceeds model(q) + 4e-12 mean|sig| Delta^2 for a point q = v qe of the ball')
        else:
            arg, rN = rec.last_sqrt
            add_goal(ex, G('last_square_root_is_of_the_last_secular_norm'), Holds(arg is last['pNormSq']))
            secular_certificate(ex, G, sig, Delta, xe, be, xx, qe, last['shifted'][0] - sig[0], last['pNormSq'], rN)
    return fn


def _treigen_meta(h):
    h.encoded('optimism.treigen.treigen:solve', 'optimism.treigen.treigen:pnorm_squared', 'optimism.treigen.treigen:qnorm_squared')
    h.assume_note('stub (contract): numpy/jax eigh returns ascending eigenvalues and an orthogonal eigenvector matrix with A = v diag(sig) v^T; n=2: v = rotation(c,s), c^2+s^2=1, '
                  'optionally with the second column reflected; the matrix handed to solve is built from (sig, v) and is symmetric; in a replay the REAL numpy.linalg.eigh is applied to the concrete matrix',
                  'eigh symmetrisation semantics (jax.numpy.linalg.eigh, symmetrize_input=True, as called by treigen.solve): for ANY square input H the decomposition returned is that of (H + H^T)/2; '
                  'the O4 obligations hand it a symmetric matrix, O5 checks that the reduced matrix ModelProblem hands over IS symmetric and that (H + H^T)/2 is the restriction of the full Hessian',
                  'x/0 is a poisoned value (NaN); a poisoned returned step fails step_is_finite',
                  'hard-case tolerance of the optimality claim: 4e-12 * mean|sig| * Delta^2 (the code regularises with eps = 1e-12 mean|sig|; the exact minimiser of the eps-perturbed problem differs by at most that in model value)')
    h.outside('treigen n >= 3; termination of the secular while loop; IEEE rounding')


STATIONARITY = 'hard_case:stationary_along_the_higher_eigenvector'


def run_hard_case(h, cap=60, **kw):
    """phase 1: finiteness and the lemmas up to the stationarity lemma; phase 2 only when that lemma is discharged: the goals proved FROM it (residual
    along the lowest eigenvector, global optimality: a goal derived from a refuted lemma is void) and, for a symbolic eigenbasis, step_on_boundary (with a
    symbolic non-symmetric eigenvector matrix z3 decides it only once the lemma holds: unknown at 300 s otherwise; the concrete-rotation obligations
    decide it independently of the lemma: boundary_early)"""
    r1 = px.run_px(h, 'hard_case_lemmas', make_treigen(tags=('hard_case',), phase=1, **kw), cap=cap, sqrt_mode='goal')
    if r1 is None:      # replay mode: offer the query to both phases
        px.run_px(h, 'hard_case_dependent', make_treigen(tags=('hard_case',), phase=2, **kw), cap=cap, sqrt_mode='goal')
        return
    recs = [r for r in r1[1] if r['query'].endswith(STATIONARITY)]
    if recs and all(r['status'] == 'discharged' for r in recs):
        px.run_px(h, 'hard_case_dependent', make_treigen(tags=('hard_case',), phase=2, **kw), cap=cap, sqrt_mode='goal')
    else:
        h.outside('%s: the goals derived from the lemma %s (residual along the lowest eigenvector, global_minimizer_over_the_ball; with a symbolic eigenbasis also step_on_boundary) were NOT evaluated in this run '
                  'because the lemma itself is not discharged' % (h.ob, STATIONARITY))


@obligation(P, 'O4.treigen_interior_and_secular_exits[symbolic eigenbasis]', cap=600)
def o4_int_sec(h):
    """treigen.solve, eigh by contract with a symbolic eigenbasis: interior exit (Newton step inside, A positive definite) and the exit of the secular
    iteration without a loop pass: stationarity with a shift lam >= max(0, -sig0), norm within 1e-9 of the radius, global optimality"""
    _treigen_meta(h)
    h.bounds('treigen.solve n=2: all sig0 <= sig1 (not both zero), all rotations (c,s) with and without reflection, all b, Delta > 0; secular while loop: paths that leave it without a pass '
             '(the loop body is the subject of O4.treigen_secular_step)')
    px.run_px(h, 'treigen', make_treigen(tags=('interior', 'secular'), max_secular_iters=0), cap=60, sqrt_mode='goal')


@obligation(P, 'O4.treigen_hard_case_step_is_finite[symbolic eigenbasis]', cap=600)
def o4_hard_finite(h):
    """hard-case exit: the returned step is a finite vector (no division by zero reaches it), any eigenbasis"""
    _treigen_meta(h)
    h.bounds('treigen.solve n=2 hard-case exit: symbolic spectrum (not both zero), eigenbasis (rotation with/without reflection), b, Delta > 0')
    px.run_px(h, 'hard_case', make_treigen(tags=('hard_case',), only_finite=True), cap=60, sqrt_mode='goal')


@obligation(P, 'O4.treigen_hard_case[symbolic eigenbasis; symmetric eigenvector matrix]', cap=600)
def o4_hard_sym(h):
    """hard-case exit with v = rotation composed with a reflection (in 2-D exactly the symmetric orthogonal matrices: the class the repo's tests use)"""
    _treigen_meta(h)
    h.bounds('treigen.solve n=2 hard-case exit: symbolic spectrum, b, Delta; eigenvector matrix [[c, s], [s, -c]], c^2+s^2=1; inputs with a non-finite returned step: see O4.treigen_hard_case_step_is_finite')
    run_hard_case(h, reflect=True, finite_goal=False)


def _reg_hard_rot(spectrum, text):
    @obligation(P, 'O4.treigen_hard_case[symbolic eigenbasis; rotation; %s]' % text, cap=900)
    def ob(h):
        _treigen_meta(h)
        h.bounds('treigen.solve n=2 hard-case exit: symbolic spectrum with %s, b, Delta; eigenvector matrix [[c, -s], [s, c]], c^2+s^2=1; inputs with a non-finite returned step: see O4.treigen_hard_case_step_is_finite' % text)
        run_hard_case(h, reflect=False, finite_goal=False, spectrum=spectrum)
    ob.__doc__ = 'hard-case exit with a general (non-symmetric) eigenvector matrix v = [[c, -s], [s, c]], lowest eigenvalue %s' % text
    return ob


_reg_hard_rot('indefinite', 'sig0 negative')
_reg_hard_rot('semidefinite', 'sig0 nonnegative')


ROTATIONS = {'3/5,4/5': (3, 4, 5), '-5/13,12/13': (-5, 12, 13), '4/5,-3/5': (4, -3, 5)}


def _reg_hard_concrete(label, cs, tiers):
    import fractions
    rot = (fractions.Fraction(cs[0], cs[2]), fractions.Fraction(cs[1], cs[2]))

    @obligation(P, 'O4.treigen_hard_case[eigenbasis rotated by (c;s)=(%s)]' % label.replace(',', ';'), tiers=tiers, cap=600)
    def ob(h):
        _treigen_meta(h)
        h.bounds('treigen.solve n=2 hard-case exit: eigenvector matrix [[c, -s], [s, c]] with the concrete rational rotation (c,s) = (%s); symbolic spectrum, b, Delta; '
                 'inputs whose returned step is not finite are examined by the symbolic-eigenbasis obligations (step_is_finite)' % label)
        run_hard_case(h, rotation=rot, reflect=False, finite_goal=False, boundary_early=True)
    ob.__doc__ = 'hard-case exit, the whole lemma chain (decidable even where a lemma fails) for one concrete non-symmetric eigenvector matrix'
    return ob


_reg_hard_concrete('3/5,4/5', ROTATIONS['3/5,4/5'], ('quick', 'thorough'))
_reg_hard_concrete('-5/13,12/13', ROTATIONS['-5/13,12/13'], ('thorough',))
_reg_hard_concrete('4/5,-3/5', ROTATIONS['4/5,-3/5'], ('thorough',))


@obligation(P, 'O4.treigen_zero_matrix', cap=300)
def o4_zero(h):
    """A = 0 (both eigenvalues zero: the model is linear, the minimiser is -Delta b/|b|)"""
    _treigen_meta(h)
    h.bounds('treigen.solve n=2 with A = 0 (sig0 = sig1 = 0), any orthogonal eigenvector matrix, all b != 0, Delta > 0')
    h.outside('A = 0 together with b = 0 (the model is identically zero)')
    px.run_px(h, 'treigen', make_treigen(zero_matrix=True, nonzero_b=True), cap=60, sqrt_mode='goal')


# ------------------------------------------------------------------------------------------ O4: the secular while loop, one pass
def select_secular_loop(fd):
    k = [i for i, s in enumerate(fd.body) if isinstance(s, ast.While)][0]
    return fd.body[k], fd.body[:k]


def select_after_secular_loop(fd):
    k = [i for i, s in enumerate(fd.body) if isinstance(s, ast.While)][0]
    return ast.While(test=ast.Constant(True), body=fd.body[k + 1:], orelse=[]), fd.body[:k]


LOOP_VARS = ('sig_0', 'sig_1', 'lam', 'Delta')


def _loop_var(n):
    return n in LOOP_VARS or n.startswith('px_a') or n.startswith('px_quot') or n.startswith('px_sqrt')


def make_secular(kind):
    """kind 'base': the state in which the real prefix of solve reaches the loop satisfies Inv;
    'step': Inv and the loop test => Inv after one pass of the real loop body;
    'exit': Inv and not the loop test => the real return statement yields a step with the certificate.
    Inv: lam >= 0, lam > -sig0, pNormSq = pnorm_squared(bvv, sig+lam), pNorm = sqrt(pNormSq), bError = (pNorm - Delta)/Delta, bError >= 0
    (the last three by construction of the havoc: they are functions of lam computed with the code's own expressions).
    In 'step'/'exit' the squared eigen-components bvv of b are re-named (fresh reals a_i equal to the code's expressions, a_i >= 0 proved),
    so that the loop body is an expression over (a, sig, lam, Delta) only and the goals are decided from that part of the path condition."""
    def fn(ex):
        install_poison_division(ex)
        A, b, Delta, sig, v = treigen_inputs(ex)
        ex.assume(NP.abs(sig[0]) + NP.abs(sig[1]) > 0)

        def eigh(M):
            return (sig.copy(), v.copy()) if ex.symbolic else real_eigh_aligned(M, v)
        in_loop = [False]
        mod, rec = load_treigen(ex, eigh, lambda: 'sqrt_defined[loop]' if in_loop[0] else 'sqrt_defined')
        step_fn, src, names = px.extract_step(mod, 'solve', select_after_secular_loop if kind == 'exit' else select_secular_loop)
        heads = []
        install_sqrt(ex, lambda: _loop_var if in_loop[0] else None)

        def havoc(loc):
            heads.append(dict(loc))
            if kind == 'base':
                raise _AtLoopHead()
            a = onp.empty(2, dtype=object if ex.symbolic else float)
            for i in range(2):
                a[i] = define(ex, 'a%d' % i, loc['bvv'][i])
                cut(ex, '%s:squared_component_is_nonnegative' % kind, Le(0.0, U(a[i])))
            in_loop[0] = True
            lam = ex.real('lam')
            ex.assume(lam >= 0)
            ex.assume(lam + sig[0] > 0)
            pN = mod.pnorm_squared(a, sig + lam)
            pNorm = rec.sqrt(pN)
            bE = (pNorm - Delta) / Delta
            ex.assume(bE >= 0)
            ex.assume(NP.abs(bE) > 1e-9 if kind == 'step' else NP.abs(bE) <= 1e-9)
            heads[-1].update(lam=lam, pNormSq=pN, pNorm=pNorm, bError=bE, bvv=a)
            return dict(lam=lam, pNormSq=pN, pNorm=pNorm, bError=bE, bvv=a)
        try:
            with onp.errstate(all='ignore'):
                k, val, loc = step_fn({}, havoc, A, b.copy(), Delta)
        except _AtLoopHead:
            k, val, loc = 'head', None, heads[0]
        if not heads:
            raise px.PathAbort('other shard')       # the prefix returned (interior / hard case): not a loop path
        head = heads[0]
        base = [sig[0] <= sig[1], Delta > 0]
        if kind == 'base':
            lam, pN, pNorm, bE = head['lam'], head['pNormSq'], head['pNorm'], head['bError']
            if not all_finite([lam, pN, pNorm, bE]):
                raise px.PathAbort('other shard')
            add_goal(ex, 'base:shift_is_nonnegative', Le(0.0, U(lam)))
            add_goal(ex, 'base:shifted_matrix_is_positive_definite', Lt(U(-sig[0]), U(lam)))
            # left of the root: the last norm(...) < Delta test of the prefix failed on w = bv/(sig+lam); chain of re-statements in named variables
            w, nrm = rec.last_norm
            lem = []

            def lemma(name, atom):
                cut(ex, 'base:' + name, atom)
                lem.append(holds(atom) if ex.symbolic else True)
            B = [define(ex, 'B%d' % i, head['bv'][i]) for i in range(2)]
            T = [define(ex, 'T%d' % i, sig[i] + lam) for i in range(2)]
            W = [define(ex, 'W%d' % i, w[i]) for i in range(2)]
            n_, pN_, r_, e_ = define(ex, 'n', nrm), define(ex, 'pN', pN), define(ex, 'r', pNorm), define(ex, 'e', bE)
            lemma('last_norm_argument_is_bv_over_shifted_spectrum', Eq(U([W[i] * T[i] - B[i] for i in range(2)]), 0.0))
            lemma('shifted_spectrum_is_positive', Lt(0.0, U(T)))
            lemma('secular_norm_squared_in_polynomial_form', Eq(U(pN_ * T[0] * T[0] * T[1] * T[1]), U(B[0] * B[0] * T[1] * T[1] + B[1] * B[1] * T[0] * T[0])))
            lemma('last_norm_is_the_euclidean_norm', Holds(z3.And(U(n_) >= 0, U(n_ * n_) == U(W[0] * W[0] + W[1] * W[1]))) if ex.symbolic else Eq(n_ * n_, W[0] * W[0] + W[1] * W[1]))
            lemma('last_norm_test_failed', Le(U(Delta), U(n_)))
            lemma('secular_norm_is_a_nonnegative_root', Holds(z3.And(U(r_) >= 0, U(r_ * r_) == U(pN_))) if ex.symbolic else Eq(r_ * r_, pN_))
            lemma('boundary_error_definition', Eq(U(e_ * Delta), U(r_ - Delta)))
            clean_goal(ex, 'base:left_of_the_root', Le(0.0, U(e_)), base + lem, info='the loop is entered with |p(lam)| < Delta')
        elif kind == 'step':
            lam, bE = loc['lam'], loc['bError']
            finite = all_finite([lam, loc['pNormSq'], loc['pNorm'], bE])
            small = pc_over(ex, _loop_var) if ex.symbolic else []
            clean_goal(ex, 'step:loop_state_stays_finite', Holds(finite), small)
            if finite:
                clean_goal(ex, 'step:shift_does_not_decrease', Le(U(head['lam']), U(lam)), small)
                clean_goal(ex, 'step:stays_left_of_the_root', Le(0.0, U(bE)), small, info='Newton on the secular equation from the left of the root must not overshoot (concavity)')
        else:
            stepv = onp.asarray(val, dtype=object if ex.symbolic else float).reshape(-1)
            G = lambda name: 'exit:%s' % name
            if not all_finite(stepv):
                add_goal(ex, G('step_is_finite'), Holds(False))
                return
            xe = [define(ex, 'xe%d' % i, NP.dot(v[:, i], stepv)) for i in range(2)]
            be = [define(ex, 'be%d' % i, NP.dot(v[:, i], b)) for i in range(2)]
            xx = xe[0] * xe[0] + xe[1] * xe[1]
            cut(ex, G('eigen_coordinates_preserve_norm'), Eq(U(NP.dot(stepv, stepv)), U(xx)))
            cut(ex, G('renamed_components_are_the_squares'), Eq(U([head['bvv'][i] - be[i] * be[i] for i in range(2)]), 0.0))
            secular_certificate(ex, G, sig, Delta, xe, be, xx, ex.vec('qe', 2), head['lam'], head['pNormSq'], head['pNorm'])
    return fn


class _AtLoopHead(Exception):
    pass


def _reg_secular(kind, doc):
    @obligation(P, 'O4.treigen_secular_loop_%s' % kind, cap=600)
    def ob(h):
        _treigen_meta(h)
        h.encoded('optimism.treigen.treigen:solve (%s)' % {'base': 'statements before the while loop, real source', 'step': 'body of the while loop, extracted by AST from the current source',
                                                               'exit': 'return statement after the while loop, extracted by AST from the current source'}[kind])
        h.bounds('treigen.solve n=2, symbolic eigenbasis (rotation with/without reflection), spectrum (not both zero), b, Delta > 0; loop-head state: ANY lam satisfying the invariant '
                 'Inv = (lam >= 0, lam > -sig0, pNormSq/pNorm/bError consistent with lam, bError >= 0), reachable or not')
        h.assume_note('1-induction over the secular while loop: base (prefix establishes Inv), step (Inv and loop test => Inv after one real body), exit (Inv and not loop test => the real return value is '
                      'stationary for a shift lam >= max(0,-sig0), has norm within 1e-9 of Delta and is a global minimiser over the ball of its own radius); termination is outside the claim')
        px.run_px(h, kind, make_secular(kind), cap=60, sqrt_mode='goal')
    ob.__doc__ = doc
    return ob


_reg_secular('base', 'the real statements of treigen.solve before the secular loop establish the loop invariant (lam >= 0, lam > -sig0, |p(lam)| >= Delta)')
_reg_secular('step', 'one pass of the real loop body from any state satisfying the invariant and the loop test re-establishes the invariant (Newton on the secular equation does not overshoot)')
_reg_secular('exit', 'from any state satisfying the invariant and the negated loop test the real return statement yields a certified global minimiser (norm within 1e-9 of the radius)')



# =========================================================================================== O5 the sub-space model problem
class _Vecs:
    """the two vector representations behind one interface: Gram vectors (any dimension) or explicit numpy vectors of dimension n"""

    def __init__(self, ex, n):
        self.ex, self.n = ex, n
        if n is None:
            self.K = SymOp(ex, 'K')
        else:
            Km = ex.mat('K', n, n, symmetric=True)
            self.K = lambda v: NP.dot(Km, v)

    def vec(self, name):
        return self.ex.gram_base(name) if self.n is None else self.ex.vec(name, self.n)

    def comps(self, a):
        """coefficient list of a vector (aligned between two vectors by `pair`)"""
        return list(a.c.values()) if self.n is None else list(onp.asarray(a, dtype=object).reshape(-1))

    def pair(self, a, b):
        if self.n is None:
            keys = sorted(set(a.c) | set(b.c))
            return [a.c.get(k, 0.0) for k in keys], [b.c.get(k, 0.0) for k in keys]
        return self.comps(a), self.comps(b)


def make_model_problem(N, n=None):
    """real ModelProblem (add_vector x N, setup_system, solve) in Gram mode: N arbitrary linearly independent vectors w_k of any
    dimension, K a symmetric operator (Gram canonicalisation), gradient g; treigen.solve is a stub returning an ARBITRARY coefficient vector"""
    def fn(ex):
        install_poison_division(ex)
        mod, es = load_sub(ex)
        vs = _Vecs(ex, n)
        K = vs.K
        g = vs.vec('g')
        w = [vs.vec('w%d' % k) for k in range(N)]
        # linear independence of the added vectors (leading principal minors of their Gram matrix positive)
        G = lambda i, j: w[i] @ w[j]
        ex.assume(G(0, 0) > 0)
        if N >= 2:
            ex.assume(G(0, 0) * G(1, 1) - G(0, 1) * G(0, 1) > 0)
        if N >= 3:
            a, b_, c_, d, e, f = G(0, 0), G(1, 1), G(2, 2), G(0, 1), G(0, 2), G(1, 2)
            ex.assume(a * (b_ * c_ - f * f) - d * (d * c_ - f * e) + e * (d * f - b_ * e) > 0)
        Delta = ex.real('Delta')
        ex.assume(Delta > 0)
        coef = ex.vec('coef', N)            # what the eigen-solver returns: any coefficient vector
        seen = {}

        def solve_stub(H, gr, D):
            seen['H'], seen['g'], seen['Delta'] = H, gr, D
            return coef
        mod.treigen = types.SimpleNamespace(solve=solve_stub)
        mp = mod.ModelProblem(g)
        with onp.errstate(all='ignore'):
            for k in range(N):
                mp.add_vector(w[k], K(w[k]))
            mp.setup_system()
            step = mp.solve(Delta)
        V, KV = mp.v, mp.Kv
        flat = []
        for vk in V + KV + [step]:
            flat += vs.comps(vk)
        finite = all_finite(flat)
        add_goal(ex, 'basis_is_finite', Holds(finite), info='division by a zero norm although the added vectors are linearly independent')
        if not finite:
            return
        add_goal(ex, 'solver_called_with_the_stored_reduced_system', Holds(seen.get('H') is mp.H and seen.get('g') is mp.g and seen.get('Delta') is Delta))
        H, gr = onp.asarray(mp.H, dtype=object), onp.asarray(mp.g, dtype=object)
        add_goal(ex, 'reduced_system_has_the_right_shape', Holds(H.shape == (N, N) and gr.shape == (N,) and len(V) == N and len(KV) == N))

        def gv_eq(name, a, b):
            ca, cb = vs.pair(a, b)
            add_goal(ex, name, Eq(U(ca), U(cb)) if ca else Holds(True))
        for k in range(N):
            gv_eq('stored_product_is_K_times_basis_vector', KV[k], K(V[k]))
        add_goal(ex, 'basis_is_orthonormal', Eq(U([V[i] @ V[j] for i in range(N) for j in range(N)]), [1.0 if i == j else 0.0 for i in range(N) for j in range(N)]))
        add_goal(ex, 'reduced_gradient_is_Vt_g', Eq(U([gr[i] for i in range(N)]), U([V[i] @ g for i in range(N)])))
        add_goal(ex, 'reduced_matrix_is_Vt_K_V_entry_by_entry', Eq(U([H[i, j] for i in range(N) for j in range(N)]), U([V[i] @ K(V[j]) for i in range(N) for j in range(N)])),
                 info='both triangles of the matrix handed to the eigen-solver must hold v_i.K v_j')
        add_goal(ex, 'reduced_matrix_is_symmetric', Eq(U([H[i, j] for i in range(N) for j in range(N)]), U([H[j, i] for i in range(N) for j in range(N)])))
        # the model the eigen-solver minimises (eigh decomposes (H + H^T)/2) is the restriction of the full model to the span
        c = ex.vec('c', N)
        x = c[0] * V[0]
        for i in range(1, N):
            x = x + c[i] * V[i]
        full = g @ x + 0.5 * (x @ K(x))
        red = 0.0
        for i in range(N):
            red = red + c[i] * gr[i]
            for j in range(N):
                red = red + 0.5 * c[i] * (0.5 * (H[i, j] + H[j, i])) * c[j]
        add_goal(ex, 'reduced_model_is_the_restriction_of_the_full_model', Eq(U(red), U(full)), info='for the coefficient vector c: reduced model(c) != full model(V c)')
        xs = coef[0] * V[0]
        for i in range(1, N):
            xs = xs + coef[i] * V[i]
        gv_eq('returned_step_is_V_times_the_solver_coefficients', step, xs)
    return fn


MP_GOALS = ['basis_is_finite', 'solver_called_with_the_stored_reduced_system', 'reduced_system_has_the_right_shape', 'stored_product_is_K_times_basis_vector', 'basis_is_orthonormal',
            'reduced_gradient_is_Vt_g', 'reduced_matrix_is_Vt_K_V_entry_by_entry', 'reduced_matrix_is_symmetric', 'reduced_model_is_the_restriction_of_the_full_model',
            'returned_step_is_V_times_the_solver_coefficients']


def _reg_model_problem(N, tiers, cap, n=None):
    @obligation(P, 'O5.subspace_model_problem[%d vectors%s]' % (N, '' if n is None else '; explicit dimension %d' % n), tiers=tiers, cap=cap)
    def ob(h):
        h.encoded('optimism.EquationSolverSubspace:ModelProblem.add_vector', 'optimism.EquationSolverSubspace:ModelProblem.setup_system', 'optimism.EquationSolverSubspace:ModelProblem.solve')
        h.bounds(('real ModelProblem with %d added vectors in ANY dimension (Gram mode): arbitrary linearly independent vectors w_k, their products K w_k with a symmetric operator K '
                  '(<K a, b> = <a, K b> by canonicalisation), arbitrary gradient g, Delta > 0; the reduced model is compared with the full model at an ARBITRARY coefficient vector c' % N) if n is None else
                 ('real ModelProblem with %d added vectors of dimension %d on explicit numpy vectors (component mode): symbolic linearly independent vectors, symbolic symmetric matrix K, gradient, Delta > 0, '
                  'arbitrary coefficient vector c; in a replay the real source runs on float arrays' % (N, n)))
        h.assume_note('stub: treigen.solve returns an arbitrary coefficient vector (its own guarantees: O4); contract used for the composition: the eigen-solver decomposes (H + H^T)/2 of the matrix it is handed '
                      '(jax eigh, symmetrize_input=True), so "minimiser of the reduced model" (O4) composed with this obligation gives "minimiser of the full model over the span, |V c| = |c|"',
                      'jax functional updates a.at[i].set(x) are modelled by an object array with the same syntax (copy, then assign); x/0 is a poisoned value')
        h.outside('linearly dependent added vectors (zero norm after orthogonalisation); more than %d vectors; IEEE rounding (loss of orthogonality)' % N)
        px.run_px(h, 'model_problem', make_model_problem(N, n), cap=60, sqrt_mode='goal', expect_goals=MP_GOALS)
    ob.__doc__ = 'the reduced system ModelProblem hands to treigen.solve is V^T K V (entry by entry, symmetric) and V^T g with V orthonormal: the reduced model is the restriction of the full model to the span, and the returned step is V times the solver output'
    return ob


_reg_model_problem(2, ('quick', 'thorough'), 600)
