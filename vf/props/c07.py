"""C07 — solution sensitivities equal implicit-function-theorem derivatives: the custom reverse rules of
inverse/NonlinearSolve.py (PX on the real source, the REAL Objective's vjp/jvp closures through JX), the adjoint function
space against the direct construction (JX), param_index_update (shared with C19)."""
import math
import time
import traceback

import numpy as onp
import z3
import jax
import jax.numpy as jnp

from ..core import obligation
from .. import px, jx, sym
from ..px import NP
from ..sym import Eq, Holds, Le, Lt, v_mul, v_sub, v_le
from ..jxh import Case
from . import c19
from .c19 import make_hybrid, IdentityPrecond, ScalarPrecond, U

P = 'C07'
REL = 'optimism/inverse/NonlinearSolve.py'
SLOTS = (0, 1, 2, 4)


def _objmod():
    from optimism import Objective
    return Objective


# ------------------------------------------------------------------------------------------ the energy family (n = 1)
def make_energy(present):
    """f(x,p) = k0 x + k1 x^2 + k2 x^3 + sum_{k in present} (b_k x + d_k x^2) p_k ; coefficients in the app_data slot
    (traced, symbolic); slots that are None are not touched"""
    def f(x, p):
        k, b, d = p[3]
        r = k[0] * x[0] + k[1] * x[0] ** 2 + k[2] * x[0] ** 3
        for j, s in enumerate(SLOTS):
            if s in present:
                ps = p[s][0] if s != 4 else p[s]
                r = r + (b[j] * x[0] + d[j] * x[0] ** 2) * ps
        return r
    return f


def draw_family(ex, present):
    """symbolic family member, parametrised such that f_xx(Uu, p) = h and f_{x p_k}(Uu, p) = F_k are plain symbols:
    k1 and b_k are CHOSEN from (h, F_k) and the free remaining coefficients — every member with f_xx = h is reached"""
    x = ex.vec('Uu', 1)
    k0, k2 = ex.real('k0'), ex.real('k2')
    h = ex.real('f_xx')
    d = ex.vec('d', 4)
    F = ex.vec('f_xp', 4)
    pv = {}
    for j, s in enumerate(SLOTS):
        if s in present:
            pv[s] = ex.real('p%d' % s)
    # f_xx = 2 k1 + 6 k2 x + 2 sum d_k p_k  ;  f_x p_k = b_k + 2 x d_k
    acc = 6.0 * k2 * x[0]
    for j, s in enumerate(SLOTS):
        if s in present:
            acc = acc + 2.0 * d[j] * pv[s]
    k1 = 0.5 * (h - acc)
    b = onp.empty(4, dtype=object if ex.symbolic else float)
    for j in range(4):
        b[j] = F[j] - 2.0 * x[0] * d[j]
    k = onp.empty(3, dtype=object if ex.symbolic else float)
    k[0], k[1], k[2] = k0, k1, k2
    return x, (k, b, d), h, F, pv


def params_of(ex, pv, app, present, design=None):
    O = _objmod()
    vals = []
    for s in range(6):
        if s == 3:
            vals.append(app)
        elif s in present and s in SLOTS:
            val = pv[s] if not (s == 2 and design is not None) else design
            if s == 4:
                vals.append(val)
            else:
                a = onp.empty(1, dtype=object if ex.symbolic else float)
                a[0] = val
                vals.append(a)
        else:
            vals.append(None)
    return O.Params(*vals)


def example_params(present):
    O = _objmod()
    app = (jnp.ones(3), jnp.ones(4), jnp.ones(4))
    vals = [None] * 6
    for s in present:
        vals[s] = jnp.ones(1) if s != 4 else 0.5
    vals[3] = app
    return jnp.array([0.3]), O.Params(*vals)


def load_rule_module():
    es = px.load_module('optimism/EquationSolver.py')
    mod = px.load_module(REL, shims={'optimism.EquationSolver': es})
    mod.np = c19.NPX          # px.NP plus value predicates (any / all / allclose) that fork on proxies: a slot VALUE of zero is a path of its own
    return mod, es


def cg_settings(ex, es, precond_ip):
    tol = ex.real('tol')
    ex.assume(tol > 0)
    return es.get_settings(tol=tol, max_cg_iters=3, use_preconditioned_inner_product_for_cg=precond_ip, debug_info=False)


RAISED = []             # exceptions raised by the rule itself in this process (symbolic or replay runs)
REPORT_RAISE = [True]   # the two reverse_rule_ift obligations report a raising rule as a violation (with PX replay); the others only stop


def call_rule(ex, thunk, unsupported_goal='path_with_nonfinite_arithmetic_is_infeasible'):
    """run the reverse rule; a TypeError / unpacking ValueError raised by the rule itself is the C07 'derivative exists'
    clause failing; PX-unsupported arithmetic (an infinite trust radius meeting a symbolic number) marks a path that
    must be infeasible"""
    try:
        return thunk(), None
    except px.PathAbort:
        raise
    except px.Unsupported as e:
        ex.goal(unsupported_goal, Holds(False), info=str(e))
        return None, 'unsupported'
    except (TypeError, ValueError) as e:
        RAISED.append('%s: %s' % (type(e).__name__, e))
        if REPORT_RAISE[0]:
            ex.goal('derivative_exists', Holds(False), info=RAISED[-1])
        return None, 'raised'


def tolerance_split(ex, v, settings):
    """|v| >= cg_tol: the adjoint CG makes its one exact step; below, it returns the zero vector (tolerance exit)"""
    big = v[0] * v[0] >= settings.cg_tol * settings.cg_tol
    return U(big) if ex.symbolic else bool(big)


def make_rule_harness(which, present, precond_kind, precond_ip, curvature='positive'):
    """which = 'design' (nonlinear_solve_b) | 'state' (nonlinear_solve_with_state_b)"""
    f = make_energy(present)

    def fn(ex):
        O = _objmod()
        mod, es = load_rule_module()
        x, app, h, F, pv = draw_family(ex, present)
        settings = cg_settings(ex, es, precond_ip)
        v = ex.vec('v', 1)
        v_in = onp.array(v, copy=True)
        if curvature == 'positive':
            ex.assume(h > 0)
        else:
            ex.assume(h < 0)
            ex.assume(v[0] * v[0] >= settings.cg_tol * settings.cg_tol)
        # negative curvature: PX cannot carry inf * symbol; reaching that arithmetic IS the non-finite result (the replay decides)
        ug = 'path_with_nonfinite_arithmetic_is_infeasible' if curvature == 'positive' else 'cotangent_is_finite'
        xe, pe = example_params(present)
        precond = ScalarPrecond(ex) if precond_kind == 'spd' else IdentityPrecond()
        if which == 'design':
            # the objective still holds a stale design value; the rule must install the one saved by the forward pass
            stale = ex.real('p2_stale')
            p_obj = params_of(ex, pv, app, present, design=stale)
            design = onp.empty(1, dtype=object if ex.symbolic else float)
            design[0] = pv[2]
            obj = make_hybrid(f, xe, pe, p_obj, precond=precond)
            out, err = call_rule(ex, lambda: mod.nonlinear_solve_b(obj, settings, (x, design), v), ug)
        else:
            p = params_of(ex, pv, app, present)
            stale_p = O.Params(*[None if q is None else (q if isinstance(q, tuple) else q * 0.0 + ex.real('stale')) for q in p])
            obj = make_hybrid(f, xe, pe, stale_p, precond=precond)
            out, err = call_rule(ex, lambda: mod.nonlinear_solve_with_state_b(obj, settings, (x, p), v), ug)
        if err:
            return
        big = tolerance_split(ex, v_in, settings)
        small = z3.Not(big) if ex.symbolic else (not big)
        if curvature != 'positive':
            cts = [out[1]] if which == 'design' else [c for c in out[1] if c is not None]
            fin = all((px.is_sym(t) or math.isfinite(float(t))) for c in cts for t in onp.asarray(c, dtype=object).reshape(-1))
            ex.goal('cotangent_is_finite', Holds(fin), info='negative curvature: the adjoint CG projects onto a trust region of infinite radius')
            return
        ex.goal('derivative_exists', Holds(True))
        ex.goal('result_is_a_pair', Holds(isinstance(out, tuple) and len(out) == 2))
        # the reparametrisation is right: the real closure's Hessian at the saved state and parameters is the symbol f_xx
        p_saved = obj.p
        ex.goal('family_hessian_is_the_symbol_f_xx', Eq(U(onp.asarray(obj.hess_vec(x, p_saved, onp.ones(1)), dtype=object)), [U(h)]))
        ex.goal('UuGuess_cotangent_is_zero', Eq(U(onp.asarray(out[0], dtype=object)), [0.0]), info='cotangent of the initial guess')
        ex.goal('UuGuess_cotangent_shape', Holds(onp.shape(out[0]) == onp.shape(x)))
        if which == 'design':
            ct = {2: out[1]}
            ex.goal('objective_carries_saved_design', Eq(U(obj.p[2]), U(design)))
        else:
            ct = {s: out[1][s] for s in SLOTS}
            ex.goal('result_is_a_params_tuple', Holds(type(out[1]) is O.Params and len(out[1]) == 6))
            ex.goal('app_and_dynamic_slots_are_none', Holds(out[1][3] is None and out[1][5] is None))
            ex.goal('objective_carries_saved_parameters', Holds(obj.p is p))
        for j, s in enumerate(SLOTS):
            if s not in ct:
                continue
            if s not in present:
                ex.goal('none_slot_gives_none', Holds(ct[s] is None), info='slot %d' % s)
                continue
            c = ct[s]
            ex.goal('present_slot_gives_a_cotangent', Holds(c is not None), info='slot %d is present (its value may be zero) but its cotangent is None' % s)
            ex.goal('cotangent_is_an_array_not_a_tuple', Holds(not isinstance(c, (tuple, list))), info='slot %d' % s)
            cs = onp.asarray(c, dtype=object).reshape(-1)
            numeric = cs.size == 1 and (px.is_sym(cs[0]) or isinstance(cs[0], (int, float, onp.floating)))
            ex.goal('cotangent_shape', Holds(numeric), info='slot %d: %r' % (s, c if not ex.symbolic else type(c).__name__))
            if not numeric:
                continue
            # IFT: dU/dp_k = -f_xx^{-1} f_{x p_k}; cotangent v  =>  -v f_xp / f_xx   (product form: f_xx * ct = -v f_xp)
            ex.goal('cotangent_is_ift[slot %d]' % s, Eq(U(h * cs[0]), U(-v_in[0] * F[j]), when=big), info='f_xx * cotangent = -v f_xp')
            ex.goal('cotangent_is_zero_below_cg_tolerance[slot %d]' % s, Eq(U(cs[0]), 0.0, when=small), info='|v| < cg_tol: tolerance exit of the adjoint solve')
    return fn


def goals_for(which, present):
    g = ['derivative_exists', 'UuGuess_cotangent_is_zero']
    for s in (SLOTS if which == 'state' else (2,)):
        if s in present:
            g += ['cotangent_is_ift[slot %d]' % s, 'cotangent_is_zero_below_cg_tolerance[slot %d]' % s]
        else:
            g += ['none_slot_gives_none']
    return g


def _meta(h):
    O = _objmod()
    h.encoded('optimism.inverse.NonlinearSolve:nonlinear_solve_b (real source under PX)', 'optimism.inverse.NonlinearSolve:nonlinear_solve_with_state_b (real source under PX)',
              'optimism.EquationSolver:solve_trust_region_minimization (real source under PX: the adjoint CG)', O.Objective.__init__, O.Objective.hessian_vec,
              O.Objective.vec_jacobian_p0, O.Objective.vec_jacobian_p1, O.Objective.vec_jacobian_p2, O.Objective.vec_jacobian_p4, O.Objective.apply_precond, O.param_index_update,
              'jaxprs of Objective.hess_vec / vec_jac_xp0 / vec_jac_xp1 / vec_jac_xp2 / vec_jac_xp4 (jit closures built by the real Objective.__init__, traced per run)')
    h.bounds('n=1 unknown; f = k0 x + k1 x^2 + k2 x^3 + sum_k (b_k x + d_k x^2) p_k over the present slots k in {0,1,2,4} (p0,p1,p2 in R^1, p4 scalar): all coefficients, '
             'the state Uu, all parameter values (INCLUDING zero: numpy value predicates such as np.any / np.allclose on a slot fork the path) and the cotangent v symbolic; f_xx(Uu,p) > 0; cg tolerance: tol > 0 symbolic (cg_tol = tol/5), max_cg_iters = 3; '
             'Euclidean and preconditioned CG inner products; identity / arbitrary positive scalar preconditioner')
    h.assume_note('hybrid: the objective is the real Objective class; its jitted closures are evaluated through their jaxprs by JX on the proxy arrays (replay: the real jitted closures)',
                  'stub: SparseCholesky (sksparse absent) replaced by the identity or an arbitrary positive scalar preconditioner',
                  'reparametrisation: k1 and b_k are expressed through f_xx and f_{x p_k} (plain symbols) and the remaining free coefficients; every family member with the given f_xx, f_xp is covered',
                  'tolerance: for |v| < cg_tol the adjoint solve returns 0 (its tolerance exit); the exact IFT value is claimed for |v| >= cg_tol, the zero value below (error <= cg_tol |f_xp| / f_xx)')
    h.outside('n >= 2 (adjoint CG with several iterations: C06); helper VJPs of MechanicsInverse vs dense Jacobians (JAX vjp-vs-jacobian consistency: both sides are JAX autodiff of the same traced function); '
              'multi-step histories; rounding')


QUICK_PRESENT = [(0, 1, 2, 4), (2,), (0, 2), (1, 2, 4)]


def all_present():
    out = []
    for m in range(16):
        pr = tuple(s for j, s in enumerate(SLOTS) if m >> j & 1)
        out.append(pr)
    return out


def run_cfg(h, name, fn, goals, cap=40, report_raise=True):
    """one PX run; returns False when the reverse rule raised (then the remaining configurations are pointless)"""
    REPORT_RAISE[0] = report_raise
    del RAISED[:]
    r = px.run_px(h, name, fn, cap=cap, div_mode='goal', sqrt_mode='goal')
    if r is None:
        return True
    ex, recs = r
    names = {rec['query'].split('/', 1)[1][len(name) + 1:]: rec for rec in recs}
    de = names.get('derivative_exists')
    if RAISED or (de is not None and de['status'] != 'discharged'):
        return False
    for g in goals:
        if g not in names:
            h.records.append(dict(query='%s/%s.%s' % (h.ob, name, g), status='vacuous', solver=None, time_s=0.0, attempts=[], nonvacuous=False,
                                  detail='no explored path reaches this goal site'))
    return True


def blocked(h, n_left):
    if h.replay is None:
        h.records.append(dict(query='%s/blocked_by_raising_rule' % h.ob, status='inconclusive', solver=None, time_s=0.0, attempts=[], nonvacuous=None,
                              detail='the reverse rule raises before returning anything (%s): %d further configurations not run; see O1.reverse_rule/derivative_exists[*]'
                                     % ((RAISED[-1] if RAISED else 'see the derivative_exists violation')[:160], n_left)))


def _configs(h):
    return [('identity', False)] + ([('spd', True), ('spd', False), ('identity', True)] if h.thorough() else [('spd', True)])


@obligation(P, 'O1.reverse_rule_ift[nonlinear_solve_b]', cap=600)
def o1_design(h):
    """nonlinear_solve_b on the n=1 family: the design cotangent equals -v f_xx^{-1} f_{x p2} evaluated at the SAVED design
    parameters (the objective holds stale ones), the UuGuess cotangent is zero, for every coefficient set with f_xx > 0 and
    every cotangent (zero below the CG tolerance)"""
    _meta(h)
    sets = [(0, 1, 2, 4), (2,)] + ([(0, 2), (1, 2, 4), (2, 4)] if h.thorough() else [])
    todo = [(pk, ip, pr) for pk, ip in _configs(h) for pr in sets]
    for k, (pk, ip, pr) in enumerate(todo):
        ok = run_cfg(h, 'design[present=%s,precond=%s,precond_ip=%s]' % (''.join(map(str, pr)), pk, ip), make_rule_harness('design', pr, pk, ip), goals_for('design', pr))
        if not ok:
            return blocked(h, len(todo) - k - 1)


@obligation(P, 'O1.reverse_rule_ift[nonlinear_solve_with_state_b]', cap=900)
def o1_state(h):
    """nonlinear_solve_with_state_b on the n=1 family: for every subset of present slots, the cotangent of slot k equals
    -v f_xx^{-1} f_{x p_k}, None slots give None, slots 3 and 5 are None, the UuGuess cotangent is zero"""
    _meta(h)
    todo = []
    for ci, (pk, ip) in enumerate(_configs(h)):
        for pr in (all_present() if (h.thorough() and ci < 2) else QUICK_PRESENT):
            todo.append((pk, ip, pr))
    for k, (pk, ip, pr) in enumerate(todo):
        ok = run_cfg(h, 'state[present=%s,precond=%s,precond_ip=%s]' % (''.join(map(str, pr)) or 'none', pk, ip), make_rule_harness('state', pr, pk, ip), goals_for('state', pr))
        if not ok:
            return blocked(h, len(todo) - k - 1)


@obligation(P, 'O1.reverse_rule_negative_curvature', cap=300)
def o1_neg(h):
    """f_xx < 0 at the solution (non-singular, the IFT derivative exists): the adjoint solve takes the negative-curvature
    exit of the trust-region CG with an infinite radius; the returned cotangent must still be finite"""
    _meta(h)
    h.bounds('as O1.reverse_rule_ift but f_xx(Uu,p) < 0 and |v| >= cg_tol')
    for which in ('design', 'state'):
        ok = run_cfg(h, '%s[negative curvature]' % which, make_rule_harness(which, (0, 1, 2, 4), 'identity', False, curvature='negative'), [], report_raise=False)
        if not ok:
            return blocked(h, 1 if which == 'design' else 0)


# ------------------------------------------------------------------------------------------ n = 2: the contraction (transposition) side
class JaxLikeArray(onp.ndarray):
    """`array != None` is the scalar True for a JAX array (the comparison falls back to identity) but elementwise for NumPy;
    the rule under test branches on it, so proxy arrays get the JAX behaviour"""

    def __ne__(self, o):
        if o is None:
            return True
        return onp.ndarray.__ne__(self, o)

    def __eq__(self, o):
        if o is None:
            return False
        return onp.ndarray.__eq__(self, o)

    __hash__ = None


def energy_n2(present):
    """f = x.A x/2 + c x0^2 x1 + sum_k [ x.(B_k p_k) + x0 x1 (d_k.p_k) ]  (p0,p1,p2 in R^2, p4 scalar)"""
    def f(x, p):
        a, c, B, d, B4, d4 = p[3]
        A = jnp.array([[a[0], a[1]], [a[1], a[2]]])
        r = 0.5 * x @ (A @ x) + c * x[0] ** 2 * x[1]
        for j, s in enumerate((0, 1, 2)):
            if s in present:
                r = r + x @ (B[j] @ p[s]) + x[0] * x[1] * (d[j] @ p[s])
        if 4 in present:
            r = r + (x @ B4) * p[4] + x[0] * x[1] * d4 * p[4]
        return r
    return f


def oracle_n2(x, a, c, B, d, B4, d4, pv, present):
    """hand-derived Hessian and parameter Jacobians G_k = d(grad f)/dp_k of energy_n2"""
    cross = 0.0
    for j, s in enumerate((0, 1, 2)):
        if s in present:
            cross = cross + NP.dot(d[j], pv[s])
    if 4 in present:
        cross = cross + d4 * pv[4]
    H = onp.empty((2, 2), dtype=object)
    H[0, 0] = a[0] + 2.0 * c * x[1]
    H[0, 1] = a[1] + 2.0 * c * x[0] + cross
    H[1, 0] = H[0, 1]
    H[1, 1] = a[2] + 0.0 * c
    sw = onp.array([x[1], x[0]], dtype=object)
    G = {}
    for j, s in enumerate((0, 1, 2)):
        if s in present:
            G[s] = B[j] + onp.multiply.outer(sw, d[j])          # 2 x 2
    if 4 in present:
        G[4] = B4 + sw * d4                                      # 2
    return H, G


def make_contraction_harness(which, present):
    f = energy_n2(present)

    def fn(ex):
        O = _objmod()
        mod, es = load_rule_module()
        x = ex.vec('Uu', 2)
        a, c = ex.vec('a', 3), ex.real('c')
        B = onp.stack([ex.mat('B%d' % s, 2, 2) for s in (0, 1, 2)])
        d = onp.stack([ex.vec('d%d' % s, 2) for s in (0, 1, 2)])
        B4, d4 = ex.vec('B4', 2), ex.real('d4')
        pv = {s: (ex.vec('p%d' % s, 2) if s != 4 else ex.real('p4')) for s in present}
        v = ex.vec('v', 2)
        v_in = onp.array(v, copy=True)
        app = (a, c, B, d, B4, d4)
        H, G = oracle_n2(x, a, c, B, d, B4, d4, pv, present)
        settings = es.get_settings(debug_info=False)
        seen = {}
        ex.assume(H[0, 0] > 0)          # SPD Hessian at the solution: the adjoint system has exactly one solution
        ex.assume(H[0, 0] * H[1, 1] - H[0, 1] * H[0, 1] > 0)
        if ex.symbolic:
            def cg_contract(x_, r, hess_vec_func, precond, trSize, settings_):
                # contract of the trust-region CG with an infinite radius on an SPD operator: z with H z = -r (C06 owns the CG itself)
                z = ex.vec('lam', 2)
                for cnd in c19.zeq(hess_vec_func(z), -onp.asarray(r, dtype=object)):
                    ex.assume(cnd)
                seen.update(x=onp.array(x_, copy=True), trSize=trSize, z=z, probe=hess_vec_func)
                return z, z, es.interiorString, 1
            es.solve_trust_region_minimization = cg_contract

        def arr(val):
            return onp.asarray(val, dtype=object if ex.symbolic else float).view(JaxLikeArray)
        vals = [None] * 6
        for s in present:
            vals[s] = arr(pv[s]) if s != 4 else pv[s]
        vals[3] = app
        p = O.Params(*vals)
        ex_p = [None] * 6
        for s in present:
            ex_p[s] = jnp.ones(2) if s != 4 else 0.5
        ex_p[3] = (jnp.ones(3), 0.5, jnp.ones((3, 2, 2)), jnp.ones((3, 2)), jnp.ones(2), 0.5)
        stale = O.Params(*[None if q is None else (q if isinstance(q, tuple) else q * 0.0 + ex.real('stale')) for q in p])
        if which == 'design':
            obj = make_hybrid(f, jnp.ones(2), O.Params(*ex_p), stale)
            obj.p = O.param_index_update(p, 2, stale[2])          # everything current except the design slot
            out, err = call_rule(ex, lambda: mod.nonlinear_solve_b(obj, settings, (x, p[2]), v))
        else:
            obj = make_hybrid(f, jnp.ones(2), O.Params(*ex_p), stale)
            out, err = call_rule(ex, lambda: mod.nonlinear_solve_with_state_b(obj, settings, (x, p), v))
        if err:
            return
        ex.goal('derivative_exists', Holds(True))
        ex.goal('UuGuess_cotangent_is_zero', Eq(U(onp.asarray(out[0], dtype=object)), [0.0, 0.0]))
        if ex.symbolic:
            lam = seen['z']
            w = ex.vec('probe', 2)
            ex.goal('adjoint_operator_is_the_hessian_at_saved_state', Eq(U(onp.asarray(seen['probe'](w), dtype=object)), U(NP.dot(H, w))))
            ex.goal('adjoint_solve_from_zero_with_infinite_radius', Holds(seen['trSize'] == float('inf') and all(float(t) == 0.0 for t in seen['x'])))
        else:
            lam = -onp.linalg.solve(onp.asarray(H, dtype=float), onp.asarray(v_in, dtype=float))
        cts = {2: out[1]} if which == 'design' else {s: out[1][s] for s in SLOTS}
        scale = 1.0 if ex.symbolic else float(onp.max(onp.abs(lam))) * max(float(onp.max(onp.abs(onp.asarray(g, dtype=float)))) for g in G.values()) + 1e-300
        for s, ct in cts.items():
            if s not in present:
                ex.goal('none_slot_gives_none', Holds(ct is None), info='slot %d' % s)
                continue
            ex.goal('present_slot_gives_a_cotangent', Holds(ct is not None), info='slot %d is present (its value may be zero) but its cotangent is None' % s)
            want = NP.dot(lam, G[s])         # lam^T G_k  (= -(H^-1 v)^T dg/dp_k)
            got = onp.asarray(ct, dtype=object).reshape(-1)
            wantf = onp.asarray(want, dtype=object).reshape(-1)
            ok_shape = ((not isinstance(ct, (tuple, list))) and got.size == wantf.size
                        and all(px.is_sym(t) or isinstance(t, (int, float, onp.floating)) for t in got))
            ex.goal('cotangent_shape', Holds(ok_shape), info='slot %d' % s)
            if ok_shape:
                ex.goal('cotangent_is_adjoint_contracted_with_dgdp[slot %d]' % s, Eq(U(got), U(wantf), scale=scale), info='ct_k = lam^T (dg/dp_k), H lam = -v')
    return fn


@obligation(P, 'O1.reverse_rule_contraction_n2', cap=600)
def o1_n2(h):
    """both reverse rules with n=2 unknowns and vector parameters (p0,p1,p2 in R^2, p4 scalar): with lam the adjoint solution
    (H lam = -v; the CG is replaced by that contract), the cotangent of slot k is lam^T (dg/dp_k) — transposition and slot of
    every vjp closure, Hessian operator at the saved state and parameters, zero UuGuess cotangent"""
    _meta(h)
    h.encoded('jaxprs of Objective.hess_vec / vec_jac_xp0,1,2,4 for n=2 (traced per run)')
    h.bounds('n=2; f = x.A x/2 + c x0^2 x1 + sum_k [x.(B_k p_k) + x0 x1 (d_k.p_k)], all coefficients, state, parameters and cotangent symbolic, Hessian at the state SPD; present slots: all, and each one absent')
    h.assume_note('stub (symbolic run only): solve_trust_region_minimization(0, v, H., precond, inf, settings) returns lam with H lam = -v exactly (the CG is C06\'s subject; n=1 runs it for real); '
                  'replay runs the real CG', 'proxy arrays compare with None like JAX arrays do (`a != None` is True), not elementwise like NumPy')
    sets = [(0, 1, 2, 4)] + ([(1, 2, 4), (0, 2, 4), (0, 1, 2), (2,)] if h.thorough() else [(1, 2)])
    for which in ('design', 'state'):
        for k, pr in enumerate(sets):
            if which == 'design' and 2 not in pr:
                continue
            goals = ['derivative_exists', 'UuGuess_cotangent_is_zero', 'adjoint_operator_is_the_hessian_at_saved_state'] + \
                    ['cotangent_is_adjoint_contracted_with_dgdp[slot %d]' % s for s in (pr if which == 'state' else (2,))]
            ok = run_cfg(h, '%s_n2[present=%s]' % (which, ''.join(map(str, pr))), make_contraction_harness(which, pr), goals, report_raise=False)
            if not ok:
                return blocked(h, len(sets) - k - 1)


# ------------------------------------------------------------------------------------------ the adjoint CG's exit contract (inductive step)
def select_cg_loop(fd):
    import ast
    k = [i for i, st_ in enumerate(fd.body) if isinstance(st_, ast.For)][0]
    return fd.body[k], fd.body[:k]


def make_adjoint_cg_step_harness(n, precond_kind):
    """ONE pass through the body of the `for i in range(max_cg_iters)` loop of the real solve_trust_region_minimization in the
    configuration the reverse rules use (start 0, infinite radius), from an ARBITRARY loop-head state satisfying the residual
    invariant r = r0 + H z; the statements before the loop (tolerance, first direction, choice of the inner products) are the
    real ones and run first (px.extract_step)"""
    def fn(ex):
        es = px.load_module('optimism/EquationSolver.py')
        step, src, names = px.extract_step(es, 'solve_trust_region_minimization', select_cg_loop)
        r0 = ex.vec('r0', n)                                  # the cotangent v handed to the adjoint solve
        Hm = ex.mat('H', n, n, symmetric=True)
        hv = lambda w: NP.dot(Hm, w)
        if precond_kind == 'identity':
            precond = lambda w: w
        else:
            Md = ex.vec('M', n)                               # preconditioner = inverse of an arbitrary positive diagonal matrix (n=1: any SPD preconditioner)
            for k in range(n):
                ex.assume(Md[k] > 0)
            precond = lambda w: w / Md
        cg_tol, ratio = ex.real('cg_tol'), ex.real('cg_inexact_solve_ratio')
        ex.assume(cg_tol > 0)
        ex.assume(ratio >= 0)
        ex.assume(ratio < 1)
        ip = bool(ex.bool('use_preconditioned_inner_product_for_cg'))
        settings = es.get_settings(cg_tol=cg_tol, cg_inexact_solve_ratio=ratio, max_cg_iters=3, use_preconditioned_inner_product_for_cg=ip, debug_info=False)
        rr0 = NP.dot(r0, r0)
        tol2 = NP.maximum(cg_tol * cg_tol, ratio * ratio * rr0)     # the tolerance the source states: max(cg_tol^2, ratio^2 |r0|^2), EUCLIDEAN norm of the initial residual
        state = {}

        def havoc(loc):
            state['prefix'] = dict(loc)
            ex.goal('tolerance_is_the_stated_expression', Eq(U(loc['cgTolSquared']), U(tol2)),
                    info='cgTolSquared computed by the real statements before the loop vs max(cg_tol^2, ratio^2 r0.r0)')
            z, d = ex.vec('z', n), ex.vec('d', n)
            r = r0 + hv(z)                                    # Inv: r is the residual of the current iterate (by construction)
            rPr = ex.real('rPr')
            ex.assume(rPr > 0)                                # r.P r of a non-zero residual
            ex.assume(NP.dot(d, hv(d)) > 0)                   # positive curvature along d (SPD Hessian at the solution; the other sign is the known finding)
            state.update(z=z, d=d)
            return dict(z=z, r=r, d=d, rPr=rPr, zz=ex.real('zz'), zd=ex.real('zd'), dd=ex.real('dd'), Pr=precond(r))
        pre = dict(i=0)
        with onp.errstate(all='ignore'):
            kind, val, loc = step(pre, havoc, onp.zeros(n), onp.array(r0, copy=True), hv, precond, float('inf'), settings)
        if 'prefix' not in state:
            # returned before the loop: the zero step with 0 iterations; its residual is r0
            z_, c_, st_, it_ = val
            ex.goal('entry_exit_is_the_zero_step_reported_interior', Holds(st_ == es.interiorString and it_ == 0 and all(float(t) == 0.0 for t in z_)))
            ex.goal('entry_exit_residual_below_stated_tolerance', Lt(U(rr0), U(tol2)))
            return
        if kind == 'return':
            z_, c_, st_, it_ = val
            res = r0 + hv(z_)                                 # the true residual H z + r0 of the returned adjoint vector
            ex.goal('returned_status_is_interior', Holds(st_ == es.interiorString), info='positive curvature, infinite radius: %r' % (st_,))
            ex.goal('converged_exit_means_euclidean_residual_below_tolerance', Lt(U(NP.dot(res, res)), U(tol2)),
                    info='|H z + r0|^2 of the vector returned as converged vs max(cg_tol^2, ratio^2 |r0|^2)')
            ex.goal('converged_exit_tests_the_carried_residual', Eq(U(onp.asarray(loc['r'], dtype=object)), U(res)))
        else:
            ex.goal('continuing_means_euclidean_residual_not_below_tolerance', Le(U(tol2), U(NP.dot(loc['r'], loc['r']))),
                    info='the loop goes on although the residual already meets the tolerance')
            ex.goal('residual_invariant_preserved', Eq(U(onp.asarray(loc['r'], dtype=object)), U(r0 + hv(loc['z']))))
            ex.goal('rPr_refreshed', Eq(U(loc['rPr']), U(NP.dot(loc['r'], precond(loc['r'])))))
    return fn


ADJ_CG_GOALS = ['tolerance_is_the_stated_expression', 'converged_exit_means_euclidean_residual_below_tolerance', 'converged_exit_tests_the_carried_residual',
                'continuing_means_euclidean_residual_not_below_tolerance', 'residual_invariant_preserved', 'entry_exit_residual_below_stated_tolerance']


@obligation(P, 'O1.adjoint_cg_exit_contract', cap=600)
def o1_cg_exit(h):
    """the exit contract the reverse rules rely on: one pass through the real CG loop body of solve_trust_region_minimization
    (infinite radius, either inner-product mode, arbitrary positive diagonal preconditioner) from ANY loop-head state with
    r = r0 + H z: it returns `interior` exactly when the EUCLIDEAN residual |H z + r0|^2 is below max(cg_tol^2, ratio^2 |r0|^2),
    the tolerance is that expression, and the invariant is preserved — by induction every converged adjoint vector meets the
    stated tolerance (the n=1 obligations reach the exact solution in one step and cannot see the stopping test)"""
    _meta(h)
    h.encoded('optimism.EquationSolver:solve_trust_region_minimization (statements before the CG loop + one loop body, extracted by AST from the current source)',
              'optimism.EquationSolver:cg_inner_products_preconditioned', 'optimism.EquationSolver:cg_inner_products_unpreconditioned', 'optimism.EquationSolver:update_step_length_squared')
    h.bounds('n=2 (thorough: also n=1, identity preconditioner): cotangent r0, symmetric H, loop-head iterate z, direction d, rPr, zz, zd, dd: all symbolic; '
             'preconditioner = inverse of a symbolic positive diagonal matrix; cg_tol > 0, 0 <= cg_inexact_solve_ratio < 1 symbolic; '
             'use_preconditioned_inner_product_for_cg: symbolic boolean; trSize = inf')
    h.assume_note('inductive step: the pre-state is any state with r = r0 + H z, rPr > 0, d.H d > 0, reachable or not',
                  'positive curvature along the search direction (SPD Hessian at the solution; negative curvature is the open known finding O1.reverse_rule_negative_curvature)')
    configs = [(2, 'diagonal')] + ([(1, 'diagonal'), (2, 'identity')] if h.thorough() else [])
    for n, pk in configs:
        px.run_px(h, 'cg_step[n=%d,%s preconditioner]' % (n, pk), make_adjoint_cg_step_harness(n, pk), cap=40, div_mode='goal', sqrt_mode='goal', expect_goals=ADJ_CG_GOALS)


# ------------------------------------------------------------------------------------------ the gate: jax.grad through the REAL functions
def real_grad_probe(which, vals):
    """jax.grad through the REAL optimism.inverse.NonlinearSolve functions (real EquationSolver, real WarmStart, real scipy cg;
    only the absent sksparse preconditioner is replaced by the identity) on a tiny concrete problem.
    returns (raised: str|None, value, expected)"""
    import contextlib
    import io
    from optimism.inverse import NonlinearSolve as NS
    from optimism import Objective as O, EquationSolver as ES
    p0, p1, p2, t = [float(vals[k]) for k in ('p0', 'p1', 'p2', 't')]

    def f(x, p):
        return jnp.sum(0.5 * (1.0 + p[2][0] ** 2) * x * x - x * (p[0][0] + 2.0 * p[2][0] + 3.0 * p[1][0] + 4.0 * p[4]))
    par = O.Params(jnp.array([p0]), jnp.array([p1]), jnp.array([p2]), None, t, None)
    x0 = jnp.array([float(vals['x0']), float(vals['x0'])])
    settings = ES.get_settings(debug_info=False)
    load = p0 + 2.0 * p2 + 3.0 * p1 + 4.0 * t
    stiff = 1.0 + p2 * p2
    out = io.StringIO()
    try:
        with contextlib.redirect_stdout(out):
            obj = O.Objective(f, x0, par)
            obj.precond = IdentityPrecond()
            if which == 'nonlinear_solve':
                g = jax.grad(lambda d: jnp.sum(NS.nonlinear_solve(obj, settings, x0, d)))(jnp.array([p2]))
                got = [float(g[0])]
                want = [2.0 * (2.0 * stiff - load * 2.0 * p2) / stiff ** 2]
            else:
                g = jax.grad(lambda q: jnp.sum(NS.nonlinear_solve_with_state(obj, settings, x0, q)))(par)
                got = [float(g[0][0]), float(g[1][0]), float(g[2][0]), float(g[4])]
                want = [2.0 / stiff, 6.0 / stiff, 2.0 * (2.0 * stiff - load * 2.0 * p2) / stiff ** 2, 8.0 / stiff]
    except Exception as e:
        tb = traceback.extract_tb(e.__traceback__)
        site = [fr for fr in tb if 'optimism' in fr.filename]
        where = '%s:%d in %s' % (site[-1].filename.split('optimism/')[-1], site[-1].lineno, site[-1].name) if site else ''
        caller = ''
        for fr in reversed(site[:-1]):
            if fr.filename.endswith('NonlinearSolve.py'):
                caller = ' (called from inverse/NonlinearSolve.py:%d in %s)' % (fr.lineno, fr.name)
                break
        return '%s: %s at %s%s' % (type(e).__name__, e, where, caller), None, None
    return None, got, want


PROBE = dict(p0=0.3, p1=-0.2, p2=0.5, t=0.25, x0=0.1)


@obligation(P, 'O1.reverse_rule', cap=300)
def o1_gate(h):
    """the derivative exists: jax.grad through the REAL nonlinear_solve and nonlinear_solve_with_state (custom_vjp, real
    solvers) on a tiny concrete quadratic problem returns (no exception) the closed-form IFT value — a concrete run of the real
    code, recorded as a directly established violation when it raises"""
    from optimism.inverse import NonlinearSolve as NS
    h.encoded(NS.nonlinear_solve_b, NS.nonlinear_solve_with_state_b, NS.nonlinear_solve_f, NS.nonlinear_solve_with_state_f)
    h.bounds('one concrete problem (n=2, f = sum (1+p2^2) x^2/2 - x (p0 + 2 p2 + 3 p1 + 4 t)); a ground run of the real code, not a quantified claim: '
             'the quantified sign/slot obligations are O1.reverse_rule_ift[*]')
    h.assume_note('sksparse absent: the objective\'s SparseCholesky preconditioner is replaced by the identity for this run')
    for which in ('nonlinear_solve', 'nonlinear_solve_with_state'):
        name = 'derivative_exists[%s]' % which
        qn = '%s/%s' % (h.ob, name)
        if h.replay is not None:
            if h.replay.get('query') == qn:
                raised, got, want = real_grad_probe(which, h.replay['inputs'])
                bad = raised is not None or max(abs(a - b) for a, b in zip(got, want)) > 1e-6
                h.replay_result = dict(status='violated' if bad else 'unreproduced', detail=raised or 'grad = %s, IFT = %s' % (got, want))
            continue
        raised, got, want = real_grad_probe(which, PROBE)
        if raised is not None:
            h.violation(name, dict(PROBE), 'jax.grad through optimism.inverse.NonlinearSolve.%s raises %s' % (which, raised))
        else:
            err = max(abs(a - b) for a, b in zip(got, want))
            if err <= 1e-6:
                h.fact(name, True, 'jax.grad returns %s; closed-form IFT value %s (max abs diff %.2e)' % (got, want, err))
            else:
                h.violation(name, dict(PROBE), 'jax.grad through %s returns %s but the IFT value is %s' % (which, got, want))


# ------------------------------------------------------------------------------------------ O2: adjoint function space
TWO_EL_CONNS = [[1, 2, 0], [3, 0, 2]]      # quadrilateral 0-1-2-3 split along the diagonal 0-2, two different cyclic orders
BOX = 4.0
DET_MIN = 0.02


def _fsmods():
    from optimism import FunctionSpace, Interpolants, QuadratureRule, Mesh
    from optimism.inverse import AdjointFunctionSpace
    return FunctionSpace, Interpolants, QuadratureRule, Mesh, AdjointFunctionSpace


def quad_sampler(rng):
    def one():
        c = rng.uniform(-1.5, 1.5, size=2)
        a0 = rng.uniform(0, 2 * math.pi)
        return onp.array([c + rng.uniform(0.7, 1.5) * onp.array([math.cos(a0 + math.pi * k / 2 + d), math.sin(a0 + math.pi * k / 2 + d)])
                          for k, d in enumerate(rng.uniform(-0.3, 0.3, size=4))])
    return [one(), one()]


def det2(X, ids):
    v = [X[i] for i in ids]
    J = [[v_sub(v[0][0], v[2][0]), v_sub(v[1][0], v[2][0])], [v_sub(v[0][1], v[2][1]), v_sub(v[1][1], v[2][1])]]
    return v_sub(v_mul(J[0][0], J[1][1]), v_mul(J[0][1], J[1][0]))


@obligation(P, 'O2.adjoint_function_space', cap=600)
def o2(h):
    """construct_function_space_for_adjoint(coords, shapeOnRef, mesh, rule, mode) == construct_function_space_from_parent_element(
    mesh_with_coords(mesh, coords), shapeOnRef, rule, mode): shapes, vols, shapeGrads equal entry by entry and the rebuilt mesh
    carries the new coordinates, on a 2-element mesh whose OLD coordinates (inside `mesh`) and NEW coordinates are independent symbols;
    cartesian and axisymmetric"""
    FS, I, QR, M, AFS = _fsmods()
    h.encoded(AFS.construct_function_space_for_adjoint, FS.construct_function_space_from_parent_element, FS.map_element_shape_grads, FS.compute_element_volumes,
              FS.compute_element_volumes_axisymmetric, M.mesh_with_coords)
    h.bounds('4 nodes, elements %s; old and new nodal coordinates: 2 x 8 independent reals in [-%g,%g], det J >= %g on the new coordinates; real P1 tables with triangle rule 2 '
             '(thorough: rules 1, 2, 4 and P2 elements with rule 2)' % (TWO_EL_CONNS, BOX, BOX, DET_MIN))
    h.assume_note('linear solves (jnp.linalg.solve inside map_element_shape_grads) are encoded relationally: fresh g with J^T g = dN on both sides; equality of the two '
                  'solutions is decided by the solver from det J >= %g' % DET_MIN)
    h.outside('larger meshes (both constructors are vmaps of the same element kernels over conns); the helper VJPs of MechanicsInverse vs dense Jacobians '
              '(JAX vjp-vs-jacobian consistency: both sides are JAX autodiff of the same traced function)')
    base1 = M.construct_mesh_from_basic_data(jnp.array([[0., 0.], [1., 0.], [1., 1.], [0., 1.]]), jnp.array(TWO_EL_CONNS), {'block': jnp.arange(2)})
    cases = [(1, 2)] + ([(1, 1), (1, 4), (2, 2)] if h.thorough() else [])
    ex = quad_sampler(onp.random.default_rng(5))
    for order, deg in cases:
        if order == 1:
            base = base1
            lift = lambda X: X
        else:
            base = M.create_higher_order_mesh_from_simplex_mesh(base1, order)
            lift = None        # higher-order nodes follow the 4 free vertices barycentrically (see _ho_lift)
        qr = QR.create_quadrature_rule_on_triangle(deg)
        sh = I.compute_shapes(base.parentElement, qr.xigauss)
        if lift is None:
            lift = _ho_lift(base1, base)
        nq, nn = len(qr), base.conns.shape[1]
        for mode in ('cartesian', 'axisymmetric'):
            def fn(X0, X, base=base, sh=sh, qr=qr, mode=mode, lift=lift):
                mesh0 = M.mesh_with_coords(base, lift(X0))
                Xn = lift(X)
                adj = AFS.construct_function_space_for_adjoint(Xn, sh, mesh0, qr, mode)
                dr = FS.construct_function_space_from_parent_element(M.mesh_with_coords(base, Xn), sh, qr, mode)
                return dict(a_shapes=adj.shapes, a_vols=adj.vols, a_grads=adj.shapeGrads, a_coords=adj.mesh.coords,
                            d_shapes=dr.shapes, d_vols=dr.vols, d_grads=dr.shapeGrads, d_coords=dr.mesh.coords)
            label = 'P%d rule%d %s' % (order, deg, mode)
            c = Case(h, fn, dict(X0=ex[0], X=ex[1]), sampler=quad_sampler, label=label)

            def spec(i, o):
                X = i['X']
                asm = []
                for a in (i['X0'], i['X']):
                    for x in sym.flat(a):
                        asm += [v_le(-BOX, x), v_le(x, BOX)]
                asm += [v_le(DET_MIN, det2(X, conn)) for conn in TWO_EL_CONNS]
                atoms = [Eq(sym.flat(o['a_shapes']), sym.flat(o['d_shapes']), name='shapes_equal'),
                         Eq(sym.flat(o['a_vols']), sym.flat(o['d_vols']), name='vols_equal'),
                         Eq(sym.flat(o['a_coords']), sym.flat(o['d_coords']), name='rebuilt_mesh_carries_new_coordinates')]
                for e in range(2):
                    atoms.append(Eq(sym.flat(o['a_grads'][e]), sym.flat(o['d_grads'][e]), name='shapeGrads_equal[el%d]' % e))
                return asm, atoms
            c.prove('adjoint_vs_direct[%s]' % label, spec, cap=60)
            # structural part (Python objects, no numbers): same connectivity / parent element / rule objects, axisymmetry flag
            Xc = jnp.asarray(lift(jnp.asarray(ex[1])))
            adj = AFS.construct_function_space_for_adjoint(Xc, sh, base, qr, mode)
            dr = FS.construct_function_space_from_parent_element(M.mesh_with_coords(base, Xc), sh, qr, mode)
            same = (adj.mesh.conns is dr.mesh.conns and adj.mesh.parentElement is dr.mesh.parentElement and adj.mesh.parentElement1d is dr.mesh.parentElement1d
                    and adj.mesh.blocks is dr.mesh.blocks and adj.mesh.nodeSets is dr.mesh.nodeSets and adj.mesh.sideSets is dr.mesh.sideSets
                    and adj.mesh.simplexNodesOrdinals is dr.mesh.simplexNodesOrdinals and adj.quadratureRule is dr.quadratureRule and adj.isAxisymmetric == dr.isAxisymmetric
                    and adj.isAxisymmetric == (mode == 'axisymmetric') and type(adj) is type(dr))
            h.fact('same_mesh_topology_rule_and_flag[%s]' % label, bool(same), 'object identity of conns, parent elements, blocks, node/side sets, rule; isAxisymmetric = %s' % adj.isAxisymmetric)


def _ho_lift(base1, base):
    """nodal coordinates of the higher-order mesh as an affine (barycentric) function of the 4 vertex coordinates, read off the real mesh generator
    (ground table: weights w with coords_ho = w @ coords_vertices; exact for the affine elements of this mesh)"""
    c1 = onp.asarray(base1.coords, dtype=float)
    ch = onp.asarray(base.coords, dtype=float)
    # per-element barycentric weights: each higher-order node lies in one of the two triangles
    w = onp.zeros((ch.shape[0], 4))
    conns1 = onp.asarray(base1.conns)
    for n in range(ch.shape[0]):
        done = False
        for tri in conns1:
            T = onp.vstack([c1[tri].T, onp.ones(3)])
            lam = onp.linalg.solve(T, onp.array([ch[n, 0], ch[n, 1], 1.0]))
            if onp.all(lam >= -1e-12):
                w[n, tri] = onp.round(lam * 1e12) / 1e12
                done = True
                break
        assert done
    wj = jnp.asarray(w)
    return lambda X: wj @ X


# ------------------------------------------------------------------------------------------ O3: param_index_update (shared with C19-O3)
obligation(P, 'O3.param_index_update', cap=300)(c19.o3)


# ------------------------------------------------------------------------------------------ O4: helper VJPs of MechanicsInverse (translation validation)
import contextlib
import io
import types

ONE_EL_X = [[0.0, 0.0], [1.0, 0.0], [0.0, 1.0]]
O4_BOX = dict(U=0.1, X=0.05, av=1.0, iv=0.05, dt=(0.1, 1.0))     # region the violation search and the replay stay in (real tensor functions are well defined there)


def _o4mods():
    from optimism import Mechanics, FunctionSpace, Interpolants, QuadratureRule, Mesh
    from optimism.inverse import MechanicsInverse, AdjointFunctionSpace
    return Mechanics, FunctionSpace, Interpolants, QuadratureRule, Mesh, MechanicsInverse, AdjointFunctionSpace


def _quiet():
    return contextlib.redirect_stdout(io.StringIO())


def sur_log(dispGrad, stateOld):
    """surrogate for HyperViscoelastic._compute_elastic_logarithmic_strain: an arbitrary smooth symmetric-tensor function of
    (dispGrad, state) — Green strain of F (2I - Fv): polynomial, so both sides stay in QF_NRA without uninterpreted Jacobians"""
    F = dispGrad + jnp.identity(3)
    Fe = F @ (2.0 * jnp.identity(3) - stateOld.reshape((3, 3)))
    return 0.5 * (Fe.T @ Fe - jnp.identity(3))


def sur_exp(A):
    """surrogate for jax.scipy.linalg.expm: first-order Taylor polynomial (Fv_new = (I + dEv) Fv_old stays bilinear in the increment and the old state)"""
    return jnp.identity(3) + A


def sur_exp2(A):
    """second-order surrogate (thorough tier)"""
    return jnp.identity(3) + A + 0.5 * A @ A


class O4Material:
    """a real material model plus the trace-time stubs under which BOTH sides (helper and reference) are traced"""

    def __init__(self, kind):
        self.kind = kind
        self.skip = {'visco2': ('ivs_update_jac_coords_vjp', 'ivs_update_default_dt_is_zero'), 'j2': ('ivs_update_jac_ivs_prev',)}.get(kind, ())
        if kind in ('visco', 'visco2'):
            from optimism.material import HyperViscoelastic as HV
            self.mod = HV
            with _quiet():
                self.model = HV.create_material_model_functions({'equilibrium bulk modulus': 10.0, 'equilibrium shear modulus': 1.0,
                                                                 'non equilibrium shear modulus': 2.0, 'relaxation time': 0.7})
            self.ns = 9
            self.iv0 = onp.eye(3).reshape(9)
            self.rate_dependent = True
        elif kind == 'j2':
            from optimism.material import J2Plastic as J2
            self.mod = J2
            E = 100.0
            self.model = J2.create_material_model_functions({'elastic modulus': E, 'poisson ratio': 0.321, 'yield strength': 0.003 * E, 'kinematics': 'small deformations',
                                                            'hardening model': 'linear', 'hardening modulus': 1e-2 * E})
            self.ns = 10
            self.iv0 = onp.zeros(10)
            self.rate_dependent = False
        elif kind == 'neo':
            from optimism.material import Neohookean as NH
            self.mod = NH
            self.model = NH.create_material_model_functions({'elastic modulus': 10.0, 'poisson ratio': 0.25, 'version': 'coupled'})
            self.ns = 0
            self.iv0 = onp.zeros(0)
            self.rate_dependent = False
        else:
            raise ValueError(kind)

    def stubs(self):
        from . import c08
        st = contextlib.ExitStack()
        st.enter_context(c08.det_by_closed_form())
        if self.kind in ('visco', 'visco2'):
            st.enter_context(c11_patched(self.mod, _compute_elastic_logarithmic_strain=sur_log,
                                         linalg=types.SimpleNamespace(expm=sur_exp if self.kind == 'visco' else sur_exp2)))
        if self.kind == 'j2':
            st.enter_context(_enable_batched_root_contract().stubbed())
        return st

    STUB_NOTES = {
        'visco': 'HyperViscoelastic traced with _compute_elastic_logarithmic_strain := Green strain of F(2I - Fv) and expm := I + A (polynomial surrogates, on BOTH sides; the real '
                 'dt-dependent _compute_state_increment/_energy_density stay on the path); replay runs the unmodified material',
        'visco2': 'as visco with expm := I + A + A^2/2',
        'j2': 'J2Plastic traced with ScalarRootFind.rtsafe_ replaced by its contract (c09: fresh root, hash-consed on everything the solver depends on, in bracket, |r| <= r_tol) on BOTH sides; '
              'find_root/custom_root and its tangent rule are the real code; replay runs the unmodified material',
        'neo': 'Neohookean (coupled version): log is an uninterpreted function, hash-consed across both sides',
    }


@contextlib.contextmanager
def c11_patched(mod, **kw):
    old = {k: getattr(mod, k) for k in kw}
    try:
        for k, v in kw.items():
            setattr(mod, k, v)
        yield
    finally:
        for k, v in old.items():
            setattr(mod, k, v)


class O4Setup:
    def __init__(self, mat):
        Mech, FS, I, QR, M, MI, AFS = _o4mods()
        self.mat = mat
        self.base = M.construct_mesh_from_basic_data(jnp.array(ONE_EL_X), jnp.array([[0, 1, 2]]), {'block': jnp.arange(1)})
        self.qr = QR.create_quadrature_rule_on_triangle(1)
        self.sh = I.compute_shapes(self.base.parentElement, self.qr.xigauss)

    # -- pieces shared by helper side and reference side constructions (both built from the public API)
    def fs_direct(self, X):
        Mech, FS, I, QR, M, MI, AFS = _o4mods()
        return FS.construct_function_space_from_parent_element(M.mesh_with_coords(self.base, X), self.sh, self.qr)

    def mech(self, X):
        Mech = _o4mods()[0]
        return Mech.create_mechanics_functions(self.fs_direct(X), 'plane strain', self.mat.model)

    def user_energy(self):
        """the energy function users hand to create_*_residual_inverse_functions (pattern of the repository's inverse tests):
        adjoint function space on the given coordinates; q = (prescribed displacement field, dt)"""
        Mech, FS, I, QR, M, MI, AFS = _o4mods()

        def energy(u, q, iv, x):
            afs = AFS.construct_function_space_for_adjoint(x, self.sh, self.base, self.qr)
            mf = Mech.create_mechanics_functions(afs, mode2D='plane strain', materialModel=self.mat.model)
            return mf.compute_strain_energy(u + q[0], iv, q[1])
        return energy

    def ref_residual(self, u, q, iv, x):
        """reference residual: grad_U of the public compute_strain_energy on the function space built directly on the moved mesh"""
        mf = self.mech(x)
        return jax.grad(lambda w: mf.compute_strain_energy(w + q[0], iv, q[1]))(u)

    # -- the (helper, reference) pairs; every function takes the full input list (X, U, iv, av, vx, Ubc, dt)
    def pairs(self):
        Mech, FS, I, QR, M, MI, AFS = _o4mods()
        mat, ns = self.mat, self.mat.ns
        out = {}

        def inv_funcs(X):
            return MI.create_ivs_update_inverse_functions(self.fs_direct(X), 'plane strain', mat.model)

        if ns:
            def jac_ivs_prev(X, U, iv, av, vx, Ubc, dt):
                a = inv_funcs(X).ivs_update_jac_ivs_prev(U, iv, dt)
                J = jax.jacfwd(lambda z: self.mech(X).compute_updated_internal_variables(U, z, dt))(iv)
                return a, J[:, :, :, 0, 0, :]
            out['ivs_update_jac_ivs_prev'] = jac_ivs_prev

            def disp_vjp(X, U, iv, av, vx, Ubc, dt):
                a = inv_funcs(X).ivs_update_jac_disp_vjp(U, iv, av, dt)
                b = jax.vjp(lambda z: self.mech(X).compute_updated_internal_variables(z, iv, dt), U)[1](av)[0]
                return a, b
            out['ivs_update_jac_disp_vjp'] = disp_vjp

            def coords_vjp(X, U, iv, av, vx, Ubc, dt):
                a = inv_funcs(jnp.array(ONE_EL_X)).ivs_update_jac_coords_vjp(U, iv, X, av, dt)      # the helper's own function space holds OTHER coordinates
                b = jax.vjp(lambda z: self.mech(z).compute_updated_internal_variables(U, iv, dt), X)[1](av)[0]
                return a, b
            out['ivs_update_jac_coords_vjp'] = coords_vjp

            def default_dt(X, U, iv, av, vx, Ubc, dt):
                inv = inv_funcs(X)
                mf = self.mech(X)
                a = (inv.ivs_update_jac_disp_vjp(U, iv, av), inv.ivs_update_jac_coords_vjp(U, iv, X, av))
                b = (jax.vjp(lambda z: mf.compute_updated_internal_variables(z, iv, 0.0), U)[1](av)[0],
                     jax.vjp(lambda z: self.mech(z).compute_updated_internal_variables(U, iv, 0.0), X)[1](av)[0])
                if 'ivs_update_jac_ivs_prev' not in mat.skip:
                    J = jax.jacfwd(lambda z: mf.compute_updated_internal_variables(U, z, 0.0))(iv)
                    a, b = a + (inv.ivs_update_jac_ivs_prev(U, iv),), b + (J[:, :, :, 0, 0, :],)
                return a, b
            out['ivs_update_default_dt_is_zero'] = default_dt

            def res_ivs_vjp(X, U, iv, av, vx, Ubc, dt):
                q = (Ubc, dt)
                a = MI.create_path_dependent_residual_inverse_functions(self.user_energy()).residual_jac_ivs_prev_vjp(U, q, iv, X, vx)
                b = jax.vjp(lambda z: self.ref_residual(U, q, z, X), iv)[1](vx)[0]
                return a, b
            out['residual_jac_ivs_prev_vjp'] = res_ivs_vjp

            def res_coords_vjp(X, U, iv, av, vx, Ubc, dt):
                q = (Ubc, dt)
                a = MI.create_path_dependent_residual_inverse_functions(self.user_energy()).residual_jac_coords_vjp(U, q, iv, X, vx)
                b = jax.vjp(lambda z: self.ref_residual(U, q, iv, z), X)[1](vx)[0]
                return a, b
            out['residual_jac_coords_vjp[path dependent]'] = res_coords_vjp
        else:
            def res_coords_vjp0(X, U, iv, av, vx, Ubc, dt):
                q = (Ubc, dt)
                e4 = self.user_energy()
                iv0 = jnp.zeros((1, 1, 0))
                a = MI.create_residual_inverse_functions(lambda u, q_, x: e4(u, q_, iv0, x)).residual_jac_coords_vjp(U, q, X, vx)
                b = jax.vjp(lambda z: self.ref_residual(U, q, iv0, z), X)[1](vx)[0]
                return a, b
            out['residual_jac_coords_vjp'] = res_coords_vjp0
        return {k: v for k, v in out.items() if k not in mat.skip}


O4_NAMES = ('X', 'U', 'iv', 'av', 'vx', 'Ubc', 'dt')


def o4_example(mat, rng):
    ns = mat.ns
    X = onp.asarray(ONE_EL_X) + rng.uniform(-0.8, 0.8, (3, 2)) * O4_BOX['X']
    U = rng.uniform(-0.8, 0.8, (3, 2)) * O4_BOX['U']
    iv = (mat.iv0 + rng.uniform(-0.8, 0.8, ns) * O4_BOX['iv']).reshape(1, 1, ns)
    if mat.kind == 'j2':
        iv = iv.copy()
        iv[0, 0, 0] = abs(iv[0, 0, 0])
    av = rng.uniform(-0.8, 0.8, (1, 1, ns))
    vx = rng.uniform(-0.8, 0.8, (3, 2))
    Ubc = rng.uniform(-0.5, 0.5, (3, 2)) * O4_BOX['U']
    dt = onp.asarray(rng.uniform(0.3, 0.8))
    return [X, U, iv, av, vx, Ubc, dt]


def o4_box(inp, mat):
    cs = []

    def rng_(arr, centre, w):
        for v, c in zip(sym.flat(arr), sym.flat(centre)):
            cs.extend([v_le(float(c) - w, v), v_le(v, float(c) + w)])
    rng_(inp['X'], onp.asarray(ONE_EL_X), O4_BOX['X'])
    rng_(inp['U'], onp.zeros((3, 2)), O4_BOX['U'])
    rng_(inp['Ubc'], onp.zeros((3, 2)), O4_BOX['U'])
    rng_(inp['iv'], mat.iv0, O4_BOX['iv'])
    rng_(inp['av'], onp.zeros(mat.ns), O4_BOX['av'])
    rng_(inp['vx'], onp.zeros((3, 2)), O4_BOX['av'])
    cs += [v_le(O4_BOX['dt'][0], inp['dt'][()]), v_le(inp['dt'][()], O4_BOX['dt'][1])]
    return cs


def cramer_linear_solve(ctx, eqn, iv):
    """custom_linear_solve (what jnp.linalg.solve and its transpose lower to) in closed form for systems that decouple into
    blocks of size <= 2: the operator matrix is read off the matvec jaxpr by applying it to the unit arrays (matvec is linear by
    the contract of custom_linear_solve), its block structure is the connectivity of the non-zero pattern, and each 2 x 2 block is
    solved by Cramer's rule with its determinant recorded as a symbolic denominator (assumed non-zero: the element is not
    degenerate).  jx.do_linear_solve's relational encoding (fresh x with A x = b) gives helper and reference separate unknowns
    whenever their right-hand sides differ syntactically, and proving them equal needs det A != 0 reasoning that z3 does not
    finish; closed forms keep both sides rational functions of the inputs"""
    cl = eqn.params['const_lengths']
    jp = eqn.params['jaxprs']
    nm = cl.matvec
    mv_consts = iv[:nm]
    bs = iv[nm + cl.vecmat + cl.solve + cl.transpose_solve:]
    if len(bs) != 1 or bs[0].size > 12:
        return NotImplemented
    b = bs[0]
    n = b.size
    cols = []
    for j in range(n):
        e = onp.zeros(n)
        e[j] = 1.0
        cols.append(jx.eval_jaxpr(ctx, jp.matvec.jaxpr, jp.matvec.consts, *mv_consts, jx.lift(e.reshape(b.shape)))[0].reshape(-1))
    M = lambda i, j: cols[j][i]
    nz = lambda t: sym.isz(t) or t != 0
    # connected components of the pattern
    comp = list(range(n))

    def find(i):
        while comp[i] != i:
            i = comp[i]
        return i
    for i in range(n):
        for j in range(n):
            if nz(M(i, j)):
                comp[find(i)] = find(j)
    groups = {}
    for i in range(n):
        groups.setdefault(find(i), []).append(i)
    bf = b.reshape(-1)
    out = onp.empty(n, dtype=object)
    div = lambda p, q: (sym.toz(p) / sym.toz(q)) if (sym.isz(p) or sym.isz(q)) else p / q
    for g in groups.values():
        if len(g) == 1:
            i = g[0]
            if sym.isz(M(i, i)):
                ctx.denoms.append((ctx.guard(), M(i, i)))
            out[i] = div(bf[i], M(i, i))
        elif len(g) == 2:
            i, j = g
            a00, a01, a10, a11 = M(i, i), M(i, j), M(j, i), M(j, j)
            det = jx.s_sub(jx.s_mul(a00, a11), jx.s_mul(a01, a10))
            if sym.isz(det):
                ctx.denoms.append((ctx.guard(), det))
            out[i] = div(jx.s_sub(jx.s_mul(a11, bf[i]), jx.s_mul(a01, bf[j])), det)
            out[j] = div(jx.s_sub(jx.s_mul(a00, bf[j]), jx.s_mul(a10, bf[i])), det)
        else:
            return NotImplemented
    return [out.reshape(b.shape)]


def _enable_batched_root_contract():
    """c09's contract primitive of ScalarRootFind.rtsafe_ is scalar; the mechanics functions vmap the material update over the
    (here: one) quadrature point.  Batching rule: bind on operands broadcast to the batch axis; JX side: evaluate per entry."""
    from . import c09
    from jax.interpreters import batching
    if c09.contract_p in batching.primitive_batchers:
        return c09

    def rule(args, dims, site):
        size = [a.shape[d] for a, d in zip(args, dims) if d is not None][0]
        moved = [jnp.moveaxis(a, d, 0) if d is not None else jnp.broadcast_to(a, (size,) + jnp.shape(a)) for a, d in zip(args, dims)]
        return c09.contract_p.bind(*moved, site=site), 0
    batching.primitive_batchers[c09.contract_p] = rule
    return c09


def batched_root_contract(ctx, eqn, iv):
    from . import c09
    x = iv[0]
    if x.shape == ():
        return NotImplemented
    out = onp.empty(x.shape, dtype=object)
    for idx in onp.ndindex(*x.shape):
        out[idx] = c09._contract_eval(ctx, eqn.params, [jx.lift(v[idx]) if v.shape == x.shape else v for v in iv])[()]
    return out


def prove_pair(h, setup, pname, fn, cap=60):
    """translation validation of one helper: helper == reference for ALL inputs (one solver query over every input symbol, the
    deciding step); before it, counterexamples are searched on slices (inputs pinned to seeded sample points, dt and the
    cotangents free in the replay box) and replayed on the UNMODIFIED material: real helper vs real reference"""
    mat = setup.mat
    name = '%s[%s]' % (pname, mat.kind)
    qn = '%s/%s' % (h.ob, name)
    rng = onp.random.default_rng(h.seed + 7)
    example = o4_example(mat, rng)

    def traced(*args):
        with mat.stubs():
            return fn(*args)

    def real_eval(vals):
        args = [jnp.asarray(onp.asarray(vals[k], dtype=float).reshape(onp.shape(e))) for k, e in zip(O4_NAMES, example)]
        a, b = fn(*args)            # no stubs: the unmodified material model, the real helper, the real reference
        la, lb = jax.tree_util.tree_leaves(a), jax.tree_util.tree_leaves(b)
        fa = onp.concatenate([onp.asarray(t, dtype=float).ravel() for t in la])
        fb = onp.concatenate([onp.asarray(t, dtype=float).ravel() for t in lb])
        return fa, fb

    def concrete(vals):
        fa, fb = real_eval(vals)
        sc = float(onp.max(onp.abs(fb))) + float(onp.max(onp.abs(fa))) + 1e-300
        return True, Eq(list(fa), list(fb), scale=sc), dict(helper=fa.tolist()[:12], reference=fb.tolist()[:12])
    if h.replay is not None:
        if h.replay.get('query') == qn:
            h.prove(name, [], Eq([0.0], [0.0]), inputs={}, concrete=concrete)
        return
    ctx = jx.Ctx()
    ctx.hooks['custom_linear_solve'] = cramer_linear_solve
    ctx.hooks['c09_root_contract'] = batched_root_contract
    c = Case(h, traced, dict(zip(O4_NAMES, example)), sampler=lambda r: o4_example(mat, r), label=name, validate=0 if mat.kind == 'j2' else 2, jit=False, ctx=ctx)      # the root-finder contract has no ground evaluation
    a, b = c.out
    fa = [t for l in jax.tree_util.tree_leaves(a) for t in sym.flat(l)]
    fb = [t for l in jax.tree_util.tree_leaves(b) for t in sym.flat(l)]
    assert len(fa) == len(fb) and len(fa) > 0
    atom = Eq(fa, fb, name='helper_equals_reference')
    dt = c.inp['dt'][()]
    base = c.side(denoms=True) + [v_le(0.0, dt)]

    def pins_of(vals, free=()):
        out = []
        for nm, val in zip(O4_NAMES, vals):
            if nm not in free:
                out += [sym.v_eq(v, float(x)) for v, x in zip(sym.flat(c.inp[nm]), onp.asarray(val).ravel())]
        return out
    # vacuity twin: the assumptions (non-zero denominators, dt >= 0) hold at the example point — a ground witness, instant for the solver
    t0 = time.time()
    vac = sym.solve([sym.tob(x) for x in base + pins_of(example)], 20, order=('core', 'nlsat'))[0]
    vac_att = ('vacuity_at_example_point', vac, round(time.time() - t0, 3))

    def finish(rec):
        if rec is not None:
            rec['attempts'].insert(0, vac_att)
            rec['nonvacuous'] = {'sat': True, 'unsat': False}.get(vac)
            if vac == 'unsat':
                rec['status'] = 'vacuous'
        return rec
    # (1) cheap refutation attempts on slices: X, U, iv, Ubc are SUBSTITUTED by seeded sample points (dt and the cotangents stay free
    #     in the replay box), which leaves small queries.  A model found here is a model of the all-input query; it is replayed on the
    #     unmodified code (real helper vs real reference) and only a reproduced difference is recorded.
    free = ('dt', 'av', 'vx')
    for k in range(3):
        pv = o4_example(mat, onp.random.default_rng(h.seed + 100 + k))
        subst = []
        for nm, val in zip(O4_NAMES, pv):
            if nm not in free:
                subst += [(v, sym.rat(float(x))) for v, x in zip(sym.flat(c.inp[nm]), onp.asarray(val).ravel())]
        sub = lambda t: z3.simplify(z3.substitute(sym.toz(t) if not z3.is_bool(t) else t, *subst)) if sym.isz(t) else t
        cons = [sub(sym.tob(x)) for x in base + o4_box(c.inp, mat)]
        diffs = []
        for x, y in zip(fa, fb):
            d = sym.toz(sub(sym.toz(x))) - sym.toz(sub(sym.toz(y)))
            diffs.append(z3.Or(d > sym.rat(1e-5), -d > sym.rat(1e-5)))
        t1 = time.time()
        st2, m2, sv2, _, _ = sym.solve(cons + [z3.Or(*diffs)], 10, order=('core', 'nlsat'))
        if st2 != 'sat':
            continue
        vals = {}
        for nm, val in zip(O4_NAMES, pv):
            if nm in free:
                arr = onp.empty(onp.shape(val), dtype=float)
                af = arr.reshape(-1)
                for i_, v in enumerate(sym.flat(c.inp[nm])):
                    af[i_] = float(sym.model_value(m2, v))
                vals[nm] = arr.tolist()
            else:
                vals[nm] = onp.asarray(val, dtype=float).tolist()
        rr = h._replay(qn, atom, vals, concrete)
        if rr.get('status') == 'violated':
            rec = dict(query=qn, status=None, solver=sv2, time_s=round(time.time() - t0, 3), nonvacuous=True, model=vals,
                       attempts=[vac_att, ('slice%d' % k, 'sat', round(time.time() - t1, 3))],
                       note='counterexample found on slice %d (X, U, iv, Ubc substituted by a seeded sample point; dt and cotangents from the solver model)' % k)
            rec.update(rr)
            h.records.append(rec)
            return rec
    # (2) the deciding query: all inputs free
    z3.set_param('memory_max_size', 6000)        # MB: a model search that explodes ends as `unknown` (inconclusive), not as a killed worker
    return finish(h.prove(name, base, atom, inputs=c.inp, concrete=concrete, cap=cap, order=('nlsat', 'core'), check_vacuity=False))


def _o4_meta(h, mat):
    Mech, FS, I, QR, M, MI, AFS = _o4mods()
    h.encoded(MI.create_ivs_update_inverse_functions, MI.create_path_dependent_residual_inverse_functions, MI.create_residual_inverse_functions,
              MI._compute_field_gradient, MI._compute_element_field_gradient, MI._compute_updated_internal_variables_gradient,
              Mech.create_mechanics_functions, Mech._compute_updated_internal_variables, Mech._compute_strain_energy, mat.model.compute_state_new, mat.model.compute_energy_density)
    h.bounds('ONE P1 element, 1-point rule, plane strain; nodal coordinates X (3x2), displacements U, prescribed field Ubc, internal variables iv (1x1x%d), cotangents av / vx, '
             'time step dt >= 0: ALL symbolic (traced), the query quantifies over every real value (no box); the box |U|<=%g, |X-X0|<=%g, |iv-iv0|<=%g, %g<=dt<=%g only '
             'confines the counterexample search and the replay' % (mat.ns, O4_BOX['U'], O4_BOX['X'], O4_BOX['iv'], O4_BOX['dt'][0], O4_BOX['dt'][1]))
    h.assume_note('translation validation: helper and reference are traced into ONE jaxpr and interpreted in ONE JX context, so uninterpreted applications, havocs and relational linear solves '
                  'are hash-consed across both sides', O4Material.STUB_NOTES[mat.kind],
                  'reference = jax.vjp / jax.jacfwd of the PUBLIC Mechanics functions (compute_updated_internal_variables; grad_U compute_strain_energy) on the function space built by '
                  'construct_function_space_from_parent_element on the moved mesh; the energy handed to the residual helpers follows the repository\'s inverse tests (adjoint function space, q = (Ubc, dt))',
                  'symbolic denominators are assumed non-zero (1 + dt/tau, dt in the viscous dissipation, det J of the element)',
                  'jnp.linalg.det (3x3): its custom JVP (pivoted LU) is replaced at trace time by the derivative of JAX\'s own closed-form primal, on both sides (as in C08)')
    h.outside('meshes with more than one element (the helpers vmap the same element kernels over conns), other quadrature rules, axisymmetric mode and pressure projection (NotImplementedError in the helpers); '
              'accuracy of the real tensor functions (the stubs are arbitrary smooth surrogates: the claim is equality of the two derivative programs for the surrogate material family)')


def _reg_o4(kind, tiers, cap):
    def ob(h):
        mat = O4Material(kind)
        _o4_meta(h, mat)
        setup = O4Setup(mat)
        for pname, fn in setup.pairs().items():
            prove_pair(h, setup, pname, fn)
    ob.__doc__ = ('each helper of inverse/MechanicsInverse.py equals an independently built reference (jax.vjp / jacfwd of the public Mechanics functions) for ALL '
                  'coordinates, displacements, internal variables, cotangents and time steps — material: %s' % kind)
    obligation(P, 'O4.helper_vjps[%s]' % kind, tiers=tiers, cap=cap)(ob)


_reg_o4('visco', ('quick', 'thorough'), 600)
_reg_o4('neo', ('quick', 'thorough'), 600)
_reg_o4('j2', ('quick', 'thorough'), 900)
_reg_o4('visco2', ('thorough',), 900)


DESIGNED_NOT_REGISTERED = [
    ('O4.helper_vjps[j2]/ivs_update_jac_ivs_prev (and its default-dt twin)',
     'unknown @60 s (core and nlsat): helper (jacfwd of compute_state_new per point) and reference (jacfwd of the public update, block extracted) nest vmap(jvp) differently around '
     'custom_root\'s tangent rule; 100 entries, none syntactically shared, 3.5k-node DAG with sqrt side conditions.  The same helper is discharged for the viscoelastic material, '
     'the J2 displacement/coordinate VJPs and both residual VJPs are discharged'),
    ('O4.helper_vjps[visco2]/ivs_update_jac_coords_vjp (second-order expm surrogate)',
     'unknown @600 s: with expm := I + A + A^2/2 the two reverse passes accumulate the cotangent of A in different orders, the outputs are rational functions (det J^2 denominators) of 30 reals '
     'that z3 does not normalise; discharged with the first-order surrogate (quick and thorough), all other helpers also with the second-order one (thorough)'),
    ('real (unstubbed) log_sqrt_symm / expm inside O4', 'their custom JVPs (eigen-decomposition, Pade) under jax.vjp are outside what JX encodes; replaced by polynomial surrogates on both sides; '
     'replays run the unmodified material'),
]
