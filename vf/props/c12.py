"""C12 — 3x3 tensor helpers, Pade cos(acos(x)/3), relative differences and the custom derivative rules of the
symmetric-tensor functions (JX, all reals).  The eigen-solver itself is replaced by its contract (DESIGN.md section 2)."""
import os as _os
if 'intra_op_parallelism_threads' not in _os.environ.get('XLA_FLAGS', ''):
    # obligations run 14 at a time on shared cores: keep every worker's XLA (eager replays, jit compiles) single-threaded
    _os.environ['XLA_FLAGS'] = (_os.environ.get('XLA_FLAGS', '') + ' --xla_cpu_multi_thread_eigen=false intra_op_parallelism_threads=1').strip()
import math
import numpy as onp
import jax
import jax.numpy as jnp
import z3

from ..core import obligation
from ..jxh import Case
from .. import jx, sym
from ..sym import Le, Lt, Eq, Holds, v_min, v_max, v_abs, v_lt, v_le, v_eq, v_and, v_or, v_not, v_sub, v_add, v_mul, v_sq, v_dot, v_sum, v_if

P = 'C12'
import sys as _sys
if hasattr(_sys, 'set_int_max_str_digits'):
    _sys.set_int_max_str_digits(0)      # exact rationals of ground validation runs can have > 4300 digits

NA = ('eigen_sym33_non_unit / eigen_sym33_unit on general symmetric tensors (rational functions of degree ~8 in six variables with a dozen '
      'data-dependent switches): replaced by their contract in O5/O6; the real routine is decided only on the low-dimensional families of O7',
      'pow_symm / _pow_relative_difference ACCURACY near repeated eigenvalues (their real-arithmetic identities are in O4 / O5b.rule_pow)', 'right_polar_decomposition',
      'LinAlg.sqrtm / logm_iss / log_pade_pf and the convergence of sqrtm_dbp (only its one-step rule and the scalar case are decided: O9)',
      'equivalence of a single compiled call and vmap/jit batches (JAX transformation semantics are part of the trusted base; over IEEE values '
      'they are NOT equivalent: jit(vmap(eigen_sym33_unit)) with a batch >= 2 returns non-orthogonal eigenvectors for a numerically double '
      'eigenvalue in general orientation because XLA recomputes a noise-level intermediate — DESIGN 10.3, observations/c12_jit_vmap_double_eigenvalue.py; '
      'no query here can see that)',
      'rounding error of the evaluation (all values are mathematical reals)')


DESIGNED_NOT_REGISTERED = [
    ('O5 monolithic: L S + S L = sym(dC) through the real jvp rule for a general 3-D orthogonal V',
     'unknown @120-150 s in every formulation tried (9 havoc\'d V entries + orthogonality/reconstruction assumptions; unit quaternion; '
     'normalised quaternion; Euler angles; core and nlsat). Replaced by: in-plane rotations monolithically through the real code (O5c) and the '
     'cut-lemma chain O5b.rule_sqrt (structure for ANY V + entries) -> O5d (all rotations, thorough tier).'),
    ('O6 monolithic: sqrt_symm(A)^2 = A with havoc\'d V + contract assumptions', 'unknown @60 s (core, nlsat); same replacement (O6 in-plane + chain O5d/square)'),
    ('O6 rotation equivariance f(Q A Q^T) = Q f(A) Q^T modulo the contract',
     'with two independent contract stubs (for A and Q A Q^T) this is the uniqueness of the spectral matrix function under a change of '
     'eigenbasis inside eigenspaces: 9+9+4 unknowns, not attempted; for the stub pair (lam, Q V) it is immediate from O5b structure.primal_is_V_f_lam_Vt'),
    ('O4 Taylor branch of _relative_log_difference', 'truncation-error bound against log (uninterpreted): needs analytic remainder axioms; function is unused by the library'),
    ('O3 strict monotonicity of the Pade approximant', 'registered in the thorough tier only (27 s alone)'),
    ('O7 family diag(a,a,b) (exactly repeated eigenvalue, 2 parameters; also the 1-parameter lines diag(1,1,t), diag(t,t,1))',
     'unknown @60-200 s monolithically and with cut + pruning: deciding |rr| = 1 needs sqrt(1/d^2) = 1/|d| inside the Pade argument; 11 of 24 branch '
     'conditions stay undecided'),
    ('O7 family diag(a,b,c) (3 parameters; also the line diag(-1,t,1))', 'unknown @120 s: the Pade approximant is evaluated at a symbolic argument, the '
     'tolerance proof needs error propagation through the deflation'),
    ('O7 in-plane block [[a,g,0],[g,b,0],[0,0,c]] with a != b or c != a (3-4 parameters), and g*E + diag(0,0,c)', 'unknown @120-200 s (same reason); '
     'registered instead: a*I + g*E for the three coordinate planes and a*I + g*diag(-1,0,1), all sign patterns, incl. nearly isotropic members'),
    ('O7 end-to-end families with equal in-plane diagonal and a free third entry [[a,g,0],[g,a,0],[0,0,c]], c != a (incl. the lines c = 0, c = 2a)',
     'unknown @60 s even for one normalised parameter: the Pade approximant is evaluated at a symbolic argument (vacuity twin unknown too). The exact-Pade '
     'lines of this family (rr = 0, |rr| = 1, c = a) never have the harmful pivot tie. Registered instead: the deflation stage on these families with '
     'the named local eval2 cut to the exact eigenvalue (O7.eigen_sym33_deflation_on_pivot_ties), all three pivot ties'),
    ('O7 deflation stage, members whose out-of-plane eigenvalue -2d is the extreme one (cases C+/C-)', 'unknown @60 s with and without sqrt hints (the '
     'Wilkinson discriminant is a perfect square the solver does not find within the pruning time-out)'),
    ('O1b derivative of inv: A d(inv A) A = -dA (or d(inv) = -inv dA inv)', 'unknown @15-60 s per entry (rational identity in 18 variables with 1/det and its derivative; one query hangs past its time-out); the hand-written-rule seed on det/adjugate is caught by the det / detpIm1 atoms'),
    ('O7 deflation stage on block-form tensors WITH in-plane shear and isolated out-of-plane extreme eigenvalue [[a,b,0],[b,c,0],[0,0,d]], b != 0 (4 parameters)',
     'unknown @30 s per atom (the Wilkinson discriminant is a genuine irrational; half of the branch conditions stay undecided); registered: b = 0 '
     '(O7.eigen_sym33_deflation_out_of_plane_extreme) and the pivot selection over all row norms (O7.eigen_sym33_pivot_selection)'),
    ('O9 convergence of sqrtm_dbp for non-scalar matrices / contraction factor per sweep', 'needs an invariant over 32 sweeps of a matrix iteration with LU-based '
     'inverse: not attempted; registered: the one-step rule for arbitrary 2x2 pre-states and exact one-sweep convergence for a I'),
    ('O8a with a general (non-eigenframe) V', 'unknown/hang @300 s (degree-7 rational identity in 40 variables); eigenframe registered'),
    ('O8b with both directions symbolic', 'entries [02],[12] unknown @60 s; registered with the second direction over the symmetric basis (linearity)'),
    ('O7 monolithic queries on eigen_sym33_unit without the normalisation cut for 1-parameter families other than s*I', 'erratic (14 s to unknown @120 s '
     'depending on the goal grouping); replaced by the cut-lemma form, which discharges in milliseconds'),
]

def _guard(h):
    """z3 occasionally ignores its own time-out inside check() (seen on mutated trees): every query of this harness gets a watchdog that
    interrupts the z3 context after the query's total budget; the interrupted attempt counts as `unknown` (never as a verdict)"""
    if getattr(h, '_c12_guarded', False):
        return
    import threading
    inner = h.prove

    def prove(name, assumes, atom, **kw):
        budget = kw.get('cap', 60) + kw.get('vac_cap', 20) + 15
        fired = []

        def stop():
            fired.append(1)
            try:
                z3.main_ctx().interrupt()
            except Exception:
                pass
        timers = [threading.Timer(budget * k, stop) for k in (1, 2, 3, 4)]       # margin searches of a sat answer follow the main query
        for t in timers:
            t.daemon = True
            t.start()
        try:
            return inner(name, assumes, atom, **kw)
        finally:
            for t in timers:
                t.cancel()
    h.prove = prove
    h._c12_guarded = True


def TM():
    from optimism import TensorMath
    return TensorMath


def s0(a):
    return a[()] if hasattr(a, 'shape') and a.shape == () else a


def M(a):
    """3x3 (or any 2-D) array-like -> list of lists of scalars (z3 terms or floats)"""
    a = onp.asarray(a) if not isinstance(a, onp.ndarray) else a
    return [[a[i, j] if a.dtype == object else float(a[i, j]) for j in range(a.shape[1])] for i in range(a.shape[0])]


def mm(A, B):
    return [[v_sum([v_mul(A[i][k], B[k][j]) for k in range(len(B))]) for j in range(len(B[0]))] for i in range(len(A))]


def mT(A):
    return [[A[j][i] for j in range(len(A))] for i in range(len(A[0]))]


def madd(A, B):
    return [[v_add(a, b) for a, b in zip(ra, rb)] for ra, rb in zip(A, B)]


def msub(A, B):
    return [[v_sub(a, b) for a, b in zip(ra, rb)] for ra, rb in zip(A, B)]


def mscale(c, A):
    return [[v_mul(c, a) for a in ra] for ra in A]


def msym(A):
    return mscale(0.5, madd(A, mT(A)))


def mdiag(d):
    n = len(d)
    return [[d[i] if i == j else 0.0 for j in range(n)] for i in range(n)]


def eye(n=3):
    return [[1.0 if i == j else 0.0 for j in range(n)] for i in range(n)]


def det3(A):
    return v_sum([v_mul(A[0][0], v_sub(v_mul(A[1][1], A[2][2]), v_mul(A[1][2], A[2][1]))),
                  v_mul(-1.0, v_mul(A[0][1], v_sub(v_mul(A[1][0], A[2][2]), v_mul(A[1][2], A[2][0])))),
                  v_mul(A[0][2], v_sub(v_mul(A[1][0], A[2][1]), v_mul(A[1][1], A[2][0])))])


def fl(A):
    return [x for r in A for x in r]


def rnd33(rng):
    return rng.normal(size=(3, 3))



# ------------------------------------------------------------------------------------------------ local JX extensions
# (each obligation runs in its own process, so these registrations are private to this module's obligations)
_orig_sort = jx.OTHER['sort']
_orig_dynamic_slice = jx.OTHER['dynamic_slice']


def _sort_multi(ctx, eqn, iv):
    """stable sort of several 1-D operands by the first num_keys=1 key (what jnp.argsort lowers to): bubble network,
    swap only on strict 'next < current' so that ties keep their order (is_stable=True)"""
    if len(iv) == 1:
        return _orig_sort(ctx, eqn, iv)
    if eqn.params.get('num_keys', 1) != 1 or any(v.ndim != 1 for v in iv):
        raise jx.JXError('symbolic multi-operand sort only for 1-D operands and one key')
    cols = [list(v) for v in iv]
    n = len(cols[0])
    for i in range(n):
        for j in range(n - 1 - i):
            sw = jx.s_lt(cols[0][j + 1], cols[0][j])
            if getattr(ctx, 'decide', None) is not None:
                sw = ctx.decide(sw)
            for c in cols:
                a, b = c[j], c[j + 1]
                c[j], c[j + 1] = v_if(sw, b, a), v_if(sw, a, b)
    outs = []
    for c in cols:
        o = onp.empty((n,), dtype=object)
        for k, x in enumerate(c):
            o[k] = x
        outs.append(o)
    return outs


def _dynamic_slice_sym(ctx, eqn, iv):
    starts = iv[1:]
    if jx.all_concrete(starts):
        return _orig_dynamic_slice(ctx, eqn, iv)
    a = iv[0]
    sizes = eqn.params['slice_sizes']
    if a.ndim != 1 or tuple(sizes) != (1,):
        raise jx.JXError('symbolic dynamic_slice start only for 1-D operand and slice size 1')
    i0 = starts[0][()]
    n = a.shape[0]
    r = a[n - 1]                    # XLA clamps the start index into [0, n-1]
    for k in range(n - 2, -1, -1):
        r = v_if(sym.toz(i0) <= k, a[k], r) if k == 0 else v_if(sym.toz(i0) == k, a[k], r)
    o = onp.empty((1,), dtype=object)
    o[0] = r
    return o




def _isinf(x):
    return isinstance(x, float) and math.isinf(x)


def _cmp_with_inf(kind):
    """comparisons in which ONE operand is the literal +-inf and the other a (symbolic) real are decided concretely: a real is
    finite (this is what jnp.isclose / jnp.isinf lower to: `abs(x) == inf`). Everything else goes to the shared encoding."""
    base = {'lt': jx.s_lt, 'le': jx.s_le, 'gt': lambda a, b: jx.s_lt(b, a), 'ge': lambda a, b: jx.s_le(b, a),
            'eq': jx.s_eq, 'ne': lambda a, b: jx.s_not(jx.s_eq(a, b))}[kind]

    def f(a, b):
        if (_isinf(a) or _isinf(b)) and (sym.isz(a) or sym.isz(b)):
            fa = a if _isinf(a) else 0.0        # any finite stand-in for the real operand
            fb = b if _isinf(b) else 0.0
            return {'lt': fa < fb, 'le': fa <= fb, 'gt': fa > fb, 'ge': fa >= fb, 'eq': False, 'ne': True}[kind]
        return base(a, b)

    def run(ctx, P, iv):
        dec = getattr(ctx, 'decide', None)
        if dec is None:
            return jx.ew(f, *iv)
        return jx.ew(lambda a, b: dec(f(a, b)), *iv)
    return run


for _k in ('lt', 'le', 'gt', 'ge', 'eq', 'ne'):
    jx.ELEMENTWISE[_k] = _cmp_with_inf(_k)


# ---- branch pruning under stated hypotheses (used by the O7 families only: ctx.decide is absent everywhere else)
class Pruner:
    """decide(c): a comparison c that is IMPLIED (or refuted) by the hypotheses of the case + the definitional side conditions + the
    current branch guards is replaced by the constant, so that selects / conds / abs / max / sign fold while the jaxpr is interpreted.
    Sound for every query that assumes the same hypotheses (they are added to each query of the case). Undecided within the
    per-call time-out = kept symbolic."""

    def __init__(self, ctx, hyps, timeout_ms=150):
        self.ctx, self.hyps, self.n_side, self.keep, self.memo = ctx, list(hyps), 0, [], {}
        self.s = z3.Solver()
        self.s.set('timeout', timeout_ms)
        self.s.add(*[sym.tob(x) for x in hyps])
        self.stats = [0, 0]

    def _implied(self, c):
        self.s.push()
        g = self.ctx.guard()
        if g is not None:
            self.s.add(g)
        self.s.add(z3.Not(c))
        r = self.s.check()
        self.s.pop()
        return r == z3.unsat

    def __call__(self, c):
        if not sym.isz(c):
            return c
        while self.n_side < len(self.ctx.side):
            self.s.add(self.ctx.side[self.n_side])
            self.n_side += 1
        key = (c.get_id(), tuple(x.get_id() for x in self.ctx.guards))
        if key not in self.memo:
            self.keep.append(c)
            self.stats[0] += 1
            v = True if self._implied(c) else (False if self._implied(z3.Not(c)) else None)
            self.stats[1] += v is not None
            self.memo[key] = v
        v = self.memo[key]
        return c if v is None else v


def _pruned(name, fn_sym):
    """abs / sign / max / min with the sign test decided by ctx.decide when present"""
    orig = jx.ELEMENTWISE[name]

    def run(ctx, P, iv):
        dec = getattr(ctx, 'decide', None)
        if dec is None:
            return orig(ctx, P, iv)
        return jx.ew(lambda *a: fn_sym(dec, *a), *iv)
    return run


def _p_abs(dec, a):
    if sym.num(a):
        return abs(a)
    c = dec(a >= 0)
    return (a if c else -a) if isinstance(c, bool) else z3.If(c, a, -a)


def _p_sign(dec, a):
    if sym.num(a):
        return float(onp.sign(a))
    pos, neg = dec(a > 0), dec(a < 0)
    if pos is True:
        return 1.0
    if neg is True:
        return -1.0
    if pos is False and neg is False:
        return 0.0
    return z3.If(sym.tob(pos), z3.RealVal(1), z3.If(sym.tob(neg), z3.RealVal(-1), z3.RealVal(0)))


def _p_max(dec, a, b):
    if sym.num(a) and sym.num(b):
        return max(a, b)
    c = dec(sym.toz(a) >= sym.toz(b))
    return (a if c else b) if isinstance(c, bool) else z3.If(c, sym.toz(a), sym.toz(b))


def _p_min(dec, a, b):
    if sym.num(a) and sym.num(b):
        return min(a, b)
    c = dec(sym.toz(a) <= sym.toz(b))
    return (a if c else b) if isinstance(c, bool) else z3.If(c, sym.toz(a), sym.toz(b))


_orig_div = jx.ELEMENTWISE['div']


def _div_pruned(ctx, P, iv):
    """0 / y -> 0 when the hypotheses imply y != 0 (only in pruning contexts)"""
    dec = getattr(ctx, 'decide', None)
    if dec is None:
        return _orig_div(ctx, P, iv)

    def d(a, b):
        if sym.num(a) and a == 0 and sym.isz(b) and dec(b != 0) is True:
            return 0.0
        return _orig_div(ctx, P, [jx.lift(a), jx.lift(b)])[()]
    return jx.ew(d, *iv)


jx.ELEMENTWISE['div'] = _div_pruned
_orig_sqrt = jx.ELEMENTWISE['sqrt']


def _sqrt_hinted(ctx, P, iv):
    """sqrt(a) -> r for a harness-supplied candidate r when the case hypotheses PROVE r >= 0 and r*r == a (perfect squares such as
    the Wilkinson discriminant on families with rational spectrum); otherwise the usual fresh variable with its definition"""
    hints = getattr(ctx, 'sqrt_hints', None)
    dec = getattr(ctx, 'decide', None)
    if not hints or dec is None:
        return _orig_sqrt(ctx, P, iv)

    def f(a):
        if sym.isz(a):
            for r in hints:
                if dec(z3.And(r >= 0, r * r == a)) is True:
                    return r
        return jx.sym_sqrt(ctx, a)
    return jx.ew(f, iv[0])


jx.ELEMENTWISE['sqrt'] = _sqrt_hinted
jx.ELEMENTWISE['abs'] = _pruned('abs', _p_abs)
jx.ELEMENTWISE['sign'] = _pruned('sign', _p_sign)
jx.ELEMENTWISE['max'] = _pruned('max', _p_max)
jx.ELEMENTWISE['min'] = _pruned('min', _p_min)
_orig_reduce_max = jx.OTHER['reduce_max']


def _reduce_max_pruned(ctx, eqn, iv):
    dec = getattr(ctx, 'decide', None)
    if dec is None:
        return _orig_reduce_max(ctx, eqn, iv)
    return jx._reduce(lambda a, b: _p_max(dec, a, b), None)(ctx, eqn, iv)


jx.OTHER['reduce_max'] = _reduce_max_pruned


_orig_gather = jx.OTHER['gather']


def _gather_sym(ctx, eqn, iv):
    """gather along one axis with a VECTOR of symbolic indices (evals[idx], evecs[:, idx] with idx = argsort): which index element
    an output element depends on is found by probing the real primitive on element ids; the value is an ite chain over the range"""
    operand, idx = iv
    if jx.all_concrete([idx]):
        return _orig_gather(ctx, eqn, iv)
    dn = eqn.params['dimension_numbers']
    if idx.shape[-1] != 1 or len(dn.start_index_map) != 1:
        raise jx.JXError('symbolic gather only along one axis')
    n = operand.shape[dn.start_index_map[0]]
    m = idx.size
    iflat = idx.reshape(-1)
    ids = jx.lift(onp.arange(operand.size).reshape(operand.shape))

    def run(op, k_arr):
        return jx.structural(eqn.primitive, eqn.params, [op, jnp.asarray(onp.asarray(k_arr, dtype=onp.int64).reshape(idx.shape))], which=(0,))
    base = run(ids, onp.zeros(m))
    dep = onp.full(base.shape, -1, dtype=int)
    if n > 1:
        for i in range(m):
            e = onp.zeros(m)
            e[i] = 1
            pr = run(ids, e)
            for pos in onp.ndindex(*base.shape) if base.shape else [()]:
                if pr[pos] != base[pos]:
                    dep[pos] = i
    outs = [run(operand, onp.full(m, k)) for k in range(n)]
    res = onp.empty(base.shape, dtype=object)
    for pos in onp.ndindex(*base.shape) if base.shape else [()]:
        if dep[pos] < 0:
            res[pos] = outs[0][pos]
            continue
        i0 = iflat[dep[pos]]
        r = outs[n - 1][pos]
        for k in range(n - 2, -1, -1):
            r = v_if(jx.s_eq(i0, k), outs[k][pos], r)
        res[pos] = r
    return res


jx.OTHER['gather'] = _gather_sym
jx.OTHER['sort'] = _sort_multi
jx.OTHER['dynamic_slice'] = _dynamic_slice_sym


def fe_axioms(ctx):
    """ground instances of the functional equations of exp / log for the transcendental terms that occur (plus the terms
    exp(t) for every expm1(t) and log(1+t) for every log1p(t), which are created here): expm1(t) = exp(t) - 1,
    log1p(t) = log(1 + t), exp(x) exp(y) = exp(z) when x + y = z, log(x) + log(y) = log(z) when x y = z, x, y > 0."""
    ax = []
    for v, n, a in list(ctx.ufs.values()):
        if n == 'expm1':
            ax.append(v == sym.toz(jx.sym_uf(ctx, 'exp', [a[0]])) - 1)
        if n == 'log1p':
            ax.append(v == sym.toz(jx.sym_uf(ctx, 'log', [1 + a[0]])))
    items = list(ctx.ufs.values())
    for n, comb in (('exp', lambda x, y: x + y), ('log', lambda x, y: x * y)):
        es = [(v, a[0]) for v, nn, a in items if nn == n]
        for i in range(len(es)):
            for j in range(i, len(es)):
                for k in range(len(es)):
                    (vx, axx), (vy, ayy), (vz, azz) = es[i], es[j], es[k]
                    if n == 'exp':
                        # only the instances whose side condition x + y = z is a linear identity (decided by simplify)
                        d = z3.simplify(axx + ayy - azz)
                        if z3.is_rational_value(d) and d.numerator_as_long() == 0:
                            ax.append(vx * vy == vz)
                    else:
                        ax.append(z3.Implies(z3.And(axx > 0, ayy > 0, axx * ayy == azz), vx + vy == vz))
    for v, n, a in items:
        if n == 'exp':
            ax += [v > 0, z3.Implies(a[0] == 0, v == 1)]
        if n == 'log':
            ax += [z3.Implies(a[0] == 1, v == 0)]
    return ax


def pow_axioms(ctx):
    """ground instances of the functional equations of pow(x, e) (x > 0) on the uninterpreted pow terms that occur:
    pow(x, e) pow(y, e) = pow(z, e) when x y = z; pow(x, e) x = pow(x', e') when x = x' and e + 1 = e'; pow(x, e) > 0; pow(1, e) = 1"""
    ax = []
    es = [(v, a[0], a[1]) for v, n, a in ctx.ufs.values() if n == 'pow']
    for v, x, e in es:
        ax += [z3.Implies(x > 0, v > 0), z3.Implies(x == 1, v == 1)]
        if z3.is_rational_value(e) and e.numerator_as_long() == -1 and e.denominator_as_long() == 2:
            ax.append(z3.Implies(x > 0, v * v * x == 1))        # x^(-1/2): the interpreter encodes x^(1/2) as sqrt, this ties the two
    for i in range(len(es)):
        for j in range(len(es)):
            (v1, x1, e1), (v2, x2, e2) = es[i], es[j]
            if i != j:
                ax.append(z3.Implies(z3.And(x1 > 0, x1 == x2, e1 + 1 == e2), v1 * x1 == v2))
            if i <= j:
                for k in range(len(es)):
                    v3, x3, e3 = es[k]
                    ax.append(z3.Implies(z3.And(x1 > 0, x2 > 0, e1 == e2, e2 == e3, x1 * x2 == x3), v1 * v2 == v3))
    return ax


POW_NOTE = ('pow with a non-integer or symbolic exponent is uninterpreted (Ackermannised) with ground instances of x^e y^e = (xy)^e, x^e x = x^(e+1), '
            'x^e > 0, 1^e = 1 for x, y > 0 (instantiated on the terms that occur)')
FE_NOTE = ('exp, expm1, log, log1p are uninterpreted (Ackermannised) with ground instances of: expm1(t)=exp(t)-1, log1p(t)=log(1+t), '
           'exp(x)exp(y)=exp(x+y), log(x)+log(y)=log(xy) for x,y>0, exp>0, exp(0)=1, log(1)=0 (instantiated on the terms that occur)')


# ------------------------------------------------------------------------------------------------ O1
@obligation(P, 'O1.detpIm1', cap=120)
def o1(h):
    """detpIm1(A) = det(A + I) - 1 and det(A) = Leibniz determinant, for all real 3x3 A (polynomial identities, 9 variables)"""
    _guard(h)
    T = TM()
    h.encoded(T.detpIm1, T.trace, T.I2, T.det)
    h.bounds('A: all real 3x3 matrices (9 free reals)')
    h.outside(*NA)
    c = Case(h, lambda A: (T.detpIm1(A), T.det(A)), dict(A=onp.eye(3) * 0.3 + 0.1), sampler=lambda rng: [rnd33(rng)], label='detpIm1')

    def spec(i, o):
        A = M(i['A'])
        return [], [Eq(s0(o[0]), v_sub(det3(madd(A, eye())), 1.0), name='detpIm1_is_det_A_plus_I_minus_1', scale=1.0),
                    Eq(s0(o[1]), det3(A), name='det_is_determinant')]
    c.prove('identity', spec, order=('nlsat', 'core'))


# ------------------------------------------------------------------------------------------------ O2
@obligation(P, 'O2.inv_sym_skw_dev_embed', cap=240)
def o2(h):
    """inv(A) A = A inv(A) = I whenever det A != 0; sym + skw = A with sym symmetric / skw antisymmetric; dev traceless and
    A - dev(A) spherical; tensor_2D_to_3D embeds H in the upper-left block with zeros elsewhere; norm^2 = A:A"""
    _guard(h)
    T = TM()
    h.encoded(T.inv, T.det, T.sym, T.skw, T.deviator, T.dev, T.trace, T.tensor_2D_to_3D, T.norm, T.norm_of_deviator_squared)
    h.bounds('A: all real 3x3 matrices (9 free reals), det A != 0 for inv; H: all real 2x2 matrices')
    h.outside(*NA)
    h.assume_note('inv: det(A) != 0 is the hypothesis (the code divides by det A; z3 division is total, the hypothesis makes it the real division)')
    ex = onp.eye(3) * 0.7 + onp.arange(9).reshape(3, 3) * 0.05
    c = Case(h, lambda A: (T.inv(A), T.det(A)), dict(A=ex), sampler=lambda rng: [rnd33(rng) + 2 * onp.eye(3)], label='inv')

    def spec_inv(i, o):
        A, B, d = M(i['A']), M(o[0]), s0(o[1])
        hyp = v_not(v_eq(d, 0.0))
        sc = 1.0
        return [hyp], [Eq(fl(mm(B, A)), fl(eye()), name='left_inverse', scale=sc),
                       Eq(fl(mm(A, B)), fl(eye()), name='right_inverse', scale=sc)]
    c.prove('inv', spec_inv, order=('nlsat', 'core'), cap=60)

    c2 = Case(h, lambda A: (T.sym(A), T.skw(A), T.deviator(A), T.dev(A), T.trace(A), T.norm_of_deviator_squared(A)), dict(A=ex),
              sampler=lambda rng: [rnd33(rng)], label='sym_skw_dev')

    def spec2(i, o):
        A = M(i['A'])
        Sy, Sk, Dv, Dv2, tr, nd2 = M(o[0]), M(o[1]), M(o[2]), M(o[3]), s0(o[4]), s0(o[5])
        sph = msub(A, Dv)
        return [], [Eq(fl(madd(Sy, Sk)), fl(A), name='sym_plus_skw_is_A'),
                    Eq(fl(Sy), fl(mT(Sy)), name='sym_symmetric'),
                    Eq(fl(Sk), fl(mscale(-1.0, mT(Sk))), name='skw_antisymmetric'),
                    Eq(tr, v_sum([A[0][0], A[1][1], A[2][2]]), name='trace'),
                    Eq(v_sum([Dv[0][0], Dv[1][1], Dv[2][2]]), 0.0, name='dev_traceless'),
                    Eq(fl(sph), fl(mscale(sph[0][0], eye())), name='A_minus_dev_spherical'),
                    Eq(fl(Dv2), fl(Dv), name='dev_alias'),
                    Eq(nd2, v_dot(fl(Dv), fl(Dv)), name='norm_of_deviator_squared')]
    c2.prove('sym_skw_dev', spec2, order=('nlsat', 'core'), cap=60)

    c3 = Case(h, lambda H: T.tensor_2D_to_3D(H), dict(H=onp.array([[0.1, 0.2], [0.3, 0.4]])), sampler=lambda rng: [rng.normal(size=(2, 2))], label='tensor_2D_to_3D')

    def spec3(i, o):
        H, B = M(i['H']), M(o)
        want = [[H[a][b] if a < 2 and b < 2 else 0.0 for b in range(3)] for a in range(3)]
        return [], Eq(fl(B), fl(want), name='embedding')
    c3.prove('tensor_2D_to_3D', spec3, cap=30)

    c4 = Case(h, lambda A: T.norm(A), dict(A=ex), sampler=lambda rng: [rnd33(rng)], label='norm')

    def spec4(i, o):
        A, n = M(i['A']), s0(o)
        return [], [Eq(v_sq(n), v_dot(fl(A), fl(A)), name='norm_squared_is_A_ddot_A'), Le(0.0, n, name='norm_nonnegative')]
    c4.prove('norm', spec4, order=('nlsat', 'core'), cap=60)


# ------------------------------------------------------------------------------------------------ O3
PADE_RESID = 1e-14       # measured max over [0,1] in exact rational arithmetic: 1.0024e-15 (at x ~ 0.97675); 10x margin
PADE_TOP = 5e-16         # p(1) - 1 = 4.7e-17 in exact arithmetic (the rounded coefficients overshoot 1): 10x margin


@obligation(P, 'O3.pade_cos_acos_third', cap=240)
def o3(h):
    """p = cos_of_acos_divided_by_3(x): for every real x in [0,1] (the code calls it with min(|rr|,1)) the cubic
    4p^3 - 3p = x holds to 1e-14 and p is the root in [sqrt(3)/2, 1] (4p^2 >= 3, p > 0, p <= 1 + 5e-16)"""
    _guard(h)
    T = TM()
    h.encoded(T.cos_of_acos_divided_by_3)
    h.bounds('x: all reals in [0, 1] (domain used by eigen_sym33_non_unit: arg = minimum(abs(rr), 1.0))',
             'residual bound 1e-14 = 10x the true maximum 1.0024e-15 of |4p^3-3p-x| over [0,1] (exact rational evaluation of the code)',
             'upper end: p <= 1 + 5e-16 (the binary64 Pade coefficients give p(1) = 1 + 4.7e-17 in exact arithmetic, so p <= 1 is false by that much)')
    h.outside(*NA)
    c = Case(h, lambda x: T.cos_of_acos_divided_by_3(x), dict(x=0.3), sampler=lambda rng: [rng.uniform(0, 1)], label='pade')

    def spec(i, o):
        x, p = s0(i['x']), s0(o)
        cubic = v_sub(v_sub(v_mul(4.0, v_mul(p, v_sq(p))), v_mul(3.0, p)), x)
        return [v_le(0.0, x), v_le(x, 1.0)], [
            Le(v_abs(cubic), PADE_RESID, name='cubic_residual', scale=0.0),
            Le(3.0, v_mul(4.0, v_sq(p)), name='four_p_squared_ge_3', scale=0.0),
            Lt(0.0, p, name='p_positive', scale=0.0),
            Le(p, 1.0 + PADE_TOP, name='p_le_1', scale=0.0)]
    c.prove('range', spec, order=('nlsat', 'core'), cap=60)

    if not h.thorough():
        return
    # ~30 s alone (two variables, degree 11): thorough tier only
    c2 = Case(h, lambda x, y: (T.cos_of_acos_divided_by_3(x), T.cos_of_acos_divided_by_3(y)), dict(x=0.3, y=0.5),
              sampler=lambda rng: [rng.uniform(0, 1), rng.uniform(0, 1)], label='pade_monotone')

    def spec_m(i, o):
        x, y = s0(i['x']), s0(i['y'])
        return [v_le(0.0, x), v_lt(x, y), v_le(y, 1.0)], Lt(s0(o[0]), s0(o[1]), name='strictly_increasing', scale=0.0)
    c2.prove('monotone', spec_m, order=('nlsat',), cap=300)


# ------------------------------------------------------------------------------------------------ O4
POW_EXPONENTS = (0.25, 0.5, 2.0, 3.0, -1.0)


@obligation(P, 'O4.relative_differences', cap=240)
def o4(h):
    """the relative-difference helpers are the divided differences of their scalar functions:
    rd(a,b) (a - b) = f(a) - f(b) for sqrt (exactly, all a,b >= 0 not both 0), exp (all a != b), log (all a != b > 0)"""
    _guard(h)
    T = TM()
    h.encoded(T._sqrt_relative_difference, T._exp_relative_difference, T._log_relative_difference,
              T._relative_log_difference, T._relative_log_difference_no_tolerance_check, T._pow_relative_difference)
    h.bounds('sqrt: all reals a, b >= 0 with a + b > 0; exp: all reals a != b; log: all reals a, b > 0, a != b',
             '_relative_log_difference (not used by the *_symm functions): only its closed-form branch |a-b| > 0.05 min(a,b)')
    h.outside('the Taylor branch of _relative_log_difference (|a-b| <= 0.05 min(a,b)): a truncation-error bound against log, not attempted',
              'accuracy (cancellation) of _pow_relative_difference near a = b: only the real-arithmetic identity is claimed', *NA)
    h.assume_note(FE_NOTE, POW_NOTE)
    h.bounds('pow: all reals a, b > 0, a != b; exponent m in %s and m symbolic (all reals)' % (POW_EXPONENTS,))
    pos2 = lambda rng: [abs(rng.normal()) + 0.1, abs(rng.normal()) + 0.1]

    c = Case(h, lambda a, b: (T._sqrt_relative_difference(a, b), jnp.sqrt(a), jnp.sqrt(b)), dict(a=0.7, b=0.2), sampler=pos2, label='sqrt_rd')

    def spec_sqrt(i, o):
        a, b, rd, sa, sb = s0(i['a']), s0(i['b']), s0(o[0]), s0(o[1]), s0(o[2])
        return [v_le(0.0, a), v_le(0.0, b), v_lt(0.0, v_add(a, b))], [
            Eq(v_mul(rd, v_sub(a, b)), v_sub(sa, sb), name='is_divided_difference'),
            Eq(v_mul(rd, v_add(sa, sb)), 1.0, name='is_reciprocal_of_sum_of_roots'),
            Eq(v_mul(v_mul(2.0, rd), sa), 1.0, when=v_eq(a, b), name='confluent_limit_is_derivative')]
    c.prove('sqrt', spec_sqrt, order=('nlsat', 'core'), denoms=False, cap=60)

    c = Case(h, lambda a, b: (T._exp_relative_difference(a, b), jnp.exp(a), jnp.exp(b)), dict(a=0.7, b=0.2),
             sampler=lambda rng: [rng.normal(), rng.normal()], label='exp_rd')
    c.prove('exp', lambda i, o: ([v_not(v_eq(s0(i['a']), s0(i['b'])))],
                                 Eq(v_mul(s0(o[0]), v_sub(s0(i['a']), s0(i['b']))), v_sub(s0(o[1]), s0(o[2])), name='is_divided_difference')),
            order=('nlsat', 'core'), denoms=False, extra_assumes=fe_axioms(c.ctx), cap=60)

    def spec_log(i, o):
        a, b = s0(i['a']), s0(i['b'])
        return [v_lt(0.0, a), v_lt(0.0, b), v_not(v_eq(a, b))], Eq(v_mul(s0(o[0]), v_sub(a, b)), v_sub(s0(o[1]), s0(o[2])), name='is_divided_difference')
    c = Case(h, lambda a, b: (T._log_relative_difference(a, b), jnp.log(a), jnp.log(b)), dict(a=0.7, b=0.2), sampler=pos2, label='log_rd')
    c.prove('log', spec_log, order=('nlsat', 'core'), denoms=False, extra_assumes=fe_axioms(c.ctx), cap=60)

    c = Case(h, lambda a, b: (T._relative_log_difference_no_tolerance_check(a, b), jnp.log(a), jnp.log(b)), dict(a=0.7, b=0.2), sampler=pos2, label='log_rd_alt')
    c.prove('log_alt_closed_form', spec_log, order=('nlsat', 'core'), denoms=False, extra_assumes=fe_axioms(c.ctx), cap=60)

    def spec_log_large(i, o):
        a, b = s0(i['a']), s0(i['b'])
        return [v_lt(0.0, a), v_lt(0.0, b), v_lt(v_mul(0.05, v_min(a, b)), v_abs(v_sub(a, b)))], \
            Eq(v_mul(s0(o[0]), v_sub(a, b)), v_sub(s0(o[1]), s0(o[2])), name='is_divided_difference')
    c = Case(h, lambda a, b: (T._relative_log_difference(a, b), jnp.log(a), jnp.log(b)), dict(a=0.7, b=0.2), sampler=pos2, label='log_rd_switch')
    c.prove('log_alt_large_difference_branch', spec_log_large, order=('nlsat', 'core'), denoms=False, extra_assumes=fe_axioms(c.ctx), cap=60)

    # pow: rd(a, b, m) (a - b) = a^m - b^m, a, b > 0 distinct
    def spec_pow(i, o):
        a, b = s0(i['a']), s0(i['b'])
        return [v_lt(0.0, a), v_lt(0.0, b), v_not(v_eq(a, b))], Eq(v_mul(s0(o[0]), v_sub(a, b)), v_sub(s0(o[1]), s0(o[2])), name='is_divided_difference')
    for m in POW_EXPONENTS:
        c = Case(h, lambda a, b, m=m: (T._pow_relative_difference(a, b, m), jnp.power(a, m), jnp.power(b, m)), dict(a=0.7, b=0.2), sampler=pos2, label='pow_rd[m=%g]' % m)
        c.prove('pow[m=%g]' % m, spec_pow, order=('nlsat', 'core'), denoms=False, extra_assumes=pow_axioms(c.ctx), cap=60)
    # symbolic exponent (last: a rewritten helper may use primitives without a symbolic model, which must not hide the cases above)
    c = Case(h, lambda a, b, m: (T._pow_relative_difference(a, b, m), jnp.power(a, m), jnp.power(b, m)), dict(a=0.7, b=0.2, m=0.25),
             sampler=lambda rng: pos2(rng) + [rng.uniform(-2, 3)], label='pow_rd[m symbolic]')
    c.prove('pow[m symbolic]', spec_pow, order=('nlsat', 'core'), denoms=False, extra_assumes=pow_axioms(c.ctx), cap=60)


# ------------------------------------------------------------------------------------------------ eigen contract stub
CONTRACT_NOTE = ('TensorMath.eigen_sym33_unit is replaced at trace time (module attribute patched, callers untouched) by a stub that returns '
                 'the harness-supplied pair (lam, V); the pair is quantified over ALL values allowed by the contract stated in the '
                 'obligation (structure lemmas: any lam, any 3x3 V at all; contract lemmas: lam ascending, V orthogonal, '
                 'A = V diag(lam) V^T). The stub values are inputs of the traced function (equivalent to jx.havoc + assume, but '
                 'replayable: a replay runs the same real caller with the same stub values). The eigen-solver itself is not verified.')


class eig_stub:
    """context manager: TensorMath.eigen_sym33_unit := lambda A: (lam, V)"""

    def __init__(self, lam, V):
        self.lam, self.V = lam, V

    def __enter__(self):
        T = TM()
        self.old = T.eigen_sym33_unit
        T.eigen_sym33_unit = lambda A: (self.lam, self.V)

    def __exit__(self, *a):
        TM().eigen_sym33_unit = self.old


def sym6(d):
    return jnp.array([[d[0], d[3], d[5]], [d[3], d[1], d[4]], [d[5], d[4], d[2]]])


def msym6(d):
    return [[d[0], d[3], d[5]], [d[3], d[1], d[4]], [d[5], d[4], d[2]]]


def hmat(lam, hd, ho):
    """Daleckii-Krein coefficient matrix from the diagonal values hd[i] (= f'(lam_i)) and the three off-diagonal values
    ho = (h01, h12, h20), with the confluent switch: lam_j == lam_i -> f'(lam_i)"""
    H = [[None] * 3 for _ in range(3)]
    for i in range(3):
        H[i][i] = hd[i]
    for k, (i, j) in enumerate(((0, 1), (1, 2), (2, 0))):
        H[i][j] = H[j][i] = ho[k]
    return H


def hadamard(A, B):
    return [[v_mul(a, b) for a, b in zip(ra, rb)] for ra, rb in zip(A, B)]


def dk_formula(V, H, D):
    """V (H o (V^T sym(D) V)) V^T"""
    return mm(mm(V, hadamard(H, mm(mm(mT(V), msym(D)), V))), mT(V))


def ascending_sampler(rng, lo=0.2):
    return onp.sort(rng.uniform(lo, 3.0, size=3))


def rnd_orth(rng):
    q, _ = onp.linalg.qr(rng.normal(size=(3, 3)))
    return q


# ------------------------------------------------------------------------------------------------ O5
@obligation(P, 'O5a.jvp_helper_structure', cap=240)
def o5a(h):
    """_symmetric_matrix_function_jvp_helper(func, rd, (C,), (Cdot,)) = V (H o (V^T sym(Cdot) V)) V^T with
    H_ii = func'(lam_i), H_ij = rd(lam_i, lam_j) if lam_j != lam_i else func'(lam_i), for EVERY pair (lam, V) the eigen routine
    may return (no contract needed), every Cdot (9 reals, also non-symmetric) and arbitrary values of func' and rd"""
    _guard(h)
    T = TM()
    h.encoded(T._symmetric_matrix_function_jvp_helper, T.sym)
    h.bounds('lam: all of R^3 (any order, repeated or not); V: all real 3x3 matrices (orthogonal or not); Cdot: all real 3x3 matrices',
             "func'(lam_i) and rd on the three pairs (0,1),(1,2),(2,0): 3 + 3 free reals (func / rd are table look-ups keyed on lam, "
             'so the helper sees arbitrary values, consistent with congruence)')
    h.outside(*NA)
    h.assume_note(CONTRACT_NOTE)

    def build(lam, fv, a, b):
        """a generic scalar function: value fv[i] and derivative a[i] at x == lam[i]; generic symmetric rd by table"""
        @jax.custom_jvp
        def func(x):
            return jnp.where(x == lam[0], fv[0], jnp.where(x == lam[1], fv[1], fv[2]))

        @func.defjvp
        def func_jvp(p, t):
            x, = p
            return func(x), t[0] * jnp.where(x == lam[0], a[0], jnp.where(x == lam[1], a[1], a[2]))

        def rd(x1, x2):
            def is_(i, j):
                return ((x1 == lam[i]) & (x2 == lam[j])) | ((x1 == lam[j]) & (x2 == lam[i]))
            return jnp.where(is_(0, 1), b[0], jnp.where(is_(1, 2), b[1], jnp.where(is_(2, 0), b[2], b[0] + b[1] + b[2] + 1.0)))
        return func, rd

    def fn(lam, V, Cd, fv, a, b):
        func, rd = build(lam, fv, a, b)
        with eig_stub(lam, V):
            sol = T._symmetric_matrix_function_jvp_helper(func, rd, (V @ jnp.diag(lam) @ V.T,), (Cd,))
        df = jax.grad(func)
        hd = jnp.stack([df(lam[0]), df(lam[1]), df(lam[2])])
        # rd is only ever meant to be called with distinct arguments: same guard as the helper uses (value unused when equal)
        rds = lambda x1, x2: rd(x1, jnp.where(x2 == x1, x2 + 1.0, x2))
        ho = jnp.stack([rds(lam[0], lam[1]), rds(lam[1], lam[2]), rds(lam[2], lam[0])])
        return sol, hd, ho

    smp = lambda rng: [onp.sort(rng.normal(size=3)), rnd33(rng), rnd33(rng), rng.normal(size=3), rng.normal(size=3), rng.normal(size=3)]
    c = Case(h, fn, dict(lam=onp.array([0.5, 1.0, 2.0]), V=onp.eye(3) + 0.1, Cd=onp.ones((3, 3)), fv=onp.ones(3), a=onp.ones(3), b=onp.ones(3)),
             sampler=smp, label='helper_generic', jit=False)

    def spec(i, o):
        lam, V, Cd = list(i['lam']), M(i['V']), M(i['Cd'])
        sol, hd, ho = M(o[0]), list(o[1]), list(o[2])
        ho = [v_if(v_eq(lam[j], lam[i_]), hd[i_], ho[k]) for k, (i_, j) in enumerate(((0, 1), (1, 2), (2, 0)))]
        return [], [Eq(fl(sol), fl(dk_formula(V, hmat(lam, hd, ho), Cd)), name='daleckii_krein_form', scale=1.0),
                    Eq(fl(sol), fl(mT(sol)), name='symmetric_output')]
    c.prove('generic', spec, order=('nlsat', 'core'), cap=60)

    # the table entries really are what the helper is given: distinct eigenvalues -> H_ij = b_k, H_ii = a_i
    def spec_tab(i, o):
        lam = list(i['lam'])
        return [v_lt(lam[0], lam[1]), v_lt(lam[1], lam[2])], [Eq(list(o[1]), list(i['a']), name='diag_is_derivative_table'),
                                                              Eq(list(o[2]), list(i['b']), name='offdiag_is_rd_table')]
    c.prove('tables', spec_tab, cap=30)


def _rule_case(h, which, m=None):
    """trace jax.jvp of the real sqrt_symm / exp_symm / log_symm (their custom_jvp rules) twice in one context: with the stub
    (lam, V) and perturbation Cd, and in the eigenframe (lam, I) with the all-ones perturbation (whose tangent is the coefficient
    matrix H itself)"""
    T = TM()
    f_symm = {'sqrt': T.sqrt_symm, 'exp': T.exp_symm, 'log': T.log_symm, 'pow': lambda A: T.pow_symm(A, m)}[which]
    f_sc = {'sqrt': jnp.sqrt, 'exp': jnp.exp, 'log': jnp.log, 'pow': lambda x: jnp.power(x, m)}[which]

    def fn(lam, V, Cd):
        with eig_stub(lam, V):
            S, L = jax.jvp(f_symm, (V @ jnp.diag(lam) @ V.T,), (Cd,))
        with eig_stub(lam, jnp.eye(3)):
            S0, H = jax.jvp(f_symm, (jnp.diag(lam),), (jnp.ones((3, 3)),))
        return S, L, S0, H, f_sc(lam)
    lo = -1.0 if which == 'exp' else 0.2
    smp = lambda rng: [ascending_sampler(rng, lo), rnd_orth(rng), rnd33(rng)]
    return Case(h, fn, dict(lam=onp.array([0.5, 1.0, 2.0]), V=onp.eye(3), Cd=onp.ones((3, 3))), sampler=smp, label='%s_symm_jvp%s' % (which, '' if m is None else '[m=%g]' % m), jit=False)


def _rule_obligation(h, which, m=None):
    T = TM()
    from optimism import Math
    rule = {'sqrt': T._sqrt_symm_jvp, 'exp': T._exp_symm_jvp, 'log': T._log_symm_jvp, 'pow': T._pow_symm_jvp}[which]
    rdf = {'sqrt': T._sqrt_relative_difference, 'exp': T._exp_relative_difference, 'log': T._log_relative_difference, 'pow': T._pow_relative_difference}[which]
    fs = {'sqrt': T.sqrt_symm, 'exp': T.exp_symm, 'log': T.log_symm, 'pow': T.pow_symm}[which]
    h.encoded(fs, rule, rdf, T._symmetric_matrix_function_jvp_helper, T.symmetric_matrix_function, T.sym)
    if which == 'sqrt':
        h.encoded(Math.safe_sqrt, Math.safe_sqrt_jvp)
    h.outside(*NA)
    h.outside('that V (H o (V^T D V)) V^T with H = divided differences IS the Frechet derivative of the matrix function when (lam, V) is an '
              'eigen-decomposition (Daleckii-Krein theorem): mathematics, cited; for sqrt the defining equation L S + S L = sym(dC) is '
              'proved separately (O5c)')
    h.assume_note(CONTRACT_NOTE)
    if which in ('exp', 'log'):
        h.assume_note(FE_NOTE)
    if which == 'pow':
        h.assume_note(POW_NOTE)
    dom = {'sqrt': 'lam_i >= 0 (derivative claims: lam_i > 0; at lam_i = 0 the code returns derivative 0, stated)', 'exp': 'all real lam',
           'log': 'lam_i > 0', 'pow': 'lam_i > 0, exponent m = %s' % m}[which]
    h.bounds('entries (eigenframe): lam ascending, %s, repeated eigenvalues included' % dom,
             'structure: any lam in the domain of f (any order), any real 3x3 V (orthogonal or not), any real 3x3 Cdot')
    c = _rule_case(h, which, m)
    ax = fe_axioms(c.ctx) if which in ('exp', 'log') else pow_axioms(c.ctx) if which == 'pow' else []
    tag = '' if m is None else '[m=%g]' % m

    def spec_entries(i, o):
        lam = list(i['lam'])
        S0, H, f = M(o[2]), M(o[3]), list(o[4])
        asm = [v_le(lam[0], lam[1]), v_le(lam[1], lam[2])]
        if which == 'sqrt':
            asm.append(v_le(0.0, lam[0]))
        if which in ('log', 'pow'):
            asm.append(v_lt(0.0, lam[0]))
        ats = [Eq(fl(S0), fl(mdiag(f)), name='primal_is_diag_f_lam')]
        for k in range(3):
            if which == 'sqrt':
                ats.append(Eq(v_mul(v_mul(2.0, f[k]), H[k][k]), 1.0, when=v_lt(0.0, lam[k]), name='diag%d_is_derivative' % k))
                ats.append(Eq(H[k][k], 0.0, when=v_eq(lam[k], 0.0), name='diag%d_zero_at_zero_eigenvalue' % k))
            elif which == 'exp':
                ats.append(Eq(H[k][k], f[k], name='diag%d_is_derivative' % k))
            elif which == 'pow':
                ats.append(Eq(v_mul(lam[k], H[k][k]), v_mul(m, f[k]), name='diag%d_is_derivative' % k))      # m x^(m-1) = m x^m / x
            else:
                ats.append(Eq(v_mul(lam[k], H[k][k]), 1.0, name='diag%d_is_derivative' % k))
        for a in range(3):
            for b in range(3):
                if which == 'sqrt' and a <= b:
                    # the form used by the chain O5d
                    ats.append(Eq(v_mul(H[a][b], v_add(f[a], f[b])), 1.0, when=v_lt(0.0, lam[0]), name='H%d%d_times_sum_of_roots_is_1' % (a, b)))
                if a != b:
                    ats.append(Eq(v_mul(H[a][b], v_sub(lam[a], lam[b])), v_sub(f[a], f[b]), when=v_not(v_eq(lam[a], lam[b])),
                                  name='offdiag%d%d_is_divided_difference' % (a, b)))
                    ats.append(Eq(H[a][b], H[a][a], when=v_eq(lam[a], lam[b]), name='offdiag%d%d_confluent_is_derivative' % (a, b)))
        return asm, ats
    c.prove('entries' + tag, spec_entries, order=('nlsat', 'core'), denoms=False, extra_assumes=ax, cap=60)

    def spec_struct(i, o):
        lam, V, Cd = list(i['lam']), M(i['V']), M(i['Cd'])
        S, L, H, f = M(o[0]), M(o[1]), M(o[3]), list(o[4])
        # (the identities hold for any lam; the domain of f is assumed only so that a counterexample is replayable in floats)
        dom_asm = {'sqrt': [v_le(0.0, x) for x in lam], 'log': [v_lt(0.0, x) for x in lam], 'exp': [], 'pow': [v_lt(0.0, x) for x in lam]}[which]
        return dom_asm, [Eq(fl(L), fl(dk_formula(V, H, Cd)), name='tangent_is_V_HoW_Vt'),
                    Eq(fl(S), fl(mm(mm(V, mdiag(f)), mT(V))), name='primal_is_V_f_lam_Vt')]
    c.prove('structure' + tag, spec_struct, order=('nlsat', 'core'), denoms=False, cap=60)
    return c


@obligation(P, 'O5b.rule_sqrt', cap=300)
def o5b_sqrt(h):
    """jvp rule of sqrt_symm: tangent = V (H o (V^T sym(dC) V)) V^T for every stub pair (lam, V); H (read off in the eigenframe)
    has H_ii = 1/(2 sqrt lam_i), H_ij = (sqrt lam_i - sqrt lam_j)/(lam_i - lam_j), and H_ij = H_ii when lam_i == lam_j"""
    _guard(h)
    _rule_obligation(h, 'sqrt')


@obligation(P, 'O5b.rule_exp', cap=300)
def o5b_exp(h):
    """jvp rule of exp_symm: as O5b.rule_sqrt with H_ii = exp lam_i, H_ij = (exp lam_i - exp lam_j)/(lam_i - lam_j)"""
    _guard(h)
    _rule_obligation(h, 'exp')


@obligation(P, 'O5b.rule_pow', cap=300)
def o5b_pow(h):
    """jvp rule of pow_symm(A, m): as O5b.rule_sqrt with H_ii = m lam_i^(m-1), H_ij = (lam_i^m - lam_j^m)/(lam_i - lam_j), for the exponents
    m = 0.25 (Seth-Hill), 2 in the quick tier and 0.5, 3, -1 in addition in the thorough tier (real-arithmetic identity only: the accuracy
    of the relative difference near repeated eigenvalues is outside the claim)"""
    _guard(h)
    for m in (POW_EXPONENTS if h.thorough() else (0.25, 2.0)):
        _rule_obligation(h, 'pow', m)


@obligation(P, 'O5b.rule_log', cap=300)
def o5b_log(h):
    """jvp rule of log_symm: as O5b.rule_sqrt with H_ii = 1/lam_i, H_ij = (log lam_i - log lam_j)/(lam_i - lam_j)"""
    _guard(h)
    _rule_obligation(h, 'log')


# ---- the contract instantiated: rotations about a coordinate axis (the block form produced by plane-strain kinematics)
def axis_rot(axis, c, s):
    z, o = 0.0 * c, 0.0 * c + 1.0
    if axis == 2:
        return jnp.array([[c, -s, z], [s, c, z], [z, z, o]])
    if axis == 0:
        return jnp.array([[o, z, z], [z, c, -s], [z, s, c]])
    return jnp.array([[c, z, s], [z, o, z], [-s, z, c]])


def _inplane_case(h, axis, with_jvp=True):
    """C = V diag(r_i^2) V^T with V a rotation about a coordinate axis; the stub returns exactly this decomposition, i.e. a pair
    that satisfies the eigen contract for C whenever c^2 + s^2 = 1 and 0 <= r_0 <= r_1 <= r_2"""
    T = TM()

    def fn(cs, r, d6):
        V = axis_rot(axis, cs[0], cs[1])
        lam = r * r
        C = V @ jnp.diag(lam) @ V.T
        with eig_stub(lam, V):
            if with_jvp:
                S, L = jax.jvp(T.sqrt_symm, (C,), (sym6(d6),))
            else:
                S = T.sqrt_symm(C)
                L = S
        return S, L, C, V

    def smp(rng):
        t = rng.uniform(0, 2 * math.pi)
        return [onp.array([math.cos(t), math.sin(t)]), onp.sort(rng.uniform(0.3, 2.0, size=3)), rng.normal(size=6)]
    # sqrt(r_i * r_i) is r_i itself (hypothesis r_i >= 0 is part of every query): saves the solver three quadratic definitions
    ctx = jx.Ctx()
    ctx.keep_alive = []
    for ri in sym.sym_array('r', (3,)):
        t = ri * ri
        ctx.keep_alive.append(t)        # z3 AST ids are only unique while the AST is alive
        ctx.cache[('sqrt', t.get_id())] = ri
    return Case(h, fn, dict(cs=onp.array([0.6, 0.8]), r=onp.array([0.5, 1.0, 1.5]), d6=onp.ones(6)), sampler=smp, label='sqrt_inplane_axis%d' % axis,
                jit=False, ctx=ctx)


SEED_NOTE = 'in-plane cases: the term sqrt(r_i*r_i) is encoded as r_i (sound under the hypothesis r_i >= 0 of those queries)'
# the four multiplicity patterns of an ascending triple; together they are exactly r_0 <= r_1 <= r_2
PATTERNS = (('distinct', v_lt, v_lt), ('double_low', v_eq, v_lt), ('double_high', v_lt, v_eq), ('triple', v_eq, v_eq))


def v_eq_replay_tol(a, b, tol=1e-9):
    """exact equality for the solver; in a float replay a hypothesis `c^2 + s^2 = 1` can only hold up to rounding"""
    if sym.num(a) and sym.num(b):
        return abs(a - b) <= tol
    return v_eq(a, b)


def _contract_asm(i, pat, strict_pos=True):
    cs, r = list(i['cs']), list(i['r'])
    return [v_eq_replay_tol(v_add(v_sq(cs[0]), v_sq(cs[1])), 1.0), (v_lt if strict_pos else v_le)(0.0, r[0]), pat[1](r[0], r[1]), pat[2](r[1], r[2])]


@obligation(P, 'O5c.sqrt_defining_equation_inplane', cap=300)
def o5c(h):
    """(S, L) = jax.jvp(sqrt_symm)(C, dC) satisfies the defining equation of the Frechet derivative of the square root,
    L S + S L = sym(dC), with the eigen routine replaced by its contract: C = V diag(lam) V^T, lam ascending and > 0 (repeated
    eigenvalues included: exercises the x1 == x2 switch), V any rotation about a coordinate axis, all symmetric dC"""
    _guard(h)
    T = TM()
    from optimism import Math
    h.encoded(T.sqrt_symm, T._sqrt_symm_jvp, T._sqrt_relative_difference, T._symmetric_matrix_function_jvp_helper, T.symmetric_matrix_function,
              T.sym, Math.safe_sqrt, Math.safe_sqrt_jvp)
    h.bounds('V: every rotation about the z axis (quick) and about x, y (thorough) - (c, s) with c^2 + s^2 = 1; lam_i = r_i^2 with '
             '0 < r_0 <= r_1 <= r_2 (all positive spectra, repeated eigenvalues included); dC: all symmetric 3x3 (6 reals)',
             'general 3-D rotations: by the cut-lemma chain O5b.rule_sqrt (structure + entries) -> O5d (thorough tier)')
    h.outside('singular C (lam_0 = 0): sqrt is not differentiable there; the code returns H_00 = 0 (stated in O5b.rule_sqrt)', *NA)
    h.assume_note(CONTRACT_NOTE, SEED_NOTE)
    h.bounds('the hypothesis r_0 <= r_1 <= r_2 is split into its four multiplicity patterns (<,<), (=,<), (<,=), (=,=): one query each')
    for axis in ((2, 0, 1) if h.thorough() else (2,)):
        c = _inplane_case(h, axis)

        for pat in PATTERNS:
            def spec(i, o, pat=pat):
                S, L, D = M(o[0]), M(o[1]), msym6(list(i['d6']))
                return _contract_asm(i, pat), [Eq(fl(madd(mm(L, S), mm(S, L))), fl(D), name='L_S_plus_S_L_is_dC', scale=1.0),
                                               Eq(fl(L), fl(mT(L)), name='tangent_symmetric')]
            c.prove('axis%d.%s' % (axis, pat[0]), spec, order=('core', 'nlsat'), cap=60)


# ------------------------------------------------------------------------------------------------ O6
@obligation(P, 'O6.sqrt_squared', cap=300)
def o6(h):
    """sqrt_symm(C) @ sqrt_symm(C) = C and sqrt_symm(C) symmetric, modulo the eigen contract (as in O5c), singular C included"""
    _guard(h)
    T = TM()
    from optimism import Math
    h.encoded(T.sqrt_symm, T.symmetric_matrix_function, Math.safe_sqrt)
    h.bounds('V: every rotation about the z axis (quick) and about x, y (thorough); lam_i = r_i^2, 0 <= r_0 <= r_1 <= r_2',
             'general 3-D rotations: chain O5b.rule_sqrt/structure.primal_is_V_f_lam_Vt (any V) -> O5d (thorough tier)')
    h.outside(*NA)
    h.assume_note(CONTRACT_NOTE, SEED_NOTE)
    for axis in ((2, 0, 1) if h.thorough() else (2,)):
        c = _inplane_case(h, axis, with_jvp=False)

        for pat in PATTERNS:
            def spec(i, o, pat=pat):
                S, C, V, r = M(o[0]), M(o[2]), M(o[3]), list(i['r'])
                return _contract_asm(i, pat, strict_pos=False), [Eq(fl(mm(S, S)), fl(C), name='S_S_is_C', scale=1.0),
                                                                 Eq(fl(S), fl(mT(S)), name='S_symmetric'),
                                                                 Eq(fl(S), fl(mm(mm(V, mdiag(r)), mT(V))), name='S_is_V_diag_r_Vt')]
            c.prove('axis%d.%s' % (axis, pat[0]), spec, order=('core', 'nlsat'), cap=60)


# ------------------------------------------------------------------------------------------------ O5d (cut-lemma chain)
def quat_R(q):
    """homogeneous quaternion rotation form: R(q)^T R(q) = |q|^4 I identically; R(q)/|q|^2 ranges over all of SO(3)"""
    w, x, y, z = q
    sq = v_sq
    two = lambda a, b, c, d, sg: v_mul(2.0, (v_add if sg > 0 else v_sub)(v_mul(a, b), v_mul(c, d)))
    return [[v_sub(v_add(sq(w), sq(x)), v_add(sq(y), sq(z))), two(x, y, w, z, -1), two(x, z, w, y, +1)],
            [two(x, y, w, z, +1), v_sub(v_add(sq(w), sq(y)), v_add(sq(x), sq(z))), two(y, z, w, x, -1)],
            [two(x, z, w, y, -1), two(y, z, w, x, +1), v_sub(v_add(sq(w), sq(z)), v_add(sq(x), sq(y)))]]


@obligation(P, 'O5d.sqrt_equation_all_rotations_chain', tiers=('thorough',), cap=1200)
def o5d(h):
    """cut-lemma chain for ALL orientations: from the forms proved on the real code for every stub pair (O5b.rule_sqrt):
    L = V (H o (V^T dC V)) V^T, S = V diag(s) V^T, H_ab (s_a + s_b) = 1 (entries, incl. the confluent case 2 s_a H_aa = 1),
    s_a^2 = lam_a - with the definitions of L, S, H dropped - follow L S + S L = dC and S S = V diag(lam) V^T = C for every
    orthogonal V. Stated homogeneously for V = R(q), q in R^4 unconstrained (V^T V = |q|^4 I): L S + S L = |q|^12 dC and
    S S = |q|^4 V diag(s^2) V^T; L is homogeneous of degree 4 and S of degree 2 in V, so dividing by |q|^2 gives the claim for the
    orthogonal matrix +-R(q)/|q|^2 (L and S are even in V)"""
    _guard(h)
    h.encoded('harness algebra over the lemma forms of O5b.rule_sqrt (optimism.TensorMath:_sqrt_symm_jvp, sqrt_symm); no new code is encoded here')
    h.bounds('q: all of R^4 (all rotations; improper orthogonal matrices by evenness in V); s: all of R^3 (no order needed); '
             'H: any symmetric 3x3 with H_ab (s_a + s_b) = 1; dC: all symmetric 3x3')
    h.outside(*NA)
    h.assume_note('lemma forms of O5b.rule_sqrt are used with their definitions dropped (cut-lemma chain, DESIGN.md section 4)')
    q = [z3.Real('q%d' % k) for k in range(4)]
    s = [z3.Real('s%d' % k) for k in range(3)]
    d = [z3.Real('d%d' % k) for k in range(6)]
    hh = [z3.Real('h%d' % k) for k in range(6)]
    t = z3.Real('t')
    Vg = [[z3.Real('V%d%d' % (a, b)) for b in range(3)] for a in range(3)]
    inputs = dict(q=onp.array(q, dtype=object), s=onp.array(s, dtype=object), d=onp.array(d, dtype=object), h=onp.array(hh, dtype=object),
                  t=t, V=onp.array(Vg, dtype=object))

    def forms(V, H, s, D):
        return dk_formula(V, H, D), mm(mm(V, mdiag(s)), mT(V))

    def build(q, s, d, hh, t, Vg):
        D, H = msym6(d), msym6(hh)
        n = v_sum([v_sq(x) for x in q])
        n2 = v_mul(n, n)
        n6 = v_mul(v_mul(n2, n2), n2)
        R = quat_R(q)
        L, S = forms(R, H, s, D)
        X = madd(mm(L, S), mm(S, L))
        asm = [v_eq(v_mul(H[a][b], v_add(s[a], s[b])), 1.0) for a in range(3) for b in range(a, 3)]
        ats = {}
        for a in range(3):
            for b in range(a, 3):
                ats['sylvester[%d%d]' % (a, b)] = (asm, Eq(X[a][b], v_mul(n6, D[a][b]), name='L_S_plus_S_L_is_n6_dC'))
        SS = mm(S, S)
        C = mscale(n2, mm(mm(R, mdiag([v_sq(x) for x in s])), mT(R)))
        ats['square'] = ([], Eq(fl(SS), fl(C), name='S_S_is_n2_V_diag_s2_Vt'))
        ats['gram'] = ([], Eq(fl(mm(mT(R), R)), fl(mscale(n2, eye())), name='Rt_R_is_n2_I'))
        # homogeneity / evenness of the lemma forms in V (generic V)
        Lg, Sg = forms(Vg, H, s, D)
        Lt, St = forms(mscale(t, Vg), H, s, D)
        t2 = v_mul(t, t)
        ats['homogeneous'] = ([], Eq(fl(Lt) + fl(St), fl(mscale(v_mul(t2, t2), Lg)) + fl(mscale(t2, Sg)), name='L_deg4_S_deg2_in_V'))
        return ats

    zat = build(q, s, d, hh, t, Vg)
    for name, (asm, atom) in zat.items():
        def concrete(vals, name=name):
            f = lambda k: [float(x) for x in onp.asarray(vals[k], dtype=float).ravel()]
            Vc = onp.asarray(vals['V'], dtype=float).reshape(3, 3)
            asm_c, atom_c = build(f('q'), f('s'), f('d'), f('h'), float(vals['t']), [[float(Vc[a, b]) for b in range(3)] for a in range(3)])[name]
            return all(bool(x) for x in asm_c), atom_c, 'harness algebra (no code involved)'
        # the core solver needs ~15 s per entry alone but was seen to wander off under heavy machine load: three fresh attempts
        h.prove(name, asm, atom, inputs=inputs, concrete=concrete, cap=360, order=('core', 'core', 'core') if name.startswith('sylvester') else ('nlsat', 'core'))


# ------------------------------------------------------------------------------------------------ O7: the real eigen-solver on families
EIG_TOL = 1e-9
E_PLANE = {'xy': onp.array([[0., 1, 0], [1, 0, 0], [0, 0, 0]]), 'xz': onp.array([[0., 0, 1], [0, 0, 0], [1, 0, 0]]),
           'yz': onp.array([[0., 0, 0], [0, 0, 1], [0, 1, 0]])}
CUT_NOTE = ('cut lemma (DESIGN.md section 4) inside eigen_sym33_unit where stated: the argument cmaxInv*tensor that the real code passes to '
            'eigen_sym33_non_unit is named; the lemma `it equals the normalised family member N` is proved by the solver for all parameters '
            'of the case; the REAL eigen_sym33_non_unit is then interpreted on N (its definition in terms of the parameters dropped). '
            'Replays run the unmodified eigen_sym33_unit.')


def _eig_case(h, label, npar, family, N=None, sampler=None, which='unit', hyp=None, prune_ms=150):
    """trace the REAL eigen_sym33_unit on A = family(p). N(p) (optional): the normalised member; while TRACING the inner call of
    eigen_sym33_non_unit is made on N(p) and its actual argument is returned as an extra output for the lemma."""
    T = TM()

    def fn(p):
        A = family(p)
        seen = []
        real = T.eigen_sym33_non_unit
        tracing = isinstance(p, jax.core.Tracer)

        def wrapper(scaled):
            seen.append(scaled)
            res = real(N(p) if (N is not None and tracing) else scaled)
            seen.append(res[0])
            return res
        T.eigen_sym33_non_unit = wrapper
        try:
            lam, V = (T.eigen_sym33_unit if which == 'unit' else wrapper)(A)
        finally:
            T.eigen_sym33_non_unit = real
        return lam, V, A, seen[0], seen[1]
    ex = sampler(onp.random.default_rng(1))[0]
    ctx = jx.Ctx()
    if hyp is not None:
        ctx.hyps = [sym.tob(x) for x in hyp(list(sym.sym_array('p', (npar,))))]
        ctx.decide = Pruner(ctx, ctx.hyps, timeout_ms=prune_ms)
    cs = Case(h, fn, dict(p=ex), sampler=sampler, label=label, jit=False, ctx=ctx, validate=0)
    try:
        _validate_eig(h, fn, cs.cj, sampler, label)
    except jx.JXError as e:
        # with a cut, the interpreted path runs the inner routine on the normalised member N while the real code runs it on whatever it scaled:
        # a mismatch is a symptom of a broken normalisation, which the lemma queries below decide; recorded, and the queries still run
        h.fact('translator_validation[%s]' % label, False, str(e)[:300], nontrivial=False)
    return cs


def _validate_eig(h, fn, cj, sampler, label, n=3, tol=1e-7):
    """translator validation for eigen outputs on sign- and conditioning-insensitive quantities: lam, A, the normalised tensor, inner
    eigenvalues, V diag(lam) V^T and V^T V (an eigenvector is only defined up to sign, and exact rational arithmetic may take the
    other side of a `sign(0)` / tie switch than binary64 does)"""
    rng = onp.random.default_rng(h.seed)
    worst = 0.0
    for _ in range(n):
        args = [onp.asarray(v, dtype=float) for v in sampler(rng)]
        real = [onp.asarray(x, dtype=float) for x in fn(*[jnp.asarray(a) for a in args])]
        g = jx.Ctx(ground=True)
        outs = jx.eval_jaxpr(g, cj.jaxpr, cj.consts, *[jx.ew(lambda v: sym.rat(v), a) for a in args])

        def num(o):
            r = onp.empty(o.shape, dtype=float)
            for idx in (onp.ndindex(*o.shape) if o.shape else [()]):
                x = o[idx]
                v = jx.ground_num(g, sym.toz(x)) if sym.isz(x) else x
                if v is None:
                    raise jx.JXError('validation: output did not reduce to a numeral')
                r[idx] = float(v)
            return r
        got = [num(o) for o in outs]

        def derived(o):
            lam, V = o[0], o[1]
            return [lam, o[2], o[3], o[4], V @ onp.diag(lam) @ V.T, V.T @ V]
        for a, b in zip(derived(got), derived(real)):
            err = float(onp.abs(a - b).max()) / (1.0 + float(onp.abs(b).max()))
            worst = max(worst, err)
            if not err <= tol:
                raise jx.JXError('translator validation failed (eigen, sign-insensitive quantities): %r vs %r at %s' % (a.tolist(), b.tolist(), [x.tolist() for x in args]))
    h.fact('translator_validation[%s]' % label, True, 'max rel err %.2e on %d ground runs (lam, A, normalised tensor, V diag(lam) V^T, V^T V)' % (worst, n), nontrivial=False)


def _inf_norm(A):
    sc = 0.0
    for i in range(3):
        sc = v_max(sc, v_sum([v_abs(A[i][j]) for j in range(3)]))
    return sc


def _exact_lemma(a, b, name, scale=1.0):
    """an exact rational identity: Eq for the solver; in a float replay the two sides may differ only by rounding (1e-12 relative to the
    magnitudes), not by the 1e-9 the generic Eq atom grants - a normalisation that is off by a relative 1e-10 must reproduce"""
    fa, fb = sym.flat(a), sym.flat(b)
    if any(sym.isz(x) for x in fa + fb) or sym.isz(scale):
        return Eq(a, b, name=name, scale=scale)
    if len(fb) == 1 and len(fa) > 1:
        fb = fb * len(fa)
    ok = all(abs(float(x) - float(y)) <= 1e-12 * (abs(float(scale)) + abs(float(x)) + abs(float(y))) for x, y in zip(fa, fb))
    return Holds(ok, name=name)


def _eig_atoms(i, o, Nspec=None, per_entry=False, normalised=False):
    lam, V, A, scaled = list(o[0]), M(o[1]), M(o[2]), M(o[3])
    sc = _inf_norm(A)
    R = mm(mm(V, mdiag(lam)), mT(V))
    G = mm(mT(V), V)
    ats = []
    if Nspec is not None:
        ats.append(_exact_lemma(fl(scaled), fl(Nspec(list(i['p']))), 'normalised_member_lemma'))
    tol_r = v_mul(EIG_TOL, sc)
    if per_entry:
        # R = V diag(lam) V^T and G = V^T V are symmetric by construction: upper triangles, one query per entry
        ut = [(a, b) for a in range(3) for b in range(a, 3)]
        if normalised and Nspec is not None:
            # reconstruction stated on the normalised tensor (one parameter): with the two lemmas `cmaxInv*A = N` and `lam = |A|_inf * lam_inner`
            # it is the end-to-end statement divided by |A|_inf:  |V diag(lam) V^T - A| = |A|_inf |V diag(lam_inner) V^T - N|
            lin = list(o[4])
            Nn = Nspec(list(i['p']))
            Rn = mm(mm(V, mdiag(lin)), mT(V))
            ats.append(_exact_lemma(lam, [v_mul(sc, x) for x in lin], 'eigenvalues_are_norm_times_inner_lemma', scale=sc))
            ats.append(_exact_lemma(fl(A), fl(mscale(sc, Nn)), 'A_is_norm_times_normalised_member_lemma', scale=sc))
            ats += [Le(v_abs(v_sub(Rn[a][b], Nn[a][b])), EIG_TOL, name='reconstructs_normalised[%d%d]' % (a, b), scale=1.0) for a, b in ut]
        else:
            ats += [Le(v_abs(v_sub(R[a][b], A[a][b])), tol_r, name='reconstructs[%d%d]' % (a, b), scale=sc) for a, b in ut]
        ats += [Le(v_abs(v_sub(G[a][b], 1.0 if a == b else 0.0)), EIG_TOL, name='orthonormal[%d%d]' % (a, b), scale=1.0) for a, b in ut]
    else:
        ats += [Le([v_abs(v_sub(R[a][b], A[a][b])) for a in range(3) for b in range(3)], tol_r, name='reconstructs', scale=sc),
                Le([v_abs(v_sub(G[a][b], 1.0 if a == b else 0.0)) for a in range(3) for b in range(3)], EIG_TOL, name='orthonormal', scale=1.0)]
    ats.append(Holds(v_and(v_le(lam[0], lam[1]), v_le(lam[1], lam[2])), name='ascending'))
    return ats


def _o7_meta(h):
    T = TM()
    from optimism import Math
    h.encoded(T.eigen_sym33_unit, T.eigen_sym33_non_unit, T.cos_of_acos_divided_by_3, Math.safe_sqrt)
    h.outside('eigen_sym33_unit on general symmetric tensors (six free entries): only the listed low-dimensional families are decided',
              'rounding error of the evaluation (all values are mathematical reals; concrete sub-computations are folded in binary64 by the real primitives)')
    h.assume_note(CUT_NOTE, 'no non-zero-denominator assumption is made: a division by zero in the real code is an uninterpreted value for the '
                  'solver, so a proof cannot rely on it')


@obligation(P, 'O7.eigen_sym33_on_families', cap=300)
def o7(h):
    """the REAL eigen_sym33_unit on symbolic low-dimensional families: V diag(lam) V^T reconstructs A within 1e-9 |A|_inf, V^T V = I within
    1e-9, eigenvalues ascending. Families: s*I (all real s); in-plane pure shear g*E in the xy, xz, yz planes (all real g != 0)"""
    _guard(h)
    _o7_meta(h)
    h.bounds('isotropic: A = s*I, every real s (both signs and 0), monolithic (no cut)',
             'pure shear: A = g*(e_i e_j^T + e_j e_i^T) for the planes xy, xz, yz, every real g > 0 and g < 0 (g = 0 is s = 0 above); '
             'with the cut lemma cmaxInv*A == +-E', 'tolerance 1e-9 relative to |A|_inf (reconstruction), 1e-9 absolute (orthonormality)')
    c = _eig_case(h, 'isotropic', 1, lambda p: p[0] * jnp.eye(3), sampler=lambda rng: [rng.normal(size=1)])
    c.prove('isotropic', lambda i, o: ([], _eig_atoms(i, o)), order=('nlsat', 'core'), denoms=False, cap=60)
    for plane, E in E_PLANE.items():
        for sgn, sg in (('g>0', 1.0), ('g<0', -1.0)):
            c = _eig_case(h, 'pure_shear_%s[%s]' % (plane, sgn), 1, lambda p, E=E: p[0] * jnp.asarray(E), N=lambda p, E=E, sg=sg: jnp.asarray(sg * E),
                          sampler=lambda rng, sg=sg: [onp.array([sg * rng.uniform(0.1, 3.0)])])

            def spec(i, o, E=E, sg=sg):
                g = list(i['p'])[0]
                return [v_lt(0.0, v_mul(sg, g))], _eig_atoms(i, o, Nspec=lambda p: [[float(sg * E[a, b]) for b in range(3)] for a in range(3)])
            c.prove('pure_shear_%s[%s]' % (plane, sgn), spec, order=('nlsat', 'core'), denoms=False, cap=60)


def _z3_consts(e, acc, seen):
    if e.get_id() in seen:
        return
    seen.add(e.get_id())
    if z3.is_const(e) and e.decl().kind() == z3.Z3_OP_UNINTERPRETED:
        acc.add(e.get_id())
    for ch in e.children():
        _z3_consts(ch, acc, seen)


def relevant_side(ctx, formulas):
    """cone of influence: a sqrt definition `a >= 0 -> (s >= 0 and s*s = a)` of a fresh s is kept only if s occurs in the query
    (transitively). Dropping the others is sound (fewer assumptions) and complete (each defines its own fresh variable and is
    always satisfiable), and keeps huge irrelevant radicands out of the solver. Other side conditions are always kept."""
    defs, other = [], []
    for c in ctx.all_side():
        s = None
        try:
            if z3.is_implies(c) and z3.is_and(c.arg(1)):
                cand = c.arg(1).arg(0).arg(0)
                if z3.is_const(cand) and str(cand).startswith('sqrt!'):
                    s = cand
        except Exception:
            s = None
        (defs if s is not None else other).append((s, c))
    acc, seen = set(), set()
    for f in list(formulas) + [c for _, c in other]:
        if sym.isz(f):
            _z3_consts(f, acc, seen)
    keep, changed = [], True
    pending = list(defs)
    while changed:
        changed = False
        for item in list(pending):
            s, c = item
            if s.get_id() in acc:
                pending.remove(item)
                keep.append(c)
                _z3_consts(c, acc, seen)
                changed = True
    return [c for _, c in other] + keep


def prove_coi(case, name, spec, cap=60, order=('core', 'nlsat'), max_unknown=None, vac_cap=20):
    """Case.prove with per-atom cone-of-influence filtering of the side conditions and the case's pruning hypotheses added"""
    assumes, atoms = spec(case.inp, case.out)
    hyps = list(getattr(case.ctx, 'hyps', []))
    recs = []
    for k, atom in enumerate(atoms):
        def concrete(vals, k=k):
            ci = case.conc_inputs(vals)
            co = case.real(vals)
            ca, catoms = spec(ci, co)
            ok = all(bool(x) for x in sym.flat(list(ca)))
            return ok, catoms[k], dict(outputs=[onp.asarray(l).tolist() for l in jax.tree_util.tree_leaves(co)][:6])
        goal_terms = [sym.tob(a) for a in assumes if a is not None and not isinstance(a, bool)] + hyps + [atom.neg(0)]
        base = list(assumes) + hyps + relevant_side(case.ctx, goal_terms)
        recs.append(case.h.prove('%s.%s' % (name, atom.name), base, atom, inputs=case.inp, concrete=concrete, cap=cap, order=order, vac_cap=vac_cap))
        # fail fast: these queries take milliseconds on a healthy tree; after max_unknown inconclusive ones the rest of the case is not
        # attempted (the inconclusive records already make the run exit 3 unless a violation is reproduced elsewhere), so that a
        # regression here cannot starve the other obligations of wall time
        if max_unknown is not None and sum(1 for r in recs if r is not None and r.get('status') == 'inconclusive') >= max_unknown:
            case.h.fact('%s.remaining_queries_skipped' % name, False, 'stopped after %d inconclusive queries (%d of %d atoms attempted)' % (max_unknown, k + 1, len(atoms)), nontrivial=False)
            break
    return recs


E_EQUI = onp.diag([-1.0, 0.0, 1.0])
QMIN = 1e-9


def _o7_shifted(h, tag, E, signs, qrange='generic', cap=20):
    """two-parameter family A = a*I + g*E (E a unit pure shear or diag(-1,0,1): |A|_inf = |a| + |g|), one case per sign pattern;
    normalised member N = sa (1-q) I + sg q E with q = |g| / (|a| + |g|)"""
    for sa, sg in signs:
        name = '%s[a%s0,g%s0%s]' % (tag, '>' if sa > 0 else '<', '>' if sg > 0 else '<', '' if qrange == 'generic' else ',tiny_q')

        def hyp(p, sa=sa, sg=sg):
            qb = [v_le(QMIN, p[2])] if qrange == 'generic' else [v_lt(0.0, p[2]), v_le(p[2], QMIN)]
            return [v_lt(0.0, v_mul(sa, p[0])), v_lt(0.0, v_mul(sg, p[1]))] + qb + \
                [v_eq_replay_tol(v_mul(p[2], v_add(v_mul(sa, p[0]), v_mul(sg, p[1]))), v_mul(sg, p[1]))]

        def smp(rng, sa=sa, sg=sg):
            a, g = rng.uniform(0.2, 3), (rng.uniform(0.1, 2) if qrange == 'generic' else rng.uniform(1e-12, 1e-10))
            return [onp.array([sa * a, sg * g, g / (a + g)])]
        c = _eig_case(h, name, 3, lambda p, E=E: p[0] * jnp.eye(3) + p[1] * jnp.asarray(E),
                      N=lambda p, E=E, sa=sa, sg=sg: sa * (1.0 - p[2]) * jnp.eye(3) + sg * p[2] * jnp.asarray(E), sampler=smp, hyp=hyp)

        def Ns(p, E=E, sa=sa, sg=sg):
            return [[v_add(v_mul(v_sub(1.0, p[2]), sa if x == y else 0.0), v_mul(p[2], float(sg * E[x, y]))) for y in range(3)] for x in range(3)]
        recs = prove_coi(c, name, lambda i, o, hyp=hyp, Ns=Ns: (hyp(list(i['p'])), _eig_atoms(i, o, Nspec=Ns, per_entry=True, normalised=True)), cap=cap, max_unknown=2, vac_cap=10)
        if sum(1 for r in recs if r is not None and r.get('status') == 'inconclusive') >= 2:
            break       # the remaining sign patterns of this family would go the same way


SHIFT_BOUNDS = ('shifted families: A = a*I + g*E, a != 0, g != 0, one case per sign pattern of (a, g), q = |g|/(|a|+|g|) >= 1e-9 (q is an extra '
                'input tied to (a, g) by the hypothesis q (|a|+|g|) = |g|); branch conditions implied by the hypotheses are folded while the '
                'jaxpr is interpreted (Pruner); reconstruction is stated on the normalised tensor + two scaling lemmas (see CUT_NOTE)')


@obligation(P, 'O7.eigen_sym33_on_families_shifted_shear', cap=300)
def o7b(h):
    """the REAL eigen_sym33_unit on the two-parameter family a*I + g*E, E the in-plane pure shear (xy; thorough: also xz, yz):
    isotropic part plus pure shear, every a != 0, g != 0 with |g| >= 1e-9 (|a| + |g|)"""
    _guard(h)
    _o7_meta(h)
    h.bounds(SHIFT_BOUNDS, 'tolerances 1e-9 (normalised reconstruction, orthonormality)')
    h.outside('0 < q < 1e-9 (nearly isotropic: the isotropic-fallback switch c2 < c2tol is then undecided)' if not h.thorough() else
              'nearly isotropic members 0 < q <= 1e-9 are a separate case in the thorough tier (xy plane)')
    allsigns = [(1.0, 1.0), (1.0, -1.0), (-1.0, 1.0), (-1.0, -1.0)]
    for plane in (('xy', 'xz', 'yz') if h.thorough() else ('xy',)):
        _o7_shifted(h, 'aI_plus_shear_%s' % plane, E_PLANE[plane], allsigns)


@obligation(P, 'O7.eigen_sym33_on_families_equispaced', cap=300)
def o7c(h):
    """the REAL eigen_sym33_unit on the two-parameter family a*I + g*diag(-1,0,1) (equally spaced eigenvalues: the branch rr = 0 of the
    trigonometric largest-eigenvalue formula), every a != 0, g != 0 with |g| >= 1e-9 (|a| + |g|); and g*diag(-1,0,1) alone"""
    _guard(h)
    _o7_meta(h)
    h.bounds(SHIFT_BOUNDS, 'tolerances 1e-9 (normalised reconstruction, orthonormality)')
    _o7_shifted(h, 'aI_plus_equispaced', E_EQUI, [(1.0, 1.0), (1.0, -1.0), (-1.0, 1.0), (-1.0, -1.0)])
    for sgn, sg in (('g>0', 1.0), ('g<0', -1.0)):
        c = _eig_case(h, 'equispaced[%s]' % sgn, 1, lambda p: p[0] * jnp.asarray(E_EQUI), N=lambda p, sg=sg: jnp.asarray(sg * E_EQUI),
                      sampler=lambda rng, sg=sg: [onp.array([sg * rng.uniform(0.1, 3.0)])])
        c.prove('equispaced[%s]' % sgn, lambda i, o, sg=sg: ([v_lt(0.0, v_mul(sg, list(i['p'])[0]))],
                                                           _eig_atoms(i, o, Nspec=lambda p: [[float(sg * E_EQUI[a, b]) for b in range(3)] for a in range(3)])),
                order=('nlsat', 'core'), denoms=False, cap=60)


@obligation(P, 'O7.eigen_sym33_on_families_nearly_isotropic', cap=600)
def o7d(h):
    """as O7...shifted_shear (xy) for the nearly isotropic members 0 < q <= 1e-9, where the isotropic fallback may or may not be taken"""
    _guard(h)
    _o7_meta(h)
    h.bounds(SHIFT_BOUNDS.replace('>= 1e-9', 'in (0, 1e-9]'))
    _o7_shifted(h, 'aI_plus_shear_xy', E_PLANE['xy'], [(1.0, 1.0), (-1.0, -1.0)], qrange='tiny', cap=30)


# ------------------------------------------------------------------------------------------------ named locals of the real source
class NamedLocals(dict):
    """ctx.hooks object that lets an obligation READ or REPLACE (cut) a named local variable of the traced function: every top-level
    equation of the jaxpr carries the source line it came from (jax source_info); the last equation of the first line
    `name = ...` of the function's source produces that local. Regenerated on every run from the source under VERIF_REPO; a name
    that cannot be located raises (harness error), it is never silently skipped."""

    def __init__(self, cj, fn_real, cut=None, record=()):
        super().__init__()
        from jax._src import source_info_util as siu
        import inspect
        import re
        src_file = inspect.getsourcefile(fn_real)
        lines, first = inspect.getsourcelines(fn_real)
        self.cut, self.values = dict(cut or {}), {}
        want = set(self.cut) | set(record)
        line_of = {}
        for k, text in enumerate(lines):
            m = re.match(r'\s*([A-Za-z_][A-Za-z_0-9]*)\s*=[^=]', text)
            if m and m.group(1) in want and m.group(1) not in line_of:
                line_of[m.group(1)] = first + k
        missing = want - set(line_of)
        if missing:
            raise jx.JXError('named locals not found in the source of %s: %s' % (fn_real.__name__, sorted(missing)))
        last = {}
        for e in cj.jaxpr.eqns:
            fr = siu.user_frame(e.source_info)
            if fr is not None and fr.file_name == src_file:
                last[fr.start_line] = e
        self.target = {}
        for nm, ln in line_of.items():
            if ln not in last:
                raise jx.JXError('no equation of the jaxpr maps to the line of local %s (line %d)' % (nm, ln))
            self.target[id(last[ln])] = nm
        self.busy = False

    def __contains__(self, p):
        return not self.busy

    def __getitem__(self, p):
        return self.hook

    def hook(self, ctx, eqn, iv):
        nm = self.target.get(id(eqn))
        if nm is None:
            return NotImplemented
        self.busy = True
        try:
            out = jx.apply(ctx, eqn, iv)
        finally:
            self.busy = False
        multi = eqn.primitive.multiple_results
        val = out[0] if multi else out
        if nm in self.cut:
            val = jx.lift(self.cut[nm](val))
            out = [val] if multi else val
        self.values[nm] = val
        return out


# ------------------------------------------------------------------------------------------------ O7e: deflation stage on the pivot-tie families
class StageCase:
    """like jxh.Case (same attributes used by prove_coi), but the symbolic evaluation runs with NamedLocals cuts and a Pruner"""

    def __init__(self, h, fn, fn_real_src, npar, sampler, label, hyps, cut, sqrt_hints=()):
        self.h, self.fn, self.label = h, fn, label
        ex = onp.asarray(sampler(onp.random.default_rng(1))[0], dtype=float)
        self.cj = jax.make_jaxpr(fn)(jnp.asarray(ex))
        # eigenvectors of the non-unit routine are defined up to a non-zero factor: validate lam, A and the projectors v v^T / (v.v)
        def insensitive(p_):
            lam_, V_, A_ = fn(p_)
            return lam_, A_, jnp.stack([jnp.outer(V_[:, k], V_[:, k]) / (V_[:, k] @ V_[:, k]) for k in range(3)])
        try:
            worst = jx.validate(insensitive, [ex], n=3, seed=h.seed, sampler=lambda rng: [onp.asarray(v, dtype=float) for v in sampler(rng)], rtol=1e-7)
            h.fact('translator_validation[%s]' % label, True, 'max rel err %.2e on 3 ground runs of the symbolic path (no cut; lam, A, eigen-projectors)' % worst, nontrivial=False)
        except jx.JXError as e:
            # exact-rational and binary64 runs can disagree at a discontinuity of the routine; recorded as a harness error, the queries still run
            h.fact('translator_validation[%s]' % label, False, str(e)[:300], nontrivial=False)
        p = sym.sym_array('p', (npar,))
        self.inp = {'p': p}
        self.ctx = jx.Ctx()
        self.ctx.hyps = [sym.tob(x) for x in hyps(list(p))]
        self.ctx.decide = Pruner(self.ctx, self.ctx.hyps)
        self.ctx.sqrt_hints = list(sqrt_hints)
        self.locals = NamedLocals(self.cj, fn_real_src, cut={k: (lambda out, f=f: f(list(p))) for k, f in cut.items()})
        self.ctx.hooks = self.locals
        self.out = tuple(jx.eval_jaxpr(self.ctx, self.cj.jaxpr, self.cj.consts, p))
        self._jit = jax.jit(fn)
        self.shape = ex.shape

    def conc_inputs(self, vals):
        return {'p': onp.asarray(vals['p'], dtype=float).reshape(self.shape)}

    def real(self, vals):
        return tuple(onp.asarray(x) for x in self._jit(jnp.asarray(onp.asarray(vals['p'], dtype=float).reshape(self.shape))))


PLANE_IDX = {'xy': (0, 1, 2), 'yz': (1, 2, 0), 'xz': (0, 2, 1)}     # (i, j, k): equal diagonal entries i, j; shear (i,j); free entry k
TIE_OF_PLANE = {'xy': 'k0 == k1', 'yz': 'k1 == k2', 'xz': 'k0 == k2'}


def _tie_family(plane):
    i, j, k = PLANE_IDX[plane]

    def fam(p):
        A = jnp.zeros((3, 3))
        return A.at[i, i].set(p[0]).at[j, j].set(p[0]).at[k, k].set(p[2]).at[i, j].set(p[1]).at[j, i].set(p[1])
    return fam


def _third(x):
    """x / 3 exactly (the binary64 constant 1/3 is not one third)"""
    return x / 3.0 if sym.num(x) else x / 3


def _tie_cases():
    """hypothesis cases on (a, g, c): d = (a - c)/3; deviatoric eigenvalues d + g, d - g (in-plane) and -2 d (out of plane).
    Cases: the in-plane eigenvalue d + g is the strictly extreme one, positive (P) or negative (N); the third pivot candidate is
    not larger than the tied pair (1: the tie decides the pivot) or larger (2)."""
    out = {}
    for nm, sgn in (('P', 1.0), ('N', -1.0)):
        for sub in (1, 2, 3):
            def hyps(p, sgn=sgn, sub=sub):
                a, g, c = p
                d = _third(v_sub(a, c))
                c1 = _third(v_add(v_mul(2.0, a), c))
                e = v_mul(sgn, v_add(d, g))
                o1, o2 = v_sub(d, g), v_mul(-2.0, d)
                third, tied = v_sq(v_sub(v_sub(c, a), g)), v_mul(2.0, v_sq(g))
                rel = {1: v_lt(third, tied), 2: v_lt(tied, third), 3: v_eq(third, tied)}[sub]
                return [v_lt(v_mul(1e-30, v_sq(c1)), v_add(v_mul(3.0, v_sq(d)), v_sq(g))), v_lt(0.0, e),
                        v_lt(o1, e), v_lt(v_mul(-1.0, o1), e), v_lt(o2, e), v_lt(v_mul(-1.0, o2), e), rel]
            out['%s%d' % (nm, sub)] = hyps
    return out


def _o7_tie(h, plane, cases):
    T = TM()
    fam = _tie_family(plane)
    fn = lambda p: T.eigen_sym33_non_unit(fam(p)) + (fam(p),)
    allc = _tie_cases()

    def smp_for(cname):
        def smp(rng):
            for _ in range(10000):
                p = rng.uniform(-2, 2, size=3)
                if all(bool(x) for x in allc[cname]([float(v) for v in p])):
                    return [p]
            raise RuntimeError('no sample for case %s' % cname)
        return smp
    for cname in cases:
        hyps = allc[cname]
        estar = lambda p: v_add(_third(v_sub(p[0], p[2])), p[1])
        name = 'tie_%s[%s]' % (plane, cname)
        c = StageCase(h, fn, T.eigen_sym33_non_unit, 3, smp_for(cname), name, hyps, cut={'eval2': estar})

        def spec(i, o, hyps=hyps):
            lam, V, A = list(o[0]), M(o[1]), M(o[2])
            sc = _inf_norm(A)
            AV, VL, G = mm(A, V), mm(V, mdiag(lam)), mm(mT(V), V)
            nrm = [G[0][0], G[1][1], G[2][2]]
            if sym.isz(nrm[0]) or sym.isz(sc):
                nonzero_atom = Lt(0.0, nrm, name='eigenvectors_nonzero', scale=0.0)
            else:
                # float replay: `non-zero` must not be satisfied by rounding noise. In exact arithmetic a zero vector satisfies the eigen-equation
                # trivially; in binary64 the same defect shows as a finite but wrong pair, so the replay evaluates the conjunction of this atom
                # with the (separately proved) eigen-equation: |A v - lam v|_inf <= 1e-9 |A|_inf |v|_inf for every returned pair
                ok = True
                for y in range(3):
                    vmax = max(abs(V[x][y]) for x in range(3))
                    res = max(abs(AV[x][y] - VL[x][y]) for x in range(3))
                    ok = ok and vmax > 0.0 and res <= 1e-9 * sc * vmax
                nonzero_atom = Holds(ok, name='eigenvectors_nonzero')
            return hyps(list(i['p'])), [Eq(AV[x][y], VL[x][y], name='eigen_equation_A_V_is_V_lam[%d%d]' % (x, y), scale=sc) for x in range(3) for y in range(3)] + [
                Eq([G[0][1], G[0][2], G[1][2]], 0.0, name='eigenvectors_orthogonal', scale=1.0),
                nonzero_atom,
                Holds(v_and(v_le(lam[0], lam[1]), v_le(lam[1], lam[2])), name='ascending')]
        prove_coi(c, name, spec, cap=60)


@obligation(P, 'O7.eigen_sym33_deflation_on_pivot_ties', cap=1500)
def o7e(h):
    """the deflation stage of the REAL eigen_sym33_non_unit (column-pivoted QR, Wilkinson shift, eigenvector assembly, sorting) on the
    three-parameter families with EQUAL in-plane diagonal [[a,g,0],[g,a,0],[0,0,c]] and its two coordinate permutations, on which two
    rows of (C - eval2 I) have exactly equal norm whatever eval2 is (pivot ties k0 == k1, k1 == k2, k0 == k2): the returned pairs
    satisfy A v_i = lam_i v_i exactly, v_i non-zero and mutually orthogonal, lam ascending"""
    _guard(h)
    _o7_meta(h)
    h.encoded('named local eval2 of eigen_sym33_non_unit is cut (see assumptions)')
    h.bounds('a, g, c: all reals with the in-plane deviatoric eigenvalue d + g (d = (a-c)/3) strictly extreme in magnitude (positive: P, negative: N), not '
             'nearly isotropic (3 d^2 + g^2 > 1e-30 c1^2, the code\'s own fallback threshold); sub-case 1: (c-a-g)^2 < 2 g^2, i.e. the third pivot '
             'candidate is smaller than the tied pair, so the TIE decides the pivot; sub-case 2: it is larger (the measure-zero surface where all three are equal is not covered)',
             'quick: plane xy (tie k0 == k1), cases P1 N1 P2 N2; thorough: also yz (k1 == k2) and xz (k0 == k2)')
    h.outside('members whose out-of-plane eigenvalue -2d is the extreme one (cases C: unknown @60 s, see DESIGNED_NOT_REGISTERED)',
              'the accuracy of eval2 itself (Pade + trigonometric formula): cut')
    h.assume_note('cut with an ASSUMED lemma: the named local eval2 (largest-magnitude deviatoric eigenvalue from the Pade/trigonometric formula) is '
                  'replaced by the exact eigenvalue d + g of the family; the real value differs from it by ~1e-15 relative (O3 bounds the Pade residual), '
                  'which is outside this obligation. Replays run the unmodified eigen_sym33_non_unit.',
                  'branch conditions implied by the case hypotheses are folded during interpretation (Pruner); sqrt definitions filtered by cone of influence')
    for plane in (('xy', 'yz', 'xz') if h.thorough() else ('xy',)):
        _o7_tie(h, plane, ('P1', 'N1', 'P2', 'N2'))


# ------------------------------------------------------------------------------------------------ O8: second-order rules
PERT_NOTE = ('second-order obligations with the eigen stub: the stub (lam, V) carries, as a jax.custom_jvp, the standard first-order perturbation '
             'contract of a symmetric eigen-decomposition with DISTINCT eigenvalues: dlam_i = (V^T sym(dC) V)_ii, dV = V Omega, '
             'Omega_ij = (V^T sym(dC) V)_ij / (lam_j - lam_i) (i != j), Omega_ii = 0. This is what differentiating the real eigen-solver must '
             'deliver at distinct eigenvalues; it is assumed, not verified. Nothing is claimed here at repeated eigenvalues.')


def _pert_stub():
    @jax.custom_jvp
    def stub(C, lam, V):
        return lam, V

    @stub.defjvp
    def stub_jvp(primals, tangents):
        C, lam, V = primals
        dC = tangents[0]
        W = V.T @ (0.5 * (dC + dC.T)) @ V
        dlam = jnp.stack([W[0, 0], W[1, 1], W[2, 2]])
        gap = lam[None, :] - lam[:, None]                       # gap_ij = lam_j - lam_i
        off = 1.0 - jnp.eye(3)
        Om = off * W / (gap + jnp.eye(3))
        return (lam, V), (dlam, V @ Om)
    return stub


class eig_stub_pert:
    """TensorMath.eigen_sym33_unit := A -> stub(A, lam, V) with the perturbation contract as its derivative rule"""

    def __init__(self, lam, V):
        self.lam, self.V, self.stub = lam, V, _pert_stub()

    def __enter__(self):
        self.old = TM().eigen_sym33_unit
        TM().eigen_sym33_unit = lambda A: self.stub(A, self.lam, self.V)

    def __exit__(self, *a):
        TM().eigen_sym33_unit = self.old


def _omega(lam, W):
    return [[0.0 if i == j else W[i][j] / (lam[j] - lam[i]) if sym.num(W[i][j]) and sym.num(lam[i]) and sym.num(lam[j])
             else (0.0 if i == j else sym.toz(W[i][j]) / (sym.toz(lam[j]) - sym.toz(lam[i]))) for j in range(3)] for i in range(3)]


def abstract_divisions(terms):
    """replace every maximal sub-term `x / y` with a non-numeral divisor by one fresh real per distinct term (shared over all the given
    terms). Sound for proving equalities (the abstraction forgets what the quotients are: more models), and it turns `rational identity
    modulo the same quotient terms on both sides` into a polynomial identity that the solver normalises."""
    table, keep = {}, []

    def walk(e):
        if not sym.isz(e) or z3.is_const(e):
            return
        if e.decl().kind() == z3.Z3_OP_DIV and not z3.is_rational_value(e.arg(1)) and not z3.is_int_value(e.arg(1)):
            if e.get_id() not in table:
                table[e.get_id()] = (e, z3.Real('quot!%d' % len(table)))
            return
        for ch in e.children():
            walk(ch)
    zs = [sym.toz(t) for t in terms]
    for t in zs:
        walk(t)
    subs = list(table.values())
    return [z3.substitute(t, *subs) if subs else t for t in zs]


@obligation(P, 'O8a.second_order_helper_structure', cap=300)
def o8a(h):
    """derivative of the real _symmetric_matrix_function_jvp_helper along a second direction dC2 (jax.jvp through the helper, the eigen
    stub differentiating by the perturbation contract) equals the product-rule derivative of its Daleckii-Krein form:
    V [Omega M + M Omega^T + dH o W + H o (Omega^T W + W Omega)] V^T, M = H o W, W = V^T sym(dC) V, dH_ii = f''(lam_i) dlam_i,
    dH_ij = d1 rd dlam_i + d2 rd dlam_j, for arbitrary tables of f', f'', rd, d1 rd, d2 rd (generic scalar function)"""
    _guard(h)
    T = TM()
    h.encoded(T._symmetric_matrix_function_jvp_helper, T.sym)
    h.bounds('lam: all of R^3 with pairwise distinct entries (any order); eigenframe: V = I, C = diag(lam) (the general-V identity is the same product rule but was unknown @300 s); '
             "dC, dC2: all real 3x3; tables f'(lam_i), f''(lam_i), rd / d1 rd / d2 rd on the three pairs: free reals")
    h.outside('repeated eigenvalues (the confluent branch of the helper differentiates to an asymmetric rule: see O8c)', *NA)
    h.assume_note(PERT_NOTE, CONTRACT_NOTE)
    PAIRS = ((0, 1), (1, 2), (2, 0))

    def fn(lam, Cd, C2d, a, f2, b, rb1, rb2):
        V = jnp.eye(3)
        tab = lambda x, t: jnp.where(x == lam[0], t[0], jnp.where(x == lam[1], t[1], t[2]))

        def tab2(x1, x2, t):
            hit = lambda i, j: ((x1 == lam[i]) & (x2 == lam[j])) | ((x1 == lam[j]) & (x2 == lam[i]))
            return jnp.where(hit(0, 1), t[0], jnp.where(hit(1, 2), t[1], t[2]))

        @jax.custom_jvp
        def dfunc(x):
            return tab(x, a)

        @dfunc.defjvp
        def dfunc_jvp(p, t):
            return dfunc(p[0]), t[0] * tab(p[0], f2)

        @jax.custom_jvp
        def func(x):
            return 0.0 * x

        @func.defjvp
        def func_jvp(p, t):
            return func(p[0]), t[0] * dfunc(p[0])

        @jax.custom_jvp
        def rd(x1, x2):
            return tab2(x1, x2, b)

        @rd.defjvp
        def rd_jvp(p, t):
            return rd(*p), t[0] * tab2(p[0], p[1], rb1) + t[1] * tab2(p[0], p[1], rb2)
        with eig_stub_pert(lam, V):
            C = V @ jnp.diag(lam) @ V.T
            sol2 = jax.jvp(lambda X: T._symmetric_matrix_function_jvp_helper(func, rd, (X,), (Cd,)), (C,), (C2d,))[1]
            # the stub's own first-order data along dC2 (same terms as inside the helper's derivative): the oracle is written with them
            dlam, dV = jax.jvp(lambda X: T.eigen_sym33_unit(X), (C,), (C2d,))[1]
        # the table values exactly as the helper sees them (same guard x2_safe as in the helper, unused when the pair is distinct)
        safe = lambda x1, x2: jnp.where(x2 == x1, x2 + 1.0, x2)
        pr = [(lam[x], safe(lam[x], lam[y])) for x, y in PAIRS]
        A1 = jnp.stack([dfunc(lam[k]) for k in range(3)])
        F2 = jnp.stack([tab(lam[k], f2) for k in range(3)])
        B = jnp.stack([rd(x1, x2) for x1, x2 in pr])
        RB1 = jnp.stack([tab2(x1, x2, rb1) for x1, x2 in pr])
        RB2 = jnp.stack([tab2(x1, x2, rb2) for x1, x2 in pr])
        return sol2, dlam, dV, A1, F2, B, RB1, RB2

    def smp(rng):
        return [onp.sort(rng.normal(size=3)) + onp.array([-1.0, 0.0, 1.0]), rnd33(rng), rnd33(rng)] + [rng.normal(size=3) for _ in range(5)]
    ex = dict(lam=onp.array([0.5, 1.0, 2.0]), Cd=onp.ones((3, 3)), C2d=onp.ones((3, 3)) * 0.5, a=onp.ones(3), f2=onp.ones(3),
              b=onp.ones(3), rb1=onp.ones(3), rb2=onp.ones(3))
    c = Case(h, fn, ex, sampler=smp, label='helper_second_order', jit=False)

    def spec(i, o):
        lam, V, Cd, C2d = list(i['lam']), eye(), M(i['Cd']), M(i['C2d'])
        a, f2, b, rb1, rb2 = [list(o[k]) for k in (3, 4, 5, 6, 7)]
        sol2, dl, dV = M(o[0]), list(o[1]), M(o[2])
        D = msym(Cd)
        W = mm(mm(mT(V), D), V)
        W2 = mm(mm(mT(V), msym(C2d)), V)
        Om = _omega(lam, W2)
        H = hmat(lam, a, b)
        dHo = [v_add(v_mul(rb1[k], dl[x]), v_mul(rb2[k], dl[y])) for k, (x, y) in enumerate(PAIRS)]
        dH = hmat(lam, [v_mul(f2[k], dl[k]) for k in range(3)], dHo)
        Mh = hadamard(H, W)
        dW = madd(mm(mm(mT(dV), D), V), mm(mm(mT(V), D), dV))
        want = madd(madd(mm(mm(dV, Mh), mT(V)), mm(mm(V, Mh), mT(dV))), mm(mm(V, madd(hadamard(dH, W), hadamard(H, dW))), mT(V)))
        distinct = [v_not(v_eq(lam[x], lam[y])) for x, y in PAIRS]
        lhs, rhs = fl(sol2), fl(want)
        return distinct, [Eq(lhs[3 * x + y], rhs[3 * x + y], name='derivative_of_DK_form[%d%d]' % (x, y), scale=1.0) for x in range(3) for y in range(3)] + \
            [Eq(dl, [W2[0][0], W2[1][1], W2[2][2]], name='stub_dlam_is_diag_W2'),
             Eq(fl(dV), fl(mm(V, Om)), name='stub_dV_is_V_Omega')]
    c.prove('generic', spec, order=('nlsat', 'core'), cap=60)


_SD_CACHE = {}


def _second_derivative_real(f_symm, C, D, D2):
    """(jvp(jvp) of the REAL function, 4th-order central finite difference of the REAL first derivative), both at C along D then D2"""
    if f_symm not in _SD_CACHE:
        d1 = lambda X, Y: jax.jvp(f_symm, (X,), (Y,))[1]
        _SD_CACHE[f_symm] = (jax.jit(d1), jax.jit(lambda X, Y, Z: jax.jvp(lambda U: d1(U, Y), (X,), (Z,))[1]))
    d1j, d2j = _SD_CACHE[f_symm]
    C, D, D2 = [jnp.asarray(onp.asarray(x, dtype=float)) for x in (C, D, D2)]
    a = onp.asarray(d2j(C, D, D2))
    hstep = 1e-3 * max(1e-3, float(onp.min(onp.abs(onp.linalg.eigvalsh(onp.asarray(C)))))) / max(1e-12, float(onp.abs(onp.asarray(D2)).max()))
    g = lambda t: onp.asarray(d1j(C + t * D2, D))
    b = (-g(2 * hstep) + 8 * g(hstep) - 8 * g(-hstep) + g(-2 * hstep)) / (12 * hstep)
    return a, b


FD_TOL = 1e-5


@obligation(P, 'O8b.second_order_sqrt_identity', cap=300)
def o8b(h):
    """second derivative of sqrt_symm through the REAL jvp rule (jax.jvp of jax.jvp, eigen stub with the perturbation contract):
    differentiating S(C) S(C) = C twice along dC gives S'' S + S S'' + 2 S' S' = 0; proved in the eigenframe for all distinct positive
    spectra and all symmetric dC. A counterexample is replayed on the unmodified library: jvp(jvp(sqrt_symm)) against a 4th-order
    finite difference of jvp(sqrt_symm) at the model point"""
    _guard(h)
    T = TM()
    from optimism import Math
    h.encoded(T.sqrt_symm, T._sqrt_symm_jvp, T._sqrt_relative_difference, T._symmetric_matrix_function_jvp_helper, T.symmetric_matrix_function,
              Math.safe_sqrt, Math.safe_sqrt_jvp)
    h.bounds('C = diag(r_i^2) with 0 < r_0 < r_1 < r_2 (eigenframe V = I; distinct eigenvalues); first direction dC: all symmetric 3x3 (6 reals); second direction dC2: the 6 elements of the symmetric basis, all symmetric dC2 by linearity of the tangent map (polarised identity)')
    h.outside('repeated eigenvalues (see O8c)', 'general orientations V (the eigenframe already exercises the rotation term dV = V Omega)', *NA)
    h.assume_note(PERT_NOTE, CONTRACT_NOTE, SEED_NOTE)

    def fn(r, d6, e6):
        lam = r * r
        C, D, D2 = jnp.diag(lam), sym6(d6), sym6(e6)
        with eig_stub_pert(lam, jnp.eye(3)):
            d1 = lambda X, Y: jax.jvp(T.sqrt_symm, (X,), (Y,))
            (S, S1), (_, S2) = jax.jvp(lambda X: d1(X, D), (C,), (D2,))
            S1b = d1(C, D2)[1]
        return S, S1, S1b, S2
    ctx = jx.Ctx()
    ctx.keep_alive = []
    for ri in sym.sym_array('r', (3,)):
        t = ri * ri
        ctx.keep_alive.append(t)
        ctx.cache[('sqrt', t.get_id())] = ri
    c = Case(h, fn, dict(r=onp.array([0.7, 1.0, 1.4]), d6=onp.ones(6), e6=onp.ones(6) * 0.5),
             sampler=lambda rng: [onp.sort(rng.uniform(0.4, 2.0, size=3)) + onp.array([0, 0.1, 0.2]), rng.normal(size=6), rng.normal(size=6)],
             label='sqrt_second_order', jit=False, ctx=ctx)
    r, e6 = list(c.inp['r']), list(c.inp['e6'])
    S, S1, S1b, S2 = [M(x) for x in c.out]
    # polarised identity: S''[D,D2] S + S S''[D,D2] + S'[D] S'[D2] + S'[D2] S'[D] = 0
    R = madd(madd(mm(S2, S), mm(S, S2)), madd(mm(S1, S1b), mm(S1b, S1)))
    assumes = [v_lt(0.0, r[0]), v_lt(r[0], r[1]), v_lt(r[1], r[2])] + c.side(True)

    def concrete(vals):
        rr = onp.asarray(vals['r'], dtype=float)
        D = onp.asarray(sym6(onp.asarray(vals['d6'], dtype=float)))
        D2 = onp.asarray(sym6(onp.asarray(vals['e6'], dtype=float)))
        ok = bool(0 < rr[0] < rr[1] < rr[2])
        a, b = _second_derivative_real(T.sqrt_symm, onp.diag(rr * rr), D, D2)
        sc = float(onp.abs(b).max()) + float(onp.abs(a).max()) + 1e-300
        return ok, Le(float(onp.abs(a - b).max()), FD_TOL * sc, scale=sc), dict(jvp_jvp=a.tolist(), finite_difference=b.tolist())
    # the second direction runs over the 6 elements of the symmetric basis (the identity is linear in dC2: jvp tangents are linear maps);
    # the first direction dC and the spectrum stay symbolic
    for k in range(6):
        sub = [(e6[m], z3.RealVal(1 if m == k else 0)) for m in range(6)]
        inp = dict(c.inp)
        inp['e6'] = jx.lift(onp.eye(6)[k])
        for x in range(3):
            for y in range(x, 3):
                Rk = z3.substitute(sym.toz(R[x][y]), *sub)
                ak = [z3.substitute(sym.tob(a), *sub) if sym.isz(a) else a for a in assumes]
                h.prove('identity[dC2=E%d][%d%d]' % (k, x, y), ak, Eq(Rk, 0.0, scale=1.0), inputs=inp, concrete=concrete, cap=60, order=('core', 'nlsat'))


def _dd_tables(which, lam):
    """first and second divided differences of f on the (concrete) spectrum, confluent forms included"""
    f, f1, f2 = {'sqrt': (math.sqrt, lambda x: 0.5 / math.sqrt(x), lambda x: -0.25 * x ** -1.5),
                 'log': (math.log, lambda x: 1.0 / x, lambda x: -1.0 / (x * x)),
                 'exp': (math.exp, math.exp, math.exp)}[which]

    def d1(a, b):
        return f1(a) if a == b else (f(a) - f(b)) / (a - b)

    def d2(a, b, c):
        if a == b == c:
            return 0.5 * f2(a)
        if a == b:
            return (f1(a) - d1(a, c)) / (a - c)
        if a == c:
            return d2(a, c, b)
        if b == c:
            return d2(b, c, a)
        return (d1(a, b) - d1(b, c)) / (a - c)
    return [[[d2(lam[i], lam[j], lam[k]) for k in range(3)] for j in range(3)] for i in range(3)]


REPEATED_POINTS = (('generic_control', (1.3, 1.0, 0.8)), ('double', (1.3, 1.0, 1.0)), ('double_low', (1.0, 1.0, 1.3)), ('triple', (1.1, 1.1, 1.1)),
                   ('uniaxial_0.2pct', (1.002 ** 2, 1.0, 1.0)))


def _o8c(h, which, points):
    T = TM()
    f_symm = {'sqrt': T.sqrt_symm, 'exp': T.exp_symm, 'log': T.log_symm}[which]
    for pname, lamc in points:
        Cc = onp.diag(onp.asarray(lamc, dtype=float))

        def fn(d6, Cc=Cc):
            D = sym6(d6)
            d1 = lambda X: jax.jvp(f_symm, (X,), (D,))[1]
            return jax.jvp(d1, (jnp.asarray(Cc),), (D,))[1]
        c = Case(h, fn, dict(d6=onp.array([0.3, -0.2, 0.5, 0.1, 0.4, -0.3])), sampler=lambda rng: [rng.normal(size=6)], label='%s_second_derivative[%s]' % (which, pname))
        dd = _dd_tables(which, lamc)
        d6 = list(c.inp['d6'])
        S2 = M(c.out)

        def want(d):
            D = msym6(d)
            return [[v_sum([v_mul(2.0 * dd[x][y][k], v_mul(D[x][k], D[k][y])) for k in range(3)]) for y in range(3)] for x in range(3)]
        W = want(d6)
        nrm2 = v_dot(d6, d6)

        def concrete(vals, Cc=Cc):
            d = onp.asarray(vals['d6'], dtype=float)
            D = onp.asarray(sym6(d))
            a, b = _second_derivative_real(f_symm, Cc, D, D)
            sc = float(onp.abs(b).max()) + float(onp.abs(a).max()) + 1e-300
            closed = onp.asarray(want([float(x) for x in d]), dtype=float)
            return True, Le(float(onp.abs(a - b).max()), FD_TOL * sc, scale=sc), dict(jvp_jvp=a.tolist(), finite_difference=b.tolist(), closed_form=closed.tolist())
        for x in range(3):
            for y in range(x, 3):
                h.prove('%s[%s].matches_frechet[%d%d]' % (which, pname, x, y), c.side(True),
                        Le(v_abs(v_sub(S2[x][y], W[x][y])), v_mul(1e-6, nrm2), scale=nrm2), inputs=c.inp, concrete=concrete, cap=30, order=('nlsat', 'core'))


def _o8c_meta(h, which):
    T = TM()
    h.encoded({'sqrt': T.sqrt_symm, 'log': T.log_symm, 'exp': T.exp_symm}[which], T._symmetric_matrix_function_jvp_helper, T.eigen_sym33_unit, T.eigen_sym33_non_unit)
    h.bounds('C: the listed diagonal points (concrete; the primal computation is folded by the real primitives): ' +
             ', '.join('%s = diag%s' % (n, tuple(round(x, 6) for x in l)) for n, l in REPEATED_POINTS) +
             '; dC: all symmetric 3x3 (6 reals), same direction twice; tolerance 1e-6 |dC|^2')
    h.outside('symbolic C with repeated eigenvalues (the twice-differentiated eigen routine with symbolic entries is out of reach)', *NA)
    h.assume_note('closed form: second divided differences evaluated in binary64 by the harness at the concrete spectrum')


@obligation(P, 'O8c.second_derivative_at_repeated_eigenvalues_sqrt', cap=400)
def o8c_sqrt(h):
    """the second derivative of sqrt_symm delivered by the REAL pipeline (jax.jvp of jax.jvp through the custom rule AND the real
    eigen_sym33_unit, no stub) at tensors with EXACTLY repeated eigenvalues equals the second Frechet derivative
    2 sum_k f[lam_i,lam_j,lam_k] dC_ik dC_kj (second divided differences, confluent forms), for every symmetric direction dC;
    a generic (distinct) point is included as a control of the closed form"""
    _guard(h)
    _o8c_meta(h, 'sqrt')
    _o8c(h, 'sqrt', REPEATED_POINTS)


@obligation(P, 'O8c.second_derivative_at_repeated_eigenvalues_log', cap=400)
def o8c_log(h):
    """as O8c..._sqrt for log_symm (the logarithmic-strain models): quick tier control + double + uniaxial 0.2 % stretch, thorough all points"""
    _guard(h)
    _o8c_meta(h, 'log')
    _o8c(h, 'log', REPEATED_POINTS if h.thorough() else [q for q in REPEATED_POINTS if q[0] in ('generic_control', 'double', 'uniaxial_0.2pct')])


@obligation(P, 'O8c.second_derivative_at_repeated_eigenvalues_exp', tiers=('thorough',), cap=400)
def o8c_exp(h):
    """as O8c..._sqrt for exp_symm"""
    _guard(h)
    _o8c_meta(h, 'exp')
    _o8c(h, 'exp', REPEATED_POINTS)


# ------------------------------------------------------------------------------------------------ O1b: derivatives of det / detpIm1 / inv
def cofactor(A):
    """matrix of cofactors C_ij = d det / d A_ij (harness formula)"""
    C = [[None] * 3 for _ in range(3)]
    for i in range(3):
        for j in range(3):
            r = [x for x in range(3) if x != i]
            q = [x for x in range(3) if x != j]
            minor = v_sub(v_mul(A[r[0]][q[0]], A[r[1]][q[1]]), v_mul(A[r[0]][q[1]], A[r[1]][q[0]]))
            C[i][j] = minor if (i + j) % 2 == 0 else v_mul(-1.0, minor)
    return C


@obligation(P, 'O1b.det_inv_derivatives', cap=240)
def o1b(h):
    """jax.jvp and jax.grad of TensorMath.det and detpIm1 equal the derivative of the determinant polynomial, cof(A) : dA resp.
    cof(A + I) : dA, for ALL real 3x3 A and dA (9 + 9 reals, non-symmetric included).
    Pins any hand-written derivative rule of these helpers"""
    _guard(h)
    T = TM()
    h.encoded(T.det, T.detpIm1, T.inv, T.trace, T.I2)
    h.bounds('A, dA: all real 3x3 matrices (18 free reals)')
    h.outside('derivative of inv (see DESIGNED_NOT_REGISTERED)', *NA)

    def fn(A, dA):
        d, dd = jax.jvp(T.det, (A,), (dA,))
        p, dp = jax.jvp(T.detpIm1, (A,), (dA,))
        return dd, dp, jax.grad(T.det)(A), jax.grad(T.detpIm1)(A)
    ex = onp.eye(3) * 0.7 + onp.arange(9).reshape(3, 3) * 0.05
    c = Case(h, fn, dict(A=ex, dA=onp.ones((3, 3)) * 0.3 + ex.T), sampler=lambda rng: [rnd33(rng), rnd33(rng)], label='det_derivatives')

    def spec(i, o):
        A, dA = M(i['A']), M(i['dA'])
        C, CI = cofactor(A), cofactor(madd(A, eye()))
        return [], [Eq(s0(o[0]), v_dot(fl(C), fl(dA)), name='jvp_det_is_cofactor_ddot_dA'),
                    Eq(s0(o[1]), v_dot(fl(CI), fl(dA)), name='jvp_detpIm1_is_cofactor_of_A_plus_I_ddot_dA'),
                    Eq(fl(M(o[2])), fl(C), name='grad_det_is_cofactor_matrix'),
                    Eq(fl(M(o[3])), fl(CI), name='grad_detpIm1_is_cofactor_of_A_plus_I')]
    c.prove('det', spec, order=('nlsat', 'core'), cap=60)



# ------------------------------------------------------------------------------------------------ O6b: pow_symm with integer exponents, any sign
def _pow_inplane_case(h, axis, m, with_jvp):
    T = TM()

    def fn(cs, lam, d6):
        V = axis_rot(axis, cs[0], cs[1])
        C = V @ jnp.diag(lam) @ V.T
        with eig_stub(lam, V):
            if with_jvp:
                S, L = jax.jvp(lambda X: T.pow_symm(X, m), (C,), (sym6(d6),))
            else:
                S = T.pow_symm(C, m)
                L = S
        return S, L, C

    def smp(rng):
        t = rng.uniform(0, 2 * math.pi)
        lam = onp.sort(rng.uniform(0.3, 2.0, size=3) * rng.choice([-1.0, 1.0], size=3))
        return [onp.array([math.cos(t), math.sin(t)]), lam, rng.normal(size=6)]
    return Case(h, fn, dict(cs=onp.array([0.6, 0.8]), lam=onp.array([-1.5, -0.5, 1.0]), d6=onp.ones(6)), sampler=smp,
                label='pow_symm[m=%g]%s_axis%d' % (m, '_jvp' if with_jvp else '', axis), jit=False)


@obligation(P, 'O6b.pow_symm_integer_exponents', cap=300)
def o6b(h):
    """pow_symm(A, m) for integer m through the real code, modulo the eigen contract, eigenvalues of ANY sign: pow_symm(A,2) = A A,
    pow_symm(A,3) = A A A, pow_symm(A,-1) A = I (non-zero eigenvalues), pow_symm(A,0) = I; and the jvp rule for m = 2 returns dA A + A dA"""
    _guard(h)
    T = TM()
    h.encoded(T.pow_symm, T._pow_symm_jvp, T._pow_relative_difference, T._symmetric_matrix_function_jvp_helper, T.symmetric_matrix_function)
    h.bounds('A = V diag(lam) V^T, V every rotation about the z axis (quick) and x, y (thorough), lam_0 <= lam_1 <= lam_2 ALL reals (negative, zero, '
             'positive; m = -1: non-zero), split into the four multiplicity patterns; jvp rule (m = 2): distinct eigenvalues, non-zero larger-magnitude '
             'member of each pair (the rule divides by it), all symmetric dA')
    h.outside('non-integer exponents with negative eigenvalues (NaN)', *NA)
    h.assume_note(CONTRACT_NOTE)
    I3 = eye()
    for axis in ((2, 0, 1) if h.thorough() else (2,)):
        for m in (2, 3, -1, 0):
            c = _pow_inplane_case(h, axis, m, with_jvp=False)
            for pat in PATTERNS:
                def spec(i, o, pat=pat, m=m):
                    cs, lam = list(i['cs']), list(i['lam'])
                    S, C = M(o[0]), M(o[2])
                    asm = [v_eq_replay_tol(v_add(v_sq(cs[0]), v_sq(cs[1])), 1.0), pat[1](lam[0], lam[1]), pat[2](lam[1], lam[2])]
                    if m == -1:
                        asm += [v_not(v_eq(x, 0.0)) for x in lam]
                    want, got = {2: (mm(C, C), S), 3: (mm(mm(C, C), C), S), -1: (I3, mm(S, C)), 0: (I3, S)}[m]
                    return asm, [Eq(fl(got), fl(want), name={2: 'is_A_A', 3: 'is_A_A_A', -1: 'times_A_is_I', 0: 'is_I'}[m], scale=1.0)]
                c.prove('m=%d.axis%d.%s' % (m, axis, pat[0]), spec, order=('core', 'nlsat'), denoms=(m == -1), cap=30)
        c = _pow_inplane_case(h, axis, 2, with_jvp=True)

        def spec_d(i, o):
            cs, lam = list(i['cs']), list(i['lam'])
            L, C, D = M(o[1]), M(o[2]), msym6(list(i['d6']))
            asm = [v_eq_replay_tol(v_add(v_sq(cs[0]), v_sq(cs[1])), 1.0), v_lt(lam[0], lam[1]), v_lt(lam[1], lam[2])]
            asm += [v_not(v_eq(v_add(lam[a], lam[b]), 0.0)) for a, b in ((0, 1), (1, 2), (0, 2))] + [v_not(v_eq(x, 0.0)) for x in lam]
            W = madd(mm(D, C), mm(C, D))
            return asm, [Eq(L[x][y], W[x][y], name='jvp_m2_is_dA_A_plus_A_dA[%d%d]' % (x, y), scale=1.0) for x in range(3) for y in range(x, 3)]
        c.prove('m=2.axis%d.rule' % axis, spec_d, order=('core', 'nlsat'), denoms=True, cap=30)


# ------------------------------------------------------------------------------------------------ O9: one step of the Denman-Beavers product iteration
def _dbp_body():
    from optimism import LinAlg
    cj = jax.make_jaxpr(LinAlg.sqrtm_dbp)(jnp.eye(2))
    ws = jx.find_eqns(cj.jaxpr, 'while')
    if len(ws) != 1:
        raise jx.JXError('expected exactly one while loop in sqrtm_dbp, found %d' % len(ws))
    w = ws[0]
    if w.params['body_nconsts'] != 0 or w.params['cond_nconsts'] != 1:
        raise jx.JXError('sqrtm_dbp loop: expected no body constants and one cond constant (tol), found %d / %d' % (w.params['body_nconsts'], w.params['cond_nconsts']))
    return w.params['body_jaxpr'], w.params['cond_jaxpr']


DBP_TOL = float(0.5 * onp.sqrt(2.0) * onp.finfo(onp.float64).eps)       # the loop's only closed-over value: tol = 0.5 sqrt(dim) eps, dim = 2


def _dbp_real_step(body, X, Mm, error, k, diff):
    """the REAL loop body (its jaxpr, executed by the real primitives) on concrete floats"""
    out = jax.core.eval_jaxpr(body.jaxpr, body.consts, jnp.asarray(X, dtype=float), jnp.asarray(Mm, dtype=float), jnp.asarray(float(error)),
                              jnp.asarray(int(k), dtype=jnp.int64), jnp.asarray(float(diff)))
    return [onp.asarray(o) for o in out]


@obligation(P, 'O9.sqrtm_dbp_scaled_step', cap=300)
def o9(h):
    """one step of the real loop body of LinAlg.sqrtm_dbp (2x2) from an ARBITRARY pre-state (X, M, diff): the step uses the determinant
    scaling g = |det M|^(-1/(2n)) exactly when diff >= scaleTol = 0.01 and g = 1 otherwise, and is the scaled product-form Denman-Beavers
    step: with Ms = g^2 M and N = Ms^-1: M' = (I + (Ms + N)/2)/2, X' = g X (I + N)/2. Consequence for scalar matrices A = a I, every a > 0
    (any magnitude): the first step from the initial state lands exactly on sqrt(a) I with M' = I, error 0, so the loop exits after one sweep"""
    _guard(h)
    from optimism import LinAlg
    h.encoded(LinAlg.sqrtm_dbp)
    h.bounds('one-step: X, M all real 2x2 (8 reals), M and g^2 M non-singular, diff all reals, scaleTol = 0.01 as in the source; '
             'scalar consequence: A = a I (2x2), all reals a > 0, initial loop state (A, A, error0, 0, 2 scaleTol)')
    h.outside('convergence of the iteration for general matrices, the iteration count, LinAlg.logm_iss / log_pade_pf, n > 2', *NA)
    h.assume_note('the loop body is taken out of the while equation of the traced sqrtm_dbp (one-step obligation); np.linalg.inv is encoded relationally '
                  '(fresh N with (g^2 M) N = I, matrix assumed non-singular); |det|^(1/4) is an uninterpreted pow application, shared with the harness '
                  'expression of the scale factor, with the instance (x^(1/4))^4 = x for the scalar consequence',
                  'replay: the real loop body (its jaxpr executed by the real primitives) at the model state')
    body, cond = _dbp_body()
    ctx = jx.Ctx()
    X, Mm = sym.sym_array('X', (2, 2)), sym.sym_array('M', (2, 2))
    diff, err = z3.Real('diff'), z3.Real('error')
    X1, M1, e1, k1, d1 = jx.eval_jaxpr(ctx, body.jaxpr, body.consts, X, Mm, jx.lift(err), jx.lift(0), jx.lift(diff))
    # the harness' copy of the scale factor: same pow application by hash-consing on |det M|
    cjs = jax.make_jaxpr(lambda A: jnp.abs(jnp.linalg.det(A)) ** (1.0 / 4.0))(jnp.eye(2))
    dsc = s0(jx.eval_jaxpr(ctx, cjs.jaxpr, cjs.consts, Mm)[0])
    h.fact('scale_factor_term_shared', any(n == 'pow' for _, n, _a in ctx.ufs.values()) and sum(1 for _, n, _a in ctx.ufs.values() if n == 'pow') == 1,
           'the body and the harness expression |det M|^(1/4) are the same uninterpreted application', nontrivial=False)
    inputs = dict(X=X, M=Mm, diff=diff, error=err)

    def atoms_for(Xv, Mv, dv, X1v, M1v, dscv):
        Xl, Ml, X1l, M1l = M(Xv), M(Mv), M(X1v), M(M1v)
        I2 = [[1.0, 0.0], [0.0, 1.0]]
        g = v_if(v_le(0.01, dv), v_mul(1.0, 1.0 / dscv) if sym.num(dscv) else 1 / sym.toz(dscv), 1.0)
        Ms = [[v_mul(v_mul(g, g), Ml[a][b]) for b in range(2)] for a in range(2)]
        N = [[v_sub(v_sub(v_mul(4.0, M1l[a][b]), v_mul(2.0, I2[a][b])), Ms[a][b]) for b in range(2)] for a in range(2)]      # from M' = (I + (Ms + N)/2)/2
        MsN = [[v_sum([v_mul(Ms[a][c], N[c][b]) for c in range(2)]) for b in range(2)] for a in range(2)]
        IpN = [[v_add(I2[a][b], N[a][b]) for b in range(2)] for a in range(2)]
        XIN = [[v_mul(0.5, v_mul(g, v_sum([v_mul(Xl[a][c], IpN[c][b]) for c in range(2)]))) for b in range(2)] for a in range(2)]
        sc = 1.0
        return [Eq(MsN[a][b], I2[a][b], name='M_next_is_scaled_DB_update[%d%d]' % (a, b), scale=sc) for a in range(2) for b in range(2)] + \
            [Eq(X1l[a][b], XIN[a][b], name='X_next_is_scaled_DB_update[%d%d]' % (a, b), scale=sc) for a in range(2) for b in range(2)]

    def concrete(vals, which):
        Xc, Mc = onp.asarray(vals['X'], dtype=float).reshape(2, 2), onp.asarray(vals['M'], dtype=float).reshape(2, 2)
        out = _dbp_real_step(body, Xc, Mc, vals.get('error', 1.0), 0, vals['diff'])
        dsc_c = abs(float(onp.linalg.det(Mc))) ** 0.25
        ok = dsc_c > 0 and abs(float(onp.linalg.det(Mc))) > 1e-12
        return ok, atoms_for(Xc, Mc, float(vals['diff']), out[0], out[1], dsc_c)[which], dict(X_next=out[0].tolist(), M_next=out[1].tolist(), scale_root=dsc_c)
    side = ctx.all_side() + ctx.nonzero_denoms() + [dsc > 0]
    zat = atoms_for(X, Mm, diff, X1, M1, dsc)
    for name, hyp in (('far_from_converged', diff >= sym.rat(0.01)), ('nearly_converged', diff < sym.rat(0.01))):
        for k, atom in enumerate(zat):
            h.prove('%s.%s' % (name, atom.name), side + [hyp], atom, inputs=inputs, concrete=lambda v, k=k: concrete(v, k), cap=60, order=('core', 'nlsat'))

    # ---- scalar matrices: the first sweep is exact
    ctx2 = jx.Ctx()
    a = z3.Real('a')
    A = jx.lift(onp.array([[a, 0.0], [0.0, a]], dtype=object))
    X1, M1, e1, k1, d1 = jx.eval_jaxpr(ctx2, body.jaxpr, body.consts, A, A, jx.lift(1.0e300), jx.lift(0), jx.lift(0.02))
    keep = jx.eval_jaxpr(ctx2, cond.jaxpr, cond.consts, jx.lift(DBP_TOL), X1, M1, e1, k1, d1)[0][()]
    pw = [(v, args) for v, n, args in ctx2.ufs.values() if n == 'pow']
    ax = [z3.Implies(args[0] > 0, z3.And(v > 0, v * v * v * v == args[0])) for v, args in pw]
    side2 = ctx2.all_side() + ctx2.nonzero_denoms() + ax + [a > 0]
    X1l = M(X1)
    XX = [[v_sum([v_mul(X1l[r][c], X1l[c][s]) for c in range(2)]) for s in range(2)] for r in range(2)]

    def conc_scalar(vals, which):
        av = float(vals['a'])
        out = _dbp_real_step(body, av * onp.eye(2), av * onp.eye(2), 1.0e300, 0, 0.02)
        Xn = out[0]
        at = [Eq((Xn @ Xn).ravel().tolist(), [av, 0.0, 0.0, av], scale=av), Eq(out[1].ravel().tolist(), [1.0, 0.0, 0.0, 1.0]), Eq(float(out[2]), 0.0, scale=1.0)][which]
        return av > 0, at, dict(X_next=Xn.tolist(), M_next=out[1].tolist(), error=float(out[2]))
    sat = [('first_step_squares_to_A', Eq([XX[r][s] for r in range(2) for s in range(2)], [a, 0.0, 0.0, a], scale=a)),
           ('first_step_M_is_identity', Eq([M(M1)[r][s] for r in range(2) for s in range(2)], [1.0, 0.0, 0.0, 1.0])),
           ('first_step_error_is_zero', Eq(s0(e1), 0.0, scale=1.0))]
    for k, (nm, atom) in enumerate(sat):
        h.prove('scalar.%s' % nm, side2, atom, inputs=dict(a=a), concrete=lambda v, k=k: conc_scalar(v, k), cap=60, order=('nlsat', 'core'))
    h.prove('scalar.loop_exits_after_first_step', side2, Holds(v_not(keep)), inputs=dict(a=a),
            concrete=lambda v: (float(v['a']) > 0, Holds(not bool(jax.core.eval_jaxpr(cond.jaxpr, cond.consts, jnp.asarray(DBP_TOL), *[jnp.asarray(o) for o in _dbp_real_step(body, float(v['a']) * onp.eye(2), float(v['a']) * onp.eye(2), 1.0e300, 0, 0.02)])[0])), None),
            cap=60, order=('nlsat', 'core'))


# ------------------------------------------------------------------------------------------------ O7f: the row-pivot selection itself
PIVOT_FLAGS = ('k0_largest', 'k1_largest', 'k2_largest')


def _pivot_flags(kvals, symbolic):
    """evaluate the REAL eigen_sym33_non_unit jaxpr with the named locals k0, k1, k2 replaced by the given values and read the named
    locals k0_largest, k1_largest, k2_largest (the selection is a pure function of the three row norms)"""
    T = TM()
    base = jnp.asarray(onp.array([[1.0, 0.2, 0.1], [0.2, 0.5, 0.3], [0.1, 0.3, -0.4]]))
    cj = jax.make_jaxpr(T.eigen_sym33_non_unit)(base)
    ctx = jx.Ctx()
    nl = NamedLocals(cj, T.eigen_sym33_non_unit, cut={'k0': lambda out: kvals[0], 'k1': lambda out: kvals[1], 'k2': lambda out: kvals[2]}, record=PIVOT_FLAGS)
    ctx.hooks = nl
    try:
        jx.eval_jaxpr(ctx, cj.jaxpr, cj.consts, jx.lift(onp.asarray(base)))
    except Exception:
        if not all(f in nl.values for f in PIVOT_FLAGS):
            raise
        # downstream of the selection the injected norms are inconsistent with the rows (divisions by zero, ...): irrelevant here
    return [s0(nl.values[f]) for f in PIVOT_FLAGS]


@obligation(P, 'O7.eigen_sym33_pivot_selection', cap=120)
def o7f(h):
    """the row-pivot selection of eigen_sym33_non_unit as a function of the three squared row norms k0, k1, k2 (ALL reals, ties included):
    exactly one of k0_largest, k1_largest, k2_largest is set, and the selected row has the maximal norm"""
    _guard(h)
    T = TM()
    h.encoded(T.eigen_sym33_non_unit)
    h.bounds('k0, k1, k2: all reals (every order, every tie pattern)')
    h.outside('what the routine does with the selected row (see the deflation-stage and family obligations)', *NA)
    h.assume_note('the named locals k0, k1, k2 of the real source are cut to free symbols (the selection code reads nothing else) and the named locals '
                  'k0_largest, k1_largest, k2_largest are read from the interpreted jaxpr (NamedLocals); replay = the same real jaxpr executed by the real '
                  'primitives with the model values injected for k0, k1, k2')
    k = [z3.Real('k%d' % i) for i in range(3)]
    f = _pivot_flags(k, True)
    fb = [sym.tob(x) for x in f]

    def atoms(fl_, kv):
        b = [bool(x) if not sym.isz(x) else x for x in fl_]
        one = v_or(v_and(b[0], v_not(b[1]), v_not(b[2])), v_and(v_not(b[0]), b[1], v_not(b[2])), v_and(v_not(b[0]), v_not(b[1]), b[2]))
        mx = [v_and(v_le(kv[(i + 1) % 3], kv[i]), v_le(kv[(i + 2) % 3], kv[i])) for i in range(3)]
        return [Holds(one, name='exactly_one_flag'),
                Holds(v_and(*[sym.v_implies(b[i], mx[i]) for i in range(3)]), name='selected_row_has_maximal_norm')]

    def concrete(vals, which):
        kv = [float(vals['k%d' % i]) for i in range(3)]
        fl_ = [bool(onp.asarray(x)) for x in _pivot_flags([jx.lift(v) for v in kv], False)]
        return True, atoms(fl_, kv)[which], dict(flags=fl_, k=kv)
    for i, atom in enumerate(atoms(fb, k)):
        h.prove(atom.name, [], atom, inputs={'k0': k[0], 'k1': k[1], 'k2': k[2]}, concrete=lambda v, i=i: concrete(v, i), cap=30, order=('core', 'nlsat'), check_vacuity=False)


# ------------------------------------------------------------------------------------------------ O7g: block-form tensors with isolated out-of-plane extreme eigenvalue
def _oop_hyps(sgn, ordr):
    def hyps(p):
        a, c, d = p
        c1 = _third(v_add(v_add(a, c), d))
        xa, xc, xd = v_sub(a, c1), v_sub(c, c1), v_sub(d, c1)
        c2 = v_add(v_add(v_mul(xa, xc), v_mul(xc, xd)), v_mul(xd, xa))
        m = v_mul(0.5, v_add(a, c))
        r2 = v_sq(v_mul(0.5, v_sub(a, c)))
        gap = v_mul(sgn, v_sub(d, m))
        k0, k1 = v_sq(v_sub(a, d)), v_sq(v_sub(c, d))
        return [v_lt(c2, v_mul(-1e-30, v_sq(c1))), v_lt(0.0, gap), v_lt(v_mul(9.0, r2), v_sq(gap)), v_lt(k0, k1) if ordr == 'xx_closer' else v_lt(k1, k0)]
    return hyps


@obligation(P, 'O7.eigen_sym33_deflation_out_of_plane_extreme', cap=900)
def o7g(h):
    """deflation stage of the REAL eigen_sym33_non_unit on plane-strain block-form tensors diag(a, c, d) whose out-of-plane eigenvalue d is the
    isolated extreme one (|d - (a+c)/2| > 3 |a-c|/2, above or below), for both orderings of the in-plane entries relative to d
    (|a-d| < |c-d|: the SECOND row has the largest norm, and |c-d| < |a-d|): A v_i = lam_i v_i exactly, v_i non-zero and orthogonal, ascending"""
    _guard(h)
    _o7_meta(h)
    T = TM()
    h.bounds('a, c, d: all reals with d isolated extreme (sign +: above, -: below; thorough: both), a != c, not nearly isotropic (the code\'s own threshold); '
             'orderings xx_closer (|a-d| < |c-d|, pivot must be row 1) and yy_closer; the third row of C - eval2 I is exactly zero on this family',
             'with in-plane shear b != 0 ([[a,b,0],[b,c,0],[0,0,d]], 4 parameters): unknown @30 s, see DESIGNED_NOT_REGISTERED')
    h.assume_note('cut with an ASSUMED lemma: the named local eval2 is replaced by the exact deviatoric eigenvalue d - (a+c+d)/3 (as in O7.eigen_sym33_deflation_on_pivot_ties); '
                  'replays run the unmodified eigen_sym33_non_unit', 'branch pruning under the case hypotheses; cone-of-influence filtering of sqrt definitions')

    def fam(p):
        z = 0.0 * p[0]
        return jnp.array([[p[0], z, z], [z, p[1], z], [z, z, p[2]]])
    fn = lambda p: T.eigen_sym33_non_unit(fam(p)) + (fam(p),)
    estar = lambda p: v_sub(p[2], _third(v_add(v_add(p[0], p[1]), p[2])))
    for sgn in ((1.0, -1.0) if h.thorough() else (1.0,)):
        for ordr in ('xx_closer', 'yy_closer'):
            hyps = _oop_hyps(sgn, ordr)

            def smp(rng, hyps=hyps):
                for _ in range(100000):
                    p = rng.uniform(-2, 2, size=3)
                    if all(bool(x) for x in hyps([float(v) for v in p])):
                        return [p]
                raise RuntimeError('no sample')
            name = 'diag_d_%s[%s]' % ('above' if sgn > 0 else 'below', ordr)
            c = StageCase(h, fn, T.eigen_sym33_non_unit, 3, smp, name, hyps, cut={'eval2': estar})

            def spec(i, o, hyps=hyps):
                lam, V, A = list(o[0]), M(o[1]), M(o[2])
                sc = _inf_norm(A)
                AV, VL, G = mm(A, V), mm(V, mdiag(lam)), mm(mT(V), V)
                nrm = [G[0][0], G[1][1], G[2][2]]
                if sym.isz(nrm[0]) or sym.isz(sc):
                    nz = Lt(0.0, nrm, name='eigenvectors_nonzero', scale=0.0)
                else:
                    ok = True
                    for y in range(3):
                        vmax = max(abs(V[x][y]) for x in range(3))
                        res = max(abs(AV[x][y] - VL[x][y]) for x in range(3))
                        ok = ok and vmax > 0.0 and res <= 1e-9 * sc * vmax      # NaN makes this False
                    nz = Holds(ok, name='eigenvectors_nonzero')
                return hyps(list(i['p'])), [Eq(AV[x][y], VL[x][y], name='eigen_equation_A_V_is_V_lam[%d%d]' % (x, y), scale=sc) for x in range(3) for y in range(3)] + [
                    Eq([G[0][1], G[0][2], G[1][2]], 0.0, name='eigenvectors_orthogonal', scale=1.0), nz,
                    Holds(v_and(v_le(lam[0], lam[1]), v_le(lam[1], lam[2])), name='ascending')]
            prove_coi(c, name, spec, cap=30)
