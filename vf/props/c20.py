"""C20 — VTK output is a well-formed dataset; repeated writes are identical (PX on the real VTKWriter source,
shape-symbolic arrays + file shim).

Symbolic run: the REAL source text of optimism/VTKWriter.py is executed (px.load_module) with
  * `np` replaced by `ShapeNP` whose arrays (`ShapeArr`) carry only a shape tuple of symbolic integers (+ dtype and a
    per-column value abstraction: constant fill / exclusive upper bound of the entries),
  * `open` replaced by a recorder, `write_matrix_as_table` by a stub emitting a TABLE token for the array it is given,
  * `str.format` of a symbolic integer (`SInt.__format__`) yielding a placeholder token that is parsed back to its term.
The recorded text is read by `read_legacy_vtk` (an independent reader of the legacy-VTK ASCII subset that counts what is
*declared* and what is *written* per section); the goals are integer (in)equalities between those z3 terms, decided by
the solver for all mesh/field sizes.
Replay of a model: a real Mesh namedtuple and real fields with the model's sizes are built (once with jax arrays, as the
library's meshes hold, once with plain numpy arrays), the real VTKWriter (real numpy, real write_matrix_as_table, real
file) writes a file that the same reader parses; the same goals are evaluated on the parsed numbers.
O0 validates the shape-level model against the real writer on concrete sizes (ground facts, not the check).
"""
import hashlib
import os
import re
import shutil
import tempfile
import warnings as _pywarnings

import numpy as onp
import z3

from ..core import obligation
from .. import px, sym
from ..px import SymReal, Unsupported
from ..sym import Le, Eq, Holds

P = 'C20'
REL = 'optimism/VTKWriter.py'

DESIGNED_NOT_REGISTERED = [
    ('number formatting (decimal text of a binary64 / integer value parses back to the same value)',
     'python/numpy repr round-trip, no solver content; value PLACEMENT is registered as O3'),
]


# ------------------------------------------------------------------------------------------ symbolic integers
_TOKENS = []          # placeholder id -> z3 term | ShapeArr   (reset per harness run)


def _tok(kind, obj):
    _TOKENS.append(obj)
    return '@%s%d@' % (kind, len(_TOKENS) - 1)


class SInt(SymReal):
    """symbolic integer (z3 Int term) that survives arithmetic and string formatting"""

    def _bin(self, o, f, swap=False):
        if isinstance(o, ShapeArr):
            return NotImplemented
        r = SymReal._bin(self, o, f, swap)
        return SInt(r.z) if type(r) is SymReal else r

    def __mul__(self, o):
        if isinstance(o, (int, onp.integer)) and not isinstance(o, bool):
            if o == 0:
                return 0
            if o == 1:
                return self
        return self._bin(o, lambda a, b: a * b)
    __rmul__ = __mul__

    def __neg__(self):
        return SInt(-self.z)

    def __format__(self, spec):
        return _tok('S', self.z)

    def __str__(self):
        return _tok('S', self.z)

    __hash__ = None


def _isym(x):
    return isinstance(x, SymReal)


def _zint(x):
    return x.z if _isym(x) else z3.IntVal(int(x))


def _same(a, b):
    """syntactically the same dimension"""
    if _isym(a) or _isym(b):
        return _isym(a) and _isym(b) and a.z.eq(b.z)
    return int(a) == int(b)


DEFINED = 'writer_runs_without_numpy_error'


def _require_eq(a, b, what):
    """a numpy operation needs the dimensions a and b to agree: concrete -> numpy's ValueError; symbolic -> a goal
    decided by the solver (then assumed, as numpy would have raised otherwise)"""
    if _same(a, b):
        return
    if not _isym(a) and not _isym(b):
        raise ValueError('%s: %s vs %s' % (what, a, b))
    ex = px.cur()
    ex.goal(DEFINED, Eq(px.unwrap(a), px.unwrap(b)), info='%s: %s == %s' % (what, px.unwrap(a), px.unwrap(b)))
    ex.assume(_zint(a) == _zint(b))


def _require_le(a, b, what):
    """index bound a <= b (a = exclusive upper bound of the indices, b = length of the indexed axis)"""
    if _same(a, b):
        return
    if not _isym(a) and not _isym(b):
        if int(a) > int(b):
            raise IndexError('%s: %s > %s' % (what, a, b))
        return
    ex = px.cur()
    ex.goal(DEFINED, Le(px.unwrap(a), px.unwrap(b)), info='%s: %s <= %s' % (what, px.unwrap(a), px.unwrap(b)))
    ex.assume(_zint(a) <= _zint(b))


def _smax(a, b):
    if a is None or b is None:
        return None
    if _same(a, b):
        return a
    if not _isym(a) and not _isym(b):
        return max(a, b)
    return SInt(z3.If(_zint(a) >= _zint(b), _zint(a), _zint(b)))


# ------------------------------------------------------------------------------------------ shape-symbolic arrays
def _col(fill=None, hi=None):
    return dict(fill=fill, hi=hi)


class ShapeArr:
    """an array of which only the shape (ints / SInt), the dtype and, per column (2-D with a concrete number of columns;
    a 1-D array counts as one column), a value abstraction are known: `fill` = every entry equals this constant, `hi` =
    entries are integers in [0, hi)."""
    __array_ufunc__ = None
    __array_priority__ = 1000
    __hash__ = None

    def __init__(self, shape, dtype=float, cols=None):
        self.shape = tuple(shape)
        self.dtype = onp.dtype(dtype)
        n = self._ncols()
        if cols is not None and n is not None and len(cols) == n:
            self.cols = [dict(c) for c in cols]
        else:
            self.cols = [_col() for _ in range(n)] if n is not None else None

    def _ncols(self):
        if len(self.shape) == 1:
            return 1
        if len(self.shape) == 2 and not _isym(self.shape[1]):
            return int(self.shape[1])
        return None

    @property
    def ndim(self):
        return len(self.shape)

    @property
    def size(self):
        r = 1
        for d in self.shape:
            r = d * r
        return r

    def __len__(self):
        if not self.shape:
            raise TypeError('len() of unsized object')
        if _isym(self.shape[0]):
            raise Unsupported('len() of an array with a symbolic number of rows')
        return int(self.shape[0])

    def __iter__(self):
        if not self.shape:
            raise TypeError('iteration over a 0-d array')
        if _isym(self.shape[0]):
            raise Unsupported('iteration over an array with a symbolic number of rows')
        return iter([self[i] for i in range(int(self.shape[0]))])

    def copy(self):
        return ShapeArr(self.shape, self.dtype, self.cols)

    def astype(self, dtype):
        return ShapeArr(self.shape, dtype, self.cols)

    def transpose(self, *axes):
        if len(axes) == 1 and isinstance(axes[0], (tuple, list)):
            axes = tuple(axes[0])
        if not axes or axes == (None,):
            axes = tuple(reversed(range(self.ndim)))
        if sorted(int(a) % max(self.ndim, 1) for a in axes) != list(range(self.ndim)):
            raise ValueError("axes don't match array")
        axes = [int(a) % self.ndim for a in axes]
        return ShapeArr([self.shape[a] for a in axes], self.dtype, self.cols if axes == list(range(self.ndim)) else None)

    @property
    def T(self):
        return self.transpose()

    def swapaxes(self, a, b):
        ax = list(range(self.ndim))
        ax[a], ax[b] = ax[b], ax[a]
        return self.transpose(ax)

    def ravel(self, *a, **k):
        return self.reshape((-1,))
    flatten = ravel

    def __repr__(self):
        return 'ShapeArr(%s, %s)' % (', '.join(str(px.unwrap(d)) for d in self.shape), self.dtype)

    def __format__(self, spec):
        raise Unsupported('formatting of a shape-symbolic array')

    def _cmp(self, o):
        return ShapeArr(self.shape, bool)
    __gt__ = __lt__ = __ge__ = __le__ = _cmp

    # -- reshape
    def reshape(self, *shape):
        if len(shape) == 1 and isinstance(shape[0], (tuple, list)):
            shape = tuple(shape[0])
        coef, syms = 1, []
        for d in self.shape:
            if _isym(d):
                syms.append(d)
            else:
                coef *= int(d)
        neg = [i for i, d in enumerate(shape) if not _isym(d) and int(d) == -1]
        if len(neg) > 1:
            raise ValueError('can only specify one unknown dimension')
        if neg:
            k, rest, exact = 1, list(syms), True
            for i, d in enumerate(shape):
                if i == neg[0]:
                    continue
                if _isym(d):
                    hit = [j for j, r in enumerate(rest) if r.z.eq(d.z)]
                    if hit:
                        rest.pop(hit[0])
                    else:
                        exact = False
                else:
                    k *= int(d)
            if exact and k != 0 and coef % k == 0:
                # the given dimensions divide the size syntactically: the free dimension is the product of what is left
                miss = coef // k
                for r in rest:
                    miss = r * miss
            elif not syms and not any(_isym(d) for d in shape):
                raise ValueError('cannot reshape array of size %d into shape %s' % (coef, shape))
            else:
                # general case: numpy needs the product of the given dimensions to divide the size (decided by the solver)
                den = 1
                for i, d in enumerate(shape):
                    if i != neg[0]:
                        den = d * den
                tot = self.size
                ex = px.cur()
                zt, zd = _zint(tot), _zint(den)
                ex.goal(DEFINED, Holds(z3.And(zd > 0, zt % zd == 0)), info='reshape %s -> %s: %s divides %s' % (self, [px.unwrap(d) for d in shape], zd, zt))
                ex.assume(z3.And(zd > 0, zt % zd == 0))
                miss = SInt(zt / zd)
            new = tuple(miss if i == neg[0] else (d if _isym(d) else int(d)) for i, d in enumerate(shape))
        else:
            new = tuple(d if _isym(d) else int(d) for d in shape)
            tot = 1
            for d in new:
                tot = d * tot
            _require_eq(self.size, tot, 'reshape keeps the number of entries')
        keep = self.cols if (self.cols is not None and len(self.cols) == 1 and len(new) in (1, 2) and (len(new) == 1 or _same(new[1], 1))) else None
        return ShapeArr(new, self.dtype, keep)

    # -- indexing
    def _index(self, key):
        """shape and column abstraction of self[key]"""
        if not isinstance(key, tuple):
            key = (key,)
        if len(key) > self.ndim:
            raise IndexError('too many indices for array')
        key = key + (slice(None),) * (self.ndim - len(key))
        colax = self.ndim - 1 if self.ndim in (1, 2) else None
        cols = self.cols
        out = []
        whole = True        # every row of every kept column is addressed (for __setitem__ bookkeeping)
        for ax, k in enumerate(key):
            n = self.shape[ax]
            if isinstance(k, slice):
                if k.step not in (None, 1):
                    raise Unsupported('strided slice')
                if k.start in (None, 0) and k.stop is None:
                    out.append(n)
                    continue
                start = 0 if k.start is None else k.start
                stop = n if k.stop is None else k.stop
                if not _isym(start) and not _isym(stop) and not _isym(n):
                    rng = range(*slice(int(start), int(stop)).indices(int(n)))
                    ln = len(rng)
                    if ax == colax and self.ndim == 2 and cols is not None:
                        cols = [cols[j] for j in rng]
                else:
                    if (not _isym(start) and int(start) < 0) or (not _isym(stop) and int(stop) < 0):
                        raise Unsupported('negative slice bound on an axis of symbolic length')
                    # symbolic bounds are sizes (>= 0 by construction of the harness inputs): numpy clips both to n
                    zs, ze, zn = _zint(start), _zint(stop), _zint(n)
                    lo, hi = z3.If(zs <= zn, zs, zn), z3.If(ze <= zn, ze, zn)
                    ln = SInt(z3.simplify(z3.If(hi >= lo, hi - lo, z3.IntVal(0))))
                    if ax == colax and self.ndim == 2:
                        cols = None
                if ax != colax or self.ndim == 1:
                    whole = False
                out.append(ln)
            elif isinstance(k, (int, onp.integer)) and not isinstance(k, bool):
                k = int(k)
                if k < 0:
                    raise Unsupported('negative integer index')
                _require_le(k + 1, n, 'integer index %d within axis %d' % (k, ax))
                if self.ndim == 2 and cols is not None:
                    cols = [cols[k]] if ax == 1 else [_col()]
                if not (ax == colax and self.ndim == 2):
                    whole = False
            elif isinstance(k, ShapeArr):
                if k.ndim != 1 or k.dtype.kind not in 'iu':
                    raise Unsupported('fancy index that is not a 1-d integer array')
                hi = k.cols[0]['hi']
                if hi is None:
                    raise Unsupported('fancy index without a known bound')
                _require_le(hi, n, 'fancy index within axis %d' % ax)
                out.append(k.shape[0])
                if ax == colax and self.ndim == 2:
                    cols = None
                whole = False
            else:
                idx = onp.asarray(k)
                if idx.ndim != 1 or idx.dtype.kind not in 'iu':
                    raise Unsupported('index of type %s' % type(k).__name__)
                if idx.size:
                    if int(idx.min()) < 0:
                        raise Unsupported('negative fancy index')
                    _require_le(int(idx.max()) + 1, n, 'fancy index within axis %d' % ax)
                out.append(int(idx.size))
                if ax == colax and self.ndim == 2 and cols is not None:
                    cols = [cols[int(j)] for j in idx]
                elif ax != colax:
                    whole = False
        return tuple(out), cols, whole, key

    def __getitem__(self, key):
        shape, cols, _, _ = self._index(key)
        return ShapeArr(shape, self.dtype, cols if len(shape) in (1, 2) else None)

    def __setitem__(self, key, value):
        shape, _, whole, nkey = self._index(key)
        v = _lift(value)
        # numpy broadcasting of the value against the addressed block
        if v.ndim > len(shape):
            raise ValueError('could not broadcast input array from shape %s into shape %s' % (v.shape, shape))
        for i in range(1, v.ndim + 1):
            if not (not _isym(v.shape[-i]) and int(v.shape[-i]) == 1):
                _require_eq(v.shape[-i], shape[-i], 'slice assignment: value axis -%d matches the target block' % i)
        # column abstraction of the target
        if self.ndim == 2 and self.cols is not None:
            ck = nkey[1]
            if isinstance(ck, slice) and not _isym(ck.start) and not _isym(ck.stop) and ck.step in (None, 1) and not _isym(self.shape[1]) and whole:
                js = list(range(*ck.indices(int(self.shape[1]))))
                src = v.cols if (v.ndim == 2 and v.cols is not None and len(v.cols) == len(js)) else None
                for i, j in enumerate(js):
                    self.cols[j] = dict(src[i]) if src is not None else _col()
            else:
                self.cols = [_col() for _ in self.cols]
        elif self.cols is not None:
            self.cols = [_col() for _ in self.cols]


def _lift(x):
    """anything array-like -> ShapeArr"""
    if isinstance(x, ShapeArr):
        return x
    if _isym(x):
        return ShapeArr((), onp.int64)
    a = onp.asarray(x)
    if a.dtype == object:
        raise Unsupported('object array reached the shape-symbolic numpy shim')
    cols = None
    if a.ndim in (1, 2) and a.size:
        cc = a.reshape(-1, 1) if a.ndim == 1 else a
        cols = []
        for j in range(cc.shape[1]):
            c = cc[:, j]
            fill = c[0].item() if (c == c[0]).all() else None
            hi = int(c.max()) + 1 if (a.dtype.kind in 'iu' and c.min() >= 0) else None
            cols.append(_col(fill, hi))
    return ShapeArr(a.shape, a.dtype, cols)


def _merge_cols(ca, cb):
    out = []
    for a, b in zip(ca, cb):
        fill = a['fill'] if (a['fill'] is not None and b['fill'] is not None and a['fill'] == b['fill']) else None
        out.append(_col(fill, _smax(a['hi'], b['hi'])))
    return out


def _all_real(arrs):
    return not any(isinstance(a, ShapeArr) or _isym(a) for a in arrs)


class ShapeNP:
    """the `np` the module under test sees in the symbolic run: array constructors / stacking on ShapeArr, everything
    else is real numpy (and fails loudly on a ShapeArr)"""

    def __getattr__(self, name):
        return getattr(onp, name)

    def arange(self, n, *a, **k):
        if not _isym(n) and not any(_isym(x) for x in a):
            return onp.arange(n, *a, **k)
        if a or k:
            raise Unsupported('arange with more than one argument')
        return ShapeArr((n,), onp.int64, [_col(None, n)])

    def array(self, v, dtype=None, **k):
        if isinstance(v, ShapeArr):
            return v.copy() if dtype is None else v.astype(dtype)
        return onp.array(v, dtype=dtype)

    def asarray(self, v, dtype=None, **k):
        if isinstance(v, ShapeArr):
            return v if dtype is None else v.astype(dtype)
        return onp.asarray(v, dtype=dtype)

    def zeros(self, shape, dtype=float, **k):
        if not isinstance(shape, (tuple, list)):
            shape = (shape,)
        r = ShapeArr(shape, dtype)
        if r.cols is not None:
            r.cols = [_col(0, None) for _ in r.cols]
        return r

    def tile(self, v, reps):
        if isinstance(v, ShapeArr) or onp.ndim(v) != 0:
            raise Unsupported('tile of a non-scalar')
        if not isinstance(reps, (tuple, list)):
            reps = (reps,)
        r = ShapeArr(tuple(reps), onp.asarray(v).dtype)
        if r.cols is not None:
            vv = onp.asarray(v).item()
            r.cols = [_col(vv, (vv + 1) if (isinstance(vv, int) and vv >= 0) else None) for _ in r.cols]
        return r

    def concatenate(self, arrs, axis=0):
        if _all_real(arrs):
            return onp.concatenate(arrs, axis=axis)
        arrs = [_lift(a) for a in arrs]
        nd = arrs[0].ndim
        if nd == 0:
            raise ValueError('zero-dimensional arrays cannot be concatenated')
        for a in arrs:
            if a.ndim != nd:
                raise ValueError('all the input array dimensions except for the concatenation axis must match exactly (ndim %d vs %d)' % (nd, a.ndim))
        if not 0 <= axis < nd:
            raise ValueError('axis %d is out of bounds for array of dimension %d' % (axis, nd))
        shape = list(arrs[0].shape)
        for a in arrs[1:]:
            for ax in range(nd):
                if ax == axis:
                    shape[ax] = shape[ax] + a.shape[ax]
                else:
                    _require_eq(arrs[0].shape[ax], a.shape[ax], 'concatenate along axis %d: axis %d agrees' % (axis, ax))
        cols = None
        if nd <= 2 and all(a.cols is not None for a in arrs):
            if nd == 2 and axis == 1:
                cols = [c for a in arrs for c in a.cols]
            else:
                cols = arrs[0].cols
                for a in arrs[1:]:
                    cols = _merge_cols(cols, a.cols)
        dt = onp.result_type(*[a.dtype for a in arrs])
        return ShapeArr(shape, dt, cols)

    def vstack(self, arrs):
        if _all_real(arrs):
            return onp.vstack(arrs)
        out = []
        for a in arrs:
            a = _lift(a)
            if a.ndim == 0:
                a = ShapeArr((1, 1), a.dtype, a.cols)
            elif a.ndim == 1:
                if _isym(a.shape[0]):
                    raise Unsupported('vstack of a 1-d array of symbolic length')
                a = ShapeArr((1, a.shape[0]), a.dtype, [a.cols[0]] * int(a.shape[0]))
            out.append(a)
        return self.concatenate(out, axis=0)

    def hstack(self, arrs):
        if _all_real(arrs):
            return onp.hstack(arrs)
        out = []
        for a in arrs:
            a = _lift(a)
            if a.ndim == 0:
                a = ShapeArr((1,), a.dtype, a.cols)
            out.append(a)
        return self.concatenate(out, axis=0 if out[0].ndim == 1 else 1)


# ------------------------------------------------------------------------------------------ file shim and reader
class RecFile:
    def __init__(self, name, mode):
        self.name, self.mode, self.parts, self.closed = name, mode, [], False

    def write(self, s):
        if self.closed:
            raise ValueError('I/O operation on closed file')
        if not isinstance(s, str):
            raise TypeError('write() argument must be str, not %s' % type(s).__name__)
        self.parts.append(s)
        return len(s)

    def close(self):
        self.closed = True

    def __enter__(self):
        return self

    def __exit__(self, *a):
        self.close()

    def text(self):
        return ''.join(self.parts)


def table_stub(A):
    """stands for VTKWriter.write_matrix_as_table: one text row per row of A, one number per column (number formatting is
    outside the claim)"""
    if isinstance(A, ShapeArr):
        if A.ndim != 2:
            raise TypeError('write_matrix_as_table needs a 2-d array (got %d-d): iteration over a row of scalars fails' % A.ndim)
        return _tok('A', A)
    a = onp.asarray(A)
    if a.ndim != 2:
        raise TypeError('write_matrix_as_table needs a 2-d array')
    return '\n'.join(' '.join('{}'.format(x) for x in y) for y in a)


KEYWORDS = ('POINTS', 'CELLS', 'CELL_TYPES', 'POINT_DATA', 'CELL_DATA', 'SCALARS', 'LOOKUP_TABLE', 'VECTORS', 'TENSORS',
            'NORMALS', 'TEXTURE_COORDINATES', 'FIELD', 'COLOR_SCALARS', 'DATASET')
_TOKRE = re.compile(r'^@([SA])(\d+)@$')


def _word(w):
    m = _TOKRE.match(w)
    if m:
        return _TOKENS[int(m.group(2))]
    try:
        return int(w)
    except ValueError:
        pass
    try:
        return float(w)
    except ValueError:
        return w


def _literal_kind(v):
    """'i' for an integer literal (or a term of integer sort), 'f' for a literal with a decimal point / exponent (or a term of
    real sort), 's' for anything that is not a number"""
    if isinstance(v, bool):
        return 's'
    if isinstance(v, int):
        return 'i'
    if isinstance(v, float):
        return 'f'
    if sym.isz(v):
        return 'i' if z3.is_int(v) else 'f'
    return 's'


INTEGER_TYPES = ('bit', 'unsigned_char', 'char', 'unsigned_short', 'short', 'unsigned_int', 'int', 'unsigned_long', 'long')


def _kind_ok(declared, kinds):
    """a type-honouring reader: an array declared with an integer type holds integer literals only; float/double arrays hold
    numbers (an integer literal is a valid float)"""
    return kinds <= ({'i'} if declared in INTEGER_TYPES else {'i', 'f'})


def _is_intlike(v):
    return (isinstance(v, int) and not isinstance(v, bool)) or sym.isz(v)


def read_legacy_vtk(text):
    """independent reader of the legacy-VTK ASCII subset: returns (header lines, sections); a section is the keyword line
    (keyword + arguments) and the data rows that follow it up to the next keyword line, run-length encoded into chunks
    {rows, cols, lead (common first entry of the rows, if an integer), his (exclusive bounds of the other columns) | ids}.
    It does not trust any declared count: it counts what is there."""
    lines = text.split('\n')
    header, secs = lines[:4], []
    for ln in lines[4:]:
        words = ln.split()
        if not words:
            continue
        if words[0] in KEYWORDS:
            secs.append(dict(kw=words[0], args=[_word(w) for w in words[1:]], chunks=[], kinds=set()))
            continue
        if not secs:
            secs.append(dict(kw='<data before any section>', args=[], chunks=[], kinds=set()))
        vals = [_word(w) for w in words]
        if len(vals) == 1 and isinstance(vals[0], ShapeArr):        # symbolic run only: a whole table
            A = vals[0]
            symcols = _isym(A.shape[1]) or A.cols is None
            secs[-1]['kinds'].add({'i': 'i', 'u': 'i', 'b': 'i', 'f': 'f'}.get(A.dtype.kind, A.dtype.kind))
            secs[-1]['chunks'].append(dict(rows=px.unwrap(A.shape[0]), cols=px.unwrap(A.shape[1]) if _isym(A.shape[1]) else int(A.shape[1]),
                                           lead=None if symcols else A.cols[0]['fill'],
                                           his=[None] if symcols else [px.unwrap(c['hi']) for c in A.cols[1:]], ids=None, table=True))
            continue
        if any(isinstance(v, ShapeArr) for v in vals):
            raise Unsupported('table token inside a text row')
        secs[-1].setdefault('lines', []).append(vals)
        secs[-1]['kinds'].update(_literal_kind(v) for v in vals)
        lead = vals[0] if _is_intlike(vals[0]) else None
        ch = secs[-1]['chunks']
        if ch and not ch[-1].get('table') and ch[-1]['cols'] == len(vals) and not sym.isz(lead) and not sym.isz(ch[-1]['lead']) and ch[-1]['lead'] == lead:
            ch[-1]['rows'] += 1
            ch[-1]['ids'].append(vals[1:])
        else:
            ch.append(dict(rows=1, cols=len(vals), lead=lead, his=None, ids=[vals[1:]], table=False))
    return header, secs


def _rows(sec):
    return sym.v_sum([c['rows'] for c in sec['chunks']])


def _nvals(sec):
    return sym.v_sum([sym.v_mul(c['rows'], c['cols']) for c in sec['chunks']])


def _show(x):
    return str(x)


HEADER = ['# vtk DataFile Version 3.0', None, 'ASCII', 'DATASET UNSTRUCTURED_GRID']
ARRAY_KW = {'SCALARS': 1, 'VECTORS': 3, 'TENSORS': 3}
ROWS_PER_RECORD = {'SCALARS': 1, 'VECTORS': 1, 'TENSORS': 3}
CELL_NODES = {5: 3, 22: 6, 3: 2}     # VTK_TRIANGLE, VTK_QUADRATIC_TRIANGLE, VTK_LINE


def _arrays(secs, i):
    """data arrays following secs[i] (a POINT_DATA / CELL_DATA line): (kind, name, dtype, data section)"""
    out = []
    i += 1
    while i < len(secs) and secs[i]['kw'] in ARRAY_KW:
        s = secs[i]
        kind, name, dt = s['kw'], (s['args'] + [None, None])[0], (s['args'] + [None, None])[1]
        data = s
        if kind == 'SCALARS':
            if i + 1 < len(secs) and secs[i + 1]['kw'] == 'LOOKUP_TABLE' and not s['chunks']:
                data = secs[i + 1]
                i += 1
            else:
                data = None
        out.append((kind, str(name), str(dt), data))
        i += 1
    return out, i


def file_goals(ex, text, expect, tag=''):
    """well-formedness goals of one written file (symbolic token text or real file text). expect: dict(point_arrays,
    cell_arrays) = lists of (kind, name, dtype) the harness knows to have been accepted."""
    header, secs = read_legacy_vtk(text)
    G = ex.goal
    G('header_lines', Holds(len(header) == 4 and all(h is None or h == g for h, g in zip(HEADER, header))), info=header)
    kws = [s['kw'] for s in secs]
    ok = kws[:3] == ['POINTS', 'CELLS', 'CELL_TYPES']
    i, parr, carr, pdecl, cdecl = 3, [], [], None, None
    if ok and i < len(secs) and kws[i] == 'POINT_DATA':
        pdecl = secs[i]
        parr, i = _arrays(secs, i)
    if ok and i < len(secs) and kws[i] == 'CELL_DATA':
        cdecl = secs[i]
        carr, i = _arrays(secs, i)
    ok = ok and i == len(secs) and all(a[3] is not None for a in parr + carr)
    ok = ok and all(len(s['args']) == n for s, n in ((secs[0], 2), (secs[1], 2), (secs[2], 1))) if ok else False
    ok = ok and all(len(s['args']) == 1 and _is_intlike(s['args'][0]) for s in (pdecl, cdecl) if s is not None)
    G('sections_in_legacy_order', Holds(ok), info=kws)
    if not ok:
        return None
    pts, cells, types = secs[0], secs[1], secs[2]
    npts, ncells = pts['args'][0], cells['args'][0]
    # ---- POINTS
    G('points_declared_eq_rows_written', Eq(npts, _rows(pts)), info='POINTS %s vs %s coordinate rows' % (_show(npts), _show(_rows(pts))))
    G('points_rows_have_3_doubles', Eq([c['cols'] for c in pts['chunks']], [3] * len(pts['chunks'])) if pts['args'][1] == 'double' else Holds(False))
    # ---- CELLS
    G('cells_declared_count_eq_rows_written', Eq(ncells, _rows(cells)), info='CELLS %s vs %s rows' % (_show(ncells), _show(_rows(cells))))
    G('cells_declared_size_eq_integers_written', Eq(cells['args'][1], _nvals(cells)),
      info='CELLS size %s vs %s integers' % (_show(cells['args'][1]), _show(_nvals(cells))))
    G('cells_row_starts_with_its_node_count', Holds(all(_is_intlike(c['lead']) and not sym.isz(c['lead']) and not sym.isz(c['cols']) and c['lead'] == c['cols'] - 1 for c in cells['chunks'])),
      info=[(c['lead'], c['cols']) for c in cells['chunks']])
    for c in cells['chunks']:
        if c['table']:
            for hi in c['his']:
                G('cells_connectivity_within_points', Holds(False) if hi is None else Le(hi, npts), info='ids < %s, POINTS %s' % (_show(hi), _show(npts)))
        else:
            for row in c['ids']:
                for v in row:
                    G('cells_connectivity_within_points', Holds(_is_intlike(v)) if not _is_intlike(v) else Le(v + 1, npts), info='id %s, POINTS %s' % (_show(v), _show(npts)))
                    if _is_intlike(v):
                        G('cells_connectivity_within_points', Le(0, v))
    # ---- against what was handed to the writer
    G('points_declared_eq_output_nodes_plus_spheres', Eq(npts, px.unwrap(expect['n_points'])), info='POINTS %s vs expected %s' % (_show(npts), _show(px.unwrap(expect['n_points']))))
    G('cells_declared_eq_elements_plus_contact_edges', Eq(ncells, px.unwrap(expect['n_cells'])), info='CELLS %s vs expected %s' % (_show(ncells), _show(px.unwrap(expect['n_cells']))))
    # ---- CELL_TYPES
    G('cell_types_declared_eq_rows_written', Eq(types['args'][0], _rows(types)), info='CELL_TYPES %s vs %s rows' % (_show(types['args'][0]), _show(_rows(types))))
    G('cell_types_declared_eq_cells_declared', Eq(types['args'][0], ncells), info='CELL_TYPES %s vs CELLS %s' % (_show(types['args'][0]), _show(ncells)))
    tch, cch = types['chunks'], cells['chunks']
    match = len(tch) == len(cch) and all(not sym.isz(t['cols']) and not sym.isz(c['cols']) and t['cols'] == 1 and not sym.isz(t['lead']) and CELL_NODES.get(t['lead']) == c['cols'] - 1 for t, c in zip(tch, cch))
    G('cell_type_matches_nodes_per_cell', Holds(match), info=[(t['lead'], t['cols']) for t in tch] + ['cells'] + [(c['lead'], c['cols']) for c in cch])
    G('cell_type_runs_match_cell_runs', Eq([t['rows'] for t in tch], [c['rows'] for c in cch]) if len(tch) == len(cch) else Holds(False),
      info='runs of equal cell type %s vs runs of equal row length in CELLS %s' % ([_show(t['rows']) for t in tch], [_show(c['rows']) for c in cch]))
    # ---- POINT_DATA / CELL_DATA
    G('point_data_section_iff_point_arrays_expected', Holds((pdecl is not None) == bool(expect['point_arrays'])))
    G('cell_data_section_iff_cell_arrays_expected', Holds((cdecl is not None) == bool(expect['cell_arrays'])))
    G('data_arrays_are_the_accepted_fields_in_order', Holds([a[:3] for a in parr] == [tuple(map(str, a)) for a in expect['point_arrays']] and
                                                            [a[:3] for a in carr] == [tuple(map(str, a)) for a in expect['cell_arrays']]),
      info=dict(found=[a[:3] for a in parr + carr], expected=expect))
    if pdecl is not None:
        G('point_data_declared_eq_points_declared', Eq(pdecl['args'][0], npts), info='POINT_DATA %s vs POINTS %s' % (_show(pdecl['args'][0]), _show(npts)))
    if cdecl is not None:
        G('cell_data_declared_eq_cells_declared', Eq(cdecl['args'][0], ncells), info='CELL_DATA %s vs CELLS %s' % (_show(cdecl['args'][0]), _show(ncells)))
    for arrs, n, what in ((parr, npts, 'point'), (carr, ncells, 'cell')):
        for kind, name, dt, data in arrs:
            gname = 'sphere_radius_records_eq_points_declared' if (what == 'point' and name == 'sphere_radius') else '%s_array_records_eq_%ss_declared' % (what, what)
            G(gname, Eq(_rows(data), sym.v_mul(ROWS_PER_RECORD[kind], n)),
              info='%s %s: %s rows written, %d row(s) per record, %sS %s' % (kind, name, _show(_rows(data)), ROWS_PER_RECORD[kind], what.upper(), _show(n)))
            G('%s_array_rows_have_the_kind_width' % what, Eq([c['cols'] for c in data['chunks']], [ARRAY_KW[kind]] * len(data['chunks'])),
              info='%s %s: rows of %s numbers' % (kind, name, [_show(c['cols']) for c in data['chunks']]))
            G('array_rows_have_the_declared_data_type_kind', Holds(_kind_ok(dt, data['kinds'])),
              info='%s array %s %s declared %r holds literals of kind %s (i = integer, f = floating point)' % (what, kind, name, dt, sorted(data['kinds'])))
    return header, secs


def _signature(secs):
    """(structure, numbers) of a parsed file, for comparing two writes: keyword lines, and per section the declared
    integers, the number of rows and the number of values written (independent of the run-length encoding)"""
    struct, nums = [], []
    for s in secs:
        struct.append((s['kw'], tuple(a if isinstance(a, str) else '#' for a in s['args']), tuple(sorted({_show(c['cols']) for c in s['chunks']})), tuple(sorted(s['kinds']))))
        nums += [a for a in s['args'] if not isinstance(a, str)]
        nums += [_rows(s), _nvals(s)]
    return struct, nums


def rewrite_goals(ex, first, later, k):
    """write() number k (k >= 2) against the first one"""
    (h1, s1), (h2, s2) = first, later
    st1, n1 = _signature(s1)
    st2, n2 = _signature(s2)
    same = (h1 == h2 and st1 == st2 and len(n1) == len(n2))
    ex.goal('repeated_write_same_sections', Holds(same), info='write 1: %s | write %d: %s' % ([x[0] for x in st1], k, [x[0] for x in st2]))
    if same and n1:
        diff = [(_show(a), _show(b)) for a, b in zip(n1, n2) if not (sym.isz(a) and sym.isz(b) and a.eq(b)) and not (not sym.isz(a) and not sym.isz(b) and a == b)]
        ex.goal('repeated_write_same_counts', Eq(n1, n2), info='write 1 vs write %d (declared counts and rows written that are not literally the same): %s' % (k, diff[:6]))


# ------------------------------------------------------------------------------------------ harness
FIELD_SETS = {
    # (where, name, kind, dtype name, layout)   layout: '1d' | 'col' for scalars
    'none': [],
    'nodal_svt': [('node', 'temperature', 'SCALARS', 'DOUBLE', '1d'), ('node', 'displacement', 'VECTORS', 'DOUBLE', None), ('node', 'stress', 'TENSORS', 'INT', None)],
    'cell_svt': [('cell', 'cell_id', 'SCALARS', 'INT', '1d'), ('cell', 'flux', 'VECTORS', 'DOUBLE', None), ('cell', 'strain', 'TENSORS', 'DOUBLE', None)],
    'mixed': [('node', 'flag', 'SCALARS', 'INT', 'col'), ('cell', 'energy', 'SCALARS', 'DOUBLE', 'col'), ('node', 'velocity', 'VECTORS', 'FLOAT', None),
              ('cell', 'stress', 'TENSORS', 'INT', None)],
    # thorough
    'cell_first_many_types': [('cell', 'c_uchar', 'SCALARS', 'UNSIGNED_CHAR', '1d'), ('node', 'n_long', 'VECTORS', 'LONG', None), ('cell', 'c_float', 'TENSORS', 'FLOAT', None),
                              ('node', 'n_bit', 'SCALARS', 'BIT', 'col'), ('node', 'n_short', 'TENSORS', 'SHORT', None), ('cell', 'c_uint', 'VECTORS', 'UNSIGNED_INT', None)],
    'nodal_tensor_only': [('node', 'stress', 'TENSORS', 'DOUBLE', None)],
    'cell_scalar_only': [('cell', 'cell_id', 'SCALARS', 'INT', '1d')],
}
EDGE_PATTERNS = {'none': (), 'one_call_1': (1,), 'one_call_2': (2,), 'two_calls_1_1': (1, 1), 'empty_then_1': (0, 1), 'two_calls_2_1': (2, 1)}
NP_DTYPE = {'DOUBLE': onp.float64, 'FLOAT': onp.float32, 'INT': onp.int32, 'LONG': onp.int64, 'SHORT': onp.int16, 'UNSIGNED_CHAR': onp.uint8,
            'BIT': onp.uint8, 'UNSIGNED_INT': onp.uint32}


def choose(ex, name, options):
    """an input that selects one of finitely many configurations: a symbolic integer, forked into its values"""
    k = ex.int(name)
    ex.assume(k >= 0)
    ex.assume(k <= len(options) - 1)
    for i in range(len(options) - 1):
        if bool(k == i):
            return options[i]
    return options[-1]


def _sint(ex, name):
    v = ex.int(name)
    return SInt(v.z) if ex.symbolic else int(v)


def _parent_elements(deg, bubble=False):
    """the real parent elements: plain Lagrange, or bubble-enriched (interior bubble nodes are numbered after the boundary nodes)"""
    from optimism import Interpolants
    pe = Interpolants.make_parent_element_2d_with_bubble(deg) if bubble else Interpolants.make_parent_element_2d(deg)
    return pe, Interpolants.make_parent_element_1d(deg)


def _element_kind(ex, deg):
    """plain or bubble-enriched element (input of the harness, forked); the kinds coincide for degree 1"""
    return choose(ex, 'elementKind_index', ['lagrange', 'bubble']) == 'bubble' if deg >= 2 else False


class SymMesh:
    """what VTKWriter reads of a Mesh (coords, conns, simplexNodesOrdinals, parentElement), shape-symbolic"""

    def __init__(self, deg, nNodes, nSimplex, nElements, bubble=False):
        pe, _ = _parent_elements(deg, bubble)
        npe = int(pe.coordinates.shape[0])
        vert = [int(v) for v in onp.asarray(pe.vertexNodes)]
        self.coords = ShapeArr((nNodes, 2), onp.float64)
        # mesh invariant (Mesh.create_higher_order_mesh_from_simplex_mesh): vertex columns hold simplex-node ids
        self.conns = ShapeArr((nElements, npe), onp.int64, [_col(None, nSimplex if j in vert else nNodes) for j in range(npe)])
        self.simplexNodesOrdinals = ShapeArr((nSimplex,), onp.int64, [_col(None, nSimplex)])
        self.parentElement = pe


def real_mesh(deg, nNodes, nSimplex, nElements, xp, bubble=False):
    """a real optimism Mesh namedtuple (jax or numpy arrays, the real parent element) with exactly these array sizes. The
    writer reads only sizes, coordinates and the vertex columns of conns, so the arrays need not be a conforming
    triangulation."""
    from optimism import Mesh
    pe, pe1 = _parent_elements(deg, bubble)
    npe = int(pe.coordinates.shape[0])
    vert = [int(v) for v in onp.asarray(pe.vertexNodes)]
    ii = onp.arange(nNodes)
    coords = onp.stack([(ii % 7) * 0.5, (ii // 7) * 0.25], axis=1)
    conns = onp.zeros((nElements, npe), dtype=onp.int64)
    for j in range(npe):
        bound = nSimplex if j in vert else nNodes
        conns[:, j] = (bound - 1 - onp.arange(nElements) * (j + 1)) % bound      # element 0 attains the largest admissible id in every column
    return Mesh.Mesh(coords=xp.array(coords), conns=xp.array(conns), simplexNodesOrdinals=xp.arange(nSimplex),
                     parentElement=pe, parentElement1d=pe1, blocks={'block_0': xp.arange(nElements)}, nodeSets=None, sideSets=None)


class WarnRecorder:
    def __init__(self):
        self.calls = []

    def warn(self, msg, *a, **k):
        self.calls.append(str(msg))


def _snapshot(W, only=None):
    """names, kinds and array shapes of what add_* registered on the writer (its state between add_* calls and write());
    only: restrict to these (dict, name) entries (entries that write() itself manages, like sphere_radius, are not compared)"""
    try:
        struct, dims = [], []
        for dn in ('nodalFields', 'cellFields'):
            for key, rec in getattr(W, dn).items():
                if only is not None and (dn, key) not in only:
                    continue
                struct.append((dn, key, str(rec.fieldType), str(rec.dataType), len(rec.data.shape)))
                dims += [px.unwrap(d) for d in rec.data.shape]
        struct.append(('spheres', len(W.spheres), len(W.sphereRadii)))
        struct.append(('contactEdges', len(W.contactEdges.shape)))
        dims += [int(d) for d in W.contactEdges.shape]
    except AttributeError as e:
        raise Unsupported('VTKWriter state attributes changed: %s' % e)
    return struct, dims


CODE_ERRORS = (ValueError, IndexError, TypeError, AssertionError, KeyError, AttributeError)


def make_harness(degrees, sphere_counts, edge_patterns, field_sets, nwrites=2, shared_cell_rows=True, collect=None):
    def fn(ex):
        del _TOKENS[:]
        symbolic = ex.symbolic
        # ---------------- inputs (drawn once, in the same order in the symbolic run and in a replay)
        deg = choose(ex, 'degree_index', list(degrees))
        nNodes, nSimplex, nElements = _sint(ex, 'nNodes'), _sint(ex, 'nSimplexNodes'), _sint(ex, 'nElements')
        ex.assume(nSimplex >= 3)
        ex.assume(nElements >= 1)
        if deg == 1:
            ex.assume(nNodes == nSimplex)
        else:
            ex.assume(nNodes >= nSimplex + 3 * (deg - 1))      # every one of the >= 3 edges carries deg-1 extra nodes
        bubble = _element_kind(ex, deg)
        nsph = choose(ex, 'nSpheres', list(sphere_counts))
        edges = EDGE_PATTERNS[choose(ex, 'edgePattern', list(edge_patterns))]
        fset = choose(ex, 'fieldSet', list(field_sets))
        fields = FIELD_SETS[fset]
        sd = _sint(ex, 'fieldSpatialDim')
        ex.assume(sd >= 1)
        ex.assume(sd <= 3)
        rows = {}
        if shared_cell_rows and any(f[0] == 'cell' for f in fields):
            rows['cell'] = _sint(ex, 'rows_cell')
            ex.assume(rows['cell'] >= 0)
        for where, name, kind, dtname, layout in fields:
            if where == 'node':
                rows[name] = _sint(ex, 'rows_' + name)
                ex.assume(rows[name] >= nNodes)         # nodal data: (at least) one row per mesh node
            elif 'cell' not in rows:
                rows[name] = _sint(ex, 'rows_' + name)
                ex.assume(rows[name] >= 0)
        cfg = dict(degree=deg, element='bubble' if bubble else 'lagrange', spheres=nsph, edges=edges, fieldSet=fset)
        if not symbolic:
            for nm, v in (('nNodes', nNodes), ('nSimplexNodes', nSimplex), ('nElements', nElements)):
                if v > 2_000_000:
                    raise Unsupported('replay: model size %s = %d is too large to build' % (nm, v))
        ex.note('config %s sizes nNodes=%s nSimplexNodes=%s nElements=%s' % (cfg, px.unwrap(nNodes), px.unwrap(nSimplex), px.unwrap(nElements)))

        # ---------------- one execution of the real source: on shape-symbolic arrays, or (replay) on real jax / numpy arrays
        def run(backend):
            mod = px.load_module(REL)
            files, tmpdir = [], None
            if backend == 'shape':
                mod.np = ShapeNP()
                mod.write_matrix_as_table = table_stub
                mod.warnings = WarnRecorder()

                def open_shim(name, mode='r', *a, **k):
                    files.append(RecFile(name, mode))
                    return files[-1]
                mod.open = open_shim
                mesh = SymMesh(deg, nNodes, nSimplex, nElements, bubble)
                base = 'c20_symbolic'
            else:
                if backend == 'jax':
                    import jax.numpy as xp
                else:
                    xp = onp
                mesh = real_mesh(deg, nNodes, nSimplex, nElements, xp, bubble)
                tmpdir = tempfile.mkdtemp(prefix='c20_replay_')
                base = os.path.join(tmpdir, 'out')

            def make_field(nrows, kind, dtname, layout):
                dt = NP_DTYPE[dtname]
                shape = {'SCALARS': (nrows,) if layout == '1d' else (nrows, 1), 'VECTORS': (nrows, sd), 'TENSORS': (nrows, sd, sd)}[kind]
                if backend == 'shape':
                    return ShapeArr(shape, dt)
                n = 1
                for d in shape:
                    n *= d
                return xp.array((onp.arange(n) % 5).astype(dt).reshape(shape))

            expect = dict(point_arrays=[], cell_arrays=[])
            texts = []
            try:
                with _pywarnings.catch_warnings():
                    _pywarnings.simplefilter('ignore')
                    W = mod.VTKWriter(mesh, baseFileName=base)
                    for where, name, kind, dtname, layout in fields:
                        ft, dt = getattr(mod.VTKFieldType, kind), getattr(mod.VTKDataType, dtname)
                        if where == 'node':
                            W.add_nodal_field(name=name, nodalData=make_field(rows[name], kind, dtname, layout), fieldType=ft, dataType=dt)
                            expect['point_arrays'].append((kind, name, dt.value))
                        else:
                            r = rows['cell'] if 'cell' in rows else rows[name]
                            W.add_cell_field(name=name, cellData=make_field(r, kind, dtname, layout), fieldType=ft, dataType=dt)
                            if bool(r == nElements):     # the writer's own acceptance rule (a size mismatch is skipped with a warning)
                                expect['cell_arrays'].append((kind, name, dt.value))
                    for k in range(nsph):
                        W.add_sphere(onp.array([0.25 * k, 1.5]), 0.5 + k)
                    e0 = 0
                    for cnt in edges:
                        W.add_contact_edges(onp.array([[e0 + i, (e0 + i + 1) % 3] for i in range(cnt)], dtype=onp.int64).reshape(cnt, 2))
                        e0 += cnt
                    if nsph:
                        expect['point_arrays'].append(('SCALARS', 'sphere_radius', 'double'))
                    # quadratic elements are written as they are, every other degree as its vertex triangle
                    expect['n_points'] = (nNodes if deg == 2 else nSimplex) + nsph
                    expect['n_cells'] = nElements + sum(edges)
                    snap0 = _snapshot(W)
                    for k in range(nwrites):
                        W.write()
                        snap = _snapshot(W, only=[x[:2] for x in snap0[0]])
                        # inductive form of "any number of repeated writes": write() is a function of the registered state
                        # and leaves it as it was
                        ex.goal('write_leaves_registered_fields_unchanged', Eq(snap0[1], snap[1]) if (snap0[0] == snap[0] and len(snap0[1]) == len(snap[1])) else Holds(False),
                                info='registered before write(): %s %s | after write() number %d: %s %s' % (snap0[0], [_show(d) for d in snap0[1]], k + 1, snap[0], [_show(d) for d in snap[1]]))
                        if backend == 'shape':
                            f = files[-1]
                            ex.goal('file_opened_for_write_and_closed', Holds(len(files) == k + 1 and f.name == base + '.vtk' and f.mode == 'w' and f.closed))
                            texts.append(f.text())
                        else:
                            ex.goal('file_opened_for_write_and_closed', Holds(os.path.exists(base + '.vtk')))
                            with open(base + '.vtk') as fh:
                                texts.append(fh.read())
            except CODE_ERRORS as e:
                ex.goal(DEFINED, Holds(False), info='%s: %s | config %s, arrays: %s' % (type(e).__name__, e, cfg, backend))
                return
            finally:
                if tmpdir:
                    shutil.rmtree(tmpdir, ignore_errors=True)
            if backend != 'shape':
                ex.note('first file (%s arrays), keyword lines:\n' % backend + '\n'.join(l for l in texts[0].split('\n') if l.split() and l.split()[0] in KEYWORDS))
            ex.goal(DEFINED, Holds(True))
            first = file_goals(ex, texts[0], expect)
            for k in range(1, nwrites):
                if first is not None:
                    rewrite_goals(ex, first, read_legacy_vtk(texts[k]), k + 1)
            if collect is not None:
                collect[backend] = [_signature(read_legacy_vtk(t)[1]) for t in texts]

        # a replay runs the real writer on jax arrays (what the library's meshes hold) and on plain numpy arrays (whose
        # indexing rules are the ones ShapeArr models: out-of-range indices raise instead of being clamped)
        for backend in (('shape',) if symbolic else ('jax', 'numpy') if collect is None else ('shape', 'jax', 'numpy')):
            run(backend)
    return fn


GOALS = ['header_lines', 'sections_in_legacy_order', 'points_declared_eq_rows_written', 'points_rows_have_3_doubles',
         'points_declared_eq_output_nodes_plus_spheres', 'cells_declared_eq_elements_plus_contact_edges', 'cells_declared_count_eq_rows_written', 'cells_declared_size_eq_integers_written', 'cells_row_starts_with_its_node_count',
         'cells_connectivity_within_points', 'cell_types_declared_eq_rows_written', 'cell_types_declared_eq_cells_declared',
         'cell_type_matches_nodes_per_cell', 'cell_type_runs_match_cell_runs', 'point_data_section_iff_point_arrays_expected',
         'cell_data_section_iff_cell_arrays_expected', 'data_arrays_are_the_accepted_fields_in_order',
         'point_data_declared_eq_points_declared', 'cell_data_declared_eq_cells_declared', 'point_array_records_eq_points_declared',
         'sphere_radius_records_eq_points_declared', 'cell_array_records_eq_cells_declared', 'point_array_rows_have_the_kind_width',
         'cell_array_rows_have_the_kind_width', 'array_rows_have_the_declared_data_type_kind', 'repeated_write_same_sections', 'repeated_write_same_counts', 'write_leaves_registered_fields_unchanged',
         'file_opened_for_write_and_closed', DEFINED]


def _note(h, degrees, spheres, edges, fsets, nwrites):
    from ..core import REPO
    src = open(os.path.join(REPO, REL)).read()
    h.encoded('optimism.VTKWriter (whole real source executed on shape-symbolic arrays; file sha1=%s): VTKWriter.__init__, add_sphere, '
              'add_contact_edges, add_nodal_field, add_cell_field, write, _check_and_format_data, _write_header, _write_coordinate_data, '
              '_write_cell_connectivity, _write_contact_edges, _write_cell_types, _write_nodal_fields, _write_cell_fields, '
              '_write_out_all_fields_in_dict, default_values' % hashlib.sha1(src.encode()).hexdigest()[:12])
    h.bounds('symbolic integers (unbounded): nNodes, nSimplexNodes >= 3, nElements >= 1 (degree 1: nNodes = nSimplexNodes; degree d >= 2: '
             'nNodes >= nSimplexNodes + 3(d-1)), rows of every nodal field (>= nNodes) and cell field (>= 0, accepted iff = nElements), '
             'spatial dimension of vector/tensor fields in 1..3',
             'element degree in %s (real parent element); spheres %s; contact-edge calls %s; field sets %s; %d consecutive write() calls'
             % (list(degrees), list(spheres), [EDGE_PATTERNS[e] for e in edges], list(fsets), nwrites))
    h.assume_note('stub: write_matrix_as_table(A) emits one TABLE token standing for A.shape[0] text rows of A.shape[1] numbers (number formatting is outside the claim; '
                  'the real function runs in every replay)',
                  'stub: open() is a recorder; warnings.warn is recorded; numpy is the shape-level shim ShapeNP (arange, array, zeros, tile, concatenate, vstack, hstack, '
                  'indexing, slice assignment, reshape) whose shape rules are numpy\'s; every dimension agreement numpy would check is a goal (%s)' % DEFINED,
                  'mesh invariant assumed: the vertex columns of conns hold ids of simplex nodes (< nSimplexNodes), all other columns ids < nNodes; '
                  'simplexNodesOrdinals holds ids < nSimplexNodes; contact edges join vertices 0,1,2',
                  'nodal field data have at least one row per mesh node (fewer rows raise IndexError in the real code before anything is written)')
    h.outside('number formatting (value placement is O3)',
              'histories other than those of O4; more than 3 spheres or 3 contact edges; 3-D meshes',
              'binary VTK format (the writer only produces ASCII)')


# ------------------------------------------------------------------------------------------ histories (O4)
HISTORIES = {
    # registrations interleaved with writes; 'write' = write() and check the file
    'geometry_then_fields': ['write', 'sphere', 'write', 'edges', 'write', 'nodal', 'cell', 'write', 'edges', 'sphere', 'write'],
    'fields_then_geometry': ['cell', 'write', 'edges', 'write', 'nodal', 'write', 'sphere', 'write'],
}


def make_history_harness(degrees, histories=('geometry_then_fields', 'fields_then_geometry')):
    """registrations interleaved with writes on ONE writer: every file must satisfy all section goals for the registrations
    made so far and equal (sections, declared counts, rows and values written) the file of a FRESH writer given the same
    registrations; sizes symbolic as in O1"""
    def fn(ex):
        del _TOKENS[:]
        symbolic = ex.symbolic
        deg = choose(ex, 'degree_index', list(degrees))
        nNodes, nSimplex, nElements = _sint(ex, 'nNodes'), _sint(ex, 'nSimplexNodes'), _sint(ex, 'nElements')
        ex.assume(nSimplex >= 3)
        ex.assume(nElements >= 1)
        if deg == 1:
            ex.assume(nNodes == nSimplex)
        else:
            ex.assume(nNodes >= nSimplex + 3 * (deg - 1))
        hname = choose(ex, 'history', list(histories))
        ops = HISTORIES[hname]
        if not symbolic:
            for nm, v in (('nNodes', nNodes), ('nSimplexNodes', nSimplex), ('nElements', nElements)):
                if v > 2_000_000:
                    raise Unsupported('replay: model size %s = %d is too large to build' % (nm, v))
        ex.note('history %s = %s; degree %d, nNodes=%s nSimplexNodes=%s nElements=%s' % (hname, ops, deg, px.unwrap(nNodes), px.unwrap(nSimplex), px.unwrap(nElements)))

        def run(backend):
            mod = px.load_module(REL)
            files, tmpdir = [], None
            if backend == 'shape':
                mod.np = ShapeNP()
                mod.write_matrix_as_table = table_stub
                mod.warnings = WarnRecorder()

                def open_shim(name, mode='r', *a, **k):
                    files.append(RecFile(name, mode))
                    return files[-1]
                mod.open = open_shim
                mesh = SymMesh(deg, nNodes, nSimplex, nElements)
                base = 'c20_history'
                mk = lambda shape, dt: ShapeArr(shape, dt)
            else:
                if backend == 'jax':
                    import jax.numpy as xp
                else:
                    xp = onp
                mesh = real_mesh(deg, nNodes, nSimplex, nElements, xp)
                tmpdir = tempfile.mkdtemp(prefix='c20_replay_')
                base = os.path.join(tmpdir, 'out')

                def mk(shape, dt):
                    n = 1
                    for q in shape:
                        n *= q
                    return xp.array((onp.arange(n) % 5).astype(dt).reshape(shape))
            FT, DT = mod.VTKFieldType, mod.VTKDataType
            nodal = [('temperature', mk((nNodes,), onp.float64), FT.SCALARS, DT.DOUBLE), ('node_id', mk((nNodes, 1), onp.int32), FT.SCALARS, DT.INT),
                     ('stress', mk((nNodes, 2, 2), onp.float64), FT.TENSORS, DT.DOUBLE)]
            cell = [('cell_id', mk((nElements,), onp.int32), FT.SCALARS, DT.INT), ('flux', mk((nElements, 2), onp.float64), FT.VECTORS, DT.DOUBLE)]
            counters = dict(sphere=0, edge=0)

            def registration(op):
                """a closure that applies one registration to a writer (the same arguments for the long-lived and the fresh one)"""
                if op == 'sphere':
                    k = counters['sphere']
                    counters['sphere'] += 1
                    return lambda W: W.add_sphere(onp.array([0.25 * k, 1.5]), 0.5 + k)
                if op == 'edges':
                    k = counters['edge']
                    counters['edge'] += 1
                    return lambda W: W.add_contact_edges(onp.array([[k % 3, (k + 1) % 3]], dtype=onp.int64))
                if op == 'nodal':
                    return lambda W: [W.add_nodal_field(name=n, nodalData=a, fieldType=ft, dataType=dt) for n, a, ft, dt in nodal]
                return lambda W: [W.add_cell_field(name=n, cellData=a, fieldType=ft, dataType=dt) for n, a, ft, dt in cell]

            def text_of(W, fname):
                W.write()
                if backend == 'shape':
                    return files[-1].text()
                with open(fname) as fh:
                    return fh.read()

            regs, done, nwrite = [], [], 0
            try:
                with _pywarnings.catch_warnings():
                    _pywarnings.simplefilter('ignore')
                    W = mod.VTKWriter(mesh, baseFileName=base)
                    for op in ops:
                        if op != 'write':
                            r = registration(op)
                            r(W)
                            regs.append(r)
                            done.append(op)
                            continue
                        nwrite += 1
                        text = text_of(W, base + '.vtk')
                        nsph, nedge = done.count('sphere'), done.count('edges')
                        expect = dict(point_arrays=[(ft.name, n, dt.value) for n, a, ft, dt in nodal] if 'nodal' in done else [],
                                      cell_arrays=[(ft.name, n, dt.value) for n, a, ft, dt in cell] if 'cell' in done else [],
                                      n_points=(nNodes if deg == 2 else nSimplex) + nsph, n_cells=nElements + nedge)
                        if nsph:
                            expect['point_arrays'].append(('SCALARS', 'sphere_radius', 'double'))
                        stage = 'write %d of history %s, after %s' % (nwrite, hname, done or 'no registration')
                        ex.note(stage + ('' if backend == 'shape' else ' (%s arrays): ' % backend + ' | '.join(l for l in text.split('\n') if l.split() and l.split()[0] in KEYWORDS[:5])))
                        got = file_goals(ex, text, expect)
                        # the same registrations on a fresh writer
                        W2 = mod.VTKWriter(mesh, baseFileName=base + '_fresh')
                        for r in regs:
                            r(W2)
                        ref = read_legacy_vtk(text_of(W2, base + '_fresh.vtk'))
                        (h1, s1), (h2, s2) = read_legacy_vtk(text), ref
                        st1, n1 = _signature(s1)
                        st2, n2 = _signature(s2)
                        same = (h1 == h2 and st1 == st2 and len(n1) == len(n2))
                        ex.goal('history_file_has_the_sections_of_a_fresh_writer', Holds(same), info='%s: %s | fresh writer: %s' % (stage, [q[0] for q in st1], [q[0] for q in st2]))
                        if same and n1:
                            diff = [(_show(a), _show(b)) for a, b in zip(n1, n2) if _show(a) != _show(b)]
                            ex.goal('history_file_has_the_counts_of_a_fresh_writer', Eq(n1, n2),
                                    info='%s: (this writer, fresh writer) declared counts / rows / values that are not literally the same: %s' % (stage, diff[:8]))
            except CODE_ERRORS as e:
                ex.goal(DEFINED, Holds(False), info='%s: %s | history %s after %s (arrays: %s)' % (type(e).__name__, e, hname, done, backend))
                return
            finally:
                if tmpdir:
                    shutil.rmtree(tmpdir, ignore_errors=True)
            ex.goal(DEFINED, Holds(True))

        for backend in (('shape',) if symbolic else ('jax', 'numpy')):
            run(backend)
    return fn


HISTORY_GOALS = ['history_file_has_the_sections_of_a_fresh_writer', 'history_file_has_the_counts_of_a_fresh_writer', 'sections_in_legacy_order',
                 'points_declared_eq_rows_written', 'points_declared_eq_output_nodes_plus_spheres', 'cells_declared_eq_elements_plus_contact_edges',
                 'cells_declared_count_eq_rows_written', 'cells_declared_size_eq_integers_written', 'cell_types_declared_eq_cells_declared',
                 'point_data_declared_eq_points_declared', 'cell_data_declared_eq_cells_declared', 'point_array_records_eq_points_declared',
                 'cell_array_records_eq_cells_declared', 'sphere_radius_records_eq_points_declared', 'array_rows_have_the_declared_data_type_kind', DEFINED]


def _register_history():
    for d in (1, 2, 3, 4):
        def ob(h, d=d):
            """histories: registrations (spheres, contact edges, nodal fields, cell fields) interleaved with write() calls on one
            writer; each of the files satisfies every section goal for the registrations made so far and has the sections, declared
            counts, rows and values of the file a fresh writer produces from the same registrations (nothing stale, nothing lost)"""
            _note(h, (d,), ('added one at a time',), (), ('3 nodal fields (scalar double, scalar int, tensor double), 2 cell fields (scalar int, vector double)',), 0)
            h.bounds('histories %s; mesh sizes symbolic as in O1' % {k: v for k, v in HISTORIES.items()})
            px.run_px(h, 'history', make_history_harness((d,)), cap=20, order=('core',), feas_ms=300, expect_goals=HISTORY_GOALS)
        obligation(P, 'O4.history_interleaved_writes[degree %d]' % d, tiers=('quick', 'thorough'), cap=300)(ob)


_register_history()


# ------------------------------------------------------------------------------------------ value placement (O3)
class SVal(SInt):
    """a symbolic array ENTRY (z3 Real or Int): str.format gives a placeholder token, like SInt"""


class ValNP:
    """`np` for the value-placement run: real numpy, except that zeros() allocates object arrays (a float64 buffer cannot
    hold a symbolic entry); every other function is numpy's own, working on object arrays of SVal"""

    def __getattr__(self, name):
        return getattr(onp, name)

    def zeros(self, shape, dtype=float, **k):
        a = onp.empty(shape, dtype=object)
        # a buffer requested with the dtype of an (object) array of symbolic entries stands for that array's own type: its
        # zero is written as the literal 0, which reads back as a zero of either kind; an explicit / default float
        # request gives 0.0
        a.fill(0 if onp.dtype(dtype).kind in 'iuO' else 0.0)
        return a


def _draw(ex, name, shape, sort='R'):
    """array of fresh inputs: object array of SVal (symbolic run) / float or int array of the model's values (replay)"""
    a = onp.empty(shape, dtype=object if ex.symbolic else (float if sort == 'R' else onp.int64))
    for idx in onp.ndindex(*shape):
        v = ex.real('%s%s' % (name, ''.join('_%d' % i for i in idx)), sort)
        a[idx] = SVal(v.z) if ex.symbolic else v
    return a


def _quadratic_triangle_order(pe):
    """VTK_QUADRATIC_TRIANGLE node order (three vertices, then the mid-edge nodes of edges 01, 12, 20) in terms of the
    parent element's node numbering, derived from the reference coordinates of the real parent element"""
    c = onp.asarray(pe.coordinates)
    v = [int(x) for x in onp.asarray(pe.vertexNodes)]
    mid = lambda a, b: int(onp.argmin(((c - (c[a] + c[b]) / 2) ** 2).sum(1)))
    return v + [mid(v[0], v[1]), mid(v[1], v[2]), mid(v[2], v[0])]


def _placed(ex, gname, got, want, info):
    """rows `got` read from the file against the rows `want` built from the supplied values"""
    got = [[px.unwrap(x) for x in r] for r in got]
    want = [[px.unwrap(x) for x in r] for r in want]
    ok = len(got) == len(want) and all(len(a) == len(b) for a, b in zip(got, want)) and not any(isinstance(x, str) for r in got for x in r)
    if not ok:
        ex.goal(gname, Holds(False), info='%s: %d rows of widths %s read, %d rows of widths %s expected' % (info, len(got), sorted({len(r) for r in got}), len(want), sorted({len(r) for r in want})))
    elif want:
        ex.goal(gname, Eq([x for r in got for x in r], [x for r in want for x in r]),
                info='%s: rows read %s | rows expected from the supplied values %s' % (info, [[_show(x) for x in r] for r in got][:9], [[_show(x) for x in r] for r in want][:9]))


def make_value_harness(deg, dims=(1, 2, 3), sphere_counts=(0, 2), edge_counts=(0, 2), nElements=2):
    """the real writer on small arrays of concrete shape whose ENTRIES are symbolic: every supplied value must be read
    back at its own (record, i, j) position, everything else is 0"""
    def fn(ex):
        del _TOKENS[:]
        symbolic = ex.symbolic
        d = choose(ex, 'fieldSpatialDim_index', list(dims))
        nsph = choose(ex, 'nSpheres_index', list(sphere_counts))
        nedge = choose(ex, 'nContactEdges_index', list(edge_counts))
        bubble = _element_kind(ex, deg) if deg >= 3 else False
        pe, pe1 = _parent_elements(deg, bubble)
        npe = int(pe.coordinates.shape[0])
        V, T = 3, nElements
        nNodes = {1: 3, 2: 4}.get(deg, 5)            # degree >= 3: two mesh nodes are not output nodes
        out = list(range(nNodes)) if deg == 2 else list(range(V))
        elc = _quadratic_triangle_order(pe) if deg == 2 else [int(v) for v in onp.asarray(pe.vertexNodes)]
        x = _draw(ex, 'x', (nNodes, 2))
        conn = _draw(ex, 'conn', (T, npe), 'I')
        F = dict(s=_draw(ex, 's', (nNodes,)), v=_draw(ex, 'v', (nNodes, d)), t=_draw(ex, 't', (nNodes, d, d)), i=_draw(ex, 'i', (nNodes, 1), 'I'),
                 cs=_draw(ex, 'cs', (T, 1)), cv=_draw(ex, 'cv', (T, d)), ct=_draw(ex, 'ct', (T, d, d)),
                 iv=_draw(ex, 'iv', (nNodes, d), 'I'), ci=_draw(ex, 'ci', (T,), 'I'), cit=_draw(ex, 'cit', (T, d, d), 'I'))
        sph, rad = _draw(ex, 'sphere', (nsph, 2)), _draw(ex, 'radius', (nsph,))
        edge = _draw(ex, 'edge', (nedge, 2), 'I')
        ex.note(('bubble-enriched ' if bubble else '') + 'degree %d, field spatial dimension %d, %d sphere(s), %d contact edge(s), %d mesh nodes (%d written), %d elements' % (deg, d, nsph, nedge, nNodes, len(out), T))

        def run(backend):
            mod = px.load_module(REL)
            files, tmpdir = [], None
            if backend == 'object':
                mod.np = ValNP()

                def open_shim(name, mode='r', *a, **k):
                    files.append(RecFile(name, mode))
                    return files[-1]
                mod.open = open_shim
                xp = None
                mesh = SymMesh.__new__(SymMesh)
                mesh.coords, mesh.conns, mesh.simplexNodesOrdinals, mesh.parentElement = x, conn, onp.arange(V), pe
                base = 'c20_values'
            else:
                from optimism import Mesh
                if backend == 'jax':
                    import jax.numpy as xp
                else:
                    xp = onp
                mesh = Mesh.Mesh(coords=xp.array(x), conns=xp.array(conn), simplexNodesOrdinals=xp.arange(V), parentElement=pe, parentElement1d=pe1,
                                 blocks=None, nodeSets=None, sideSets=None)
                tmpdir = tempfile.mkdtemp(prefix='c20_replay_')
                base = os.path.join(tmpdir, 'out')
            conv = (lambda a: a) if xp is None else (lambda a: xp.array(a))
            try:
                with _pywarnings.catch_warnings():
                    _pywarnings.simplefilter('ignore')
                    FT, DT = mod.VTKFieldType, mod.VTKDataType
                    W = mod.VTKWriter(mesh, baseFileName=base)
                    W.add_nodal_field('s', conv(F['s']), FT.SCALARS)
                    W.add_nodal_field('v', conv(F['v']), FT.VECTORS)
                    W.add_nodal_field('t', conv(F['t']), FT.TENSORS)
                    W.add_nodal_field('i', conv(F['i']), FT.SCALARS, DT.INT)
                    W.add_cell_field('cs', conv(F['cs']), FT.SCALARS)
                    W.add_cell_field('cv', conv(F['cv']), FT.VECTORS)
                    W.add_cell_field('ct', conv(F['ct']), FT.TENSORS)
                    W.add_nodal_field('iv', conv(F['iv']), FT.VECTORS, DT.LONG)
                    W.add_cell_field('ci', conv(F['ci']), FT.SCALARS, DT.INT)
                    W.add_cell_field('cit', conv(F['cit']), FT.TENSORS, DT.SHORT)
                    for k in range(nsph):
                        W.add_sphere(sph[k], rad[k])
                    for k in range(nedge):
                        W.add_contact_edges(conv(edge[k:k + 1]))
                    W.write()
                    if backend == 'object':
                        text = files[-1].text()
                    else:
                        with open(base + '.vtk') as fh:
                            text = fh.read()
            except CODE_ERRORS as e:
                ex.goal(DEFINED, Holds(False), info='%s: %s (arrays: %s)' % (type(e).__name__, e, backend))
                return
            finally:
                if tmpdir:
                    shutil.rmtree(tmpdir, ignore_errors=True)
            ex.goal(DEFINED, Holds(True))
            header, secs = read_legacy_vtk(text)
            kws = [q['kw'] for q in secs]
            okstruct = kws[:3] == ['POINTS', 'CELLS', 'CELL_TYPES'] and 'POINT_DATA' in kws and 'CELL_DATA' in kws
            ex.goal('sections_in_legacy_order', Holds(okstruct), info=kws)
            if not okstruct:
                return
            lines = lambda q: q.get('lines', [])
            # ---- POINTS: coordinates of the output nodes in columns 0,1, zero in column 2; then the sphere centres
            got = lines(secs[0])
            _placed(ex, 'point_coordinates_in_place', got[:len(out)], [[x[o, 0], x[o, 1], 0.0] for o in out], 'POINTS (mesh nodes)')
            _placed(ex, 'sphere_centres_in_place', got[len(out):], [[sph[k, 0], sph[k, 1], 0.0] for k in range(nsph)], 'POINTS (spheres)')
            # ---- CELLS: node count, then the VTK-ordered node ids of each element; then the contact edges
            got = lines(secs[1])
            _placed(ex, 'element_connectivity_in_place', got[:T], [[len(elc)] + [conn[e, j] for j in elc] for e in range(T)], 'CELLS (elements)')
            _placed(ex, 'contact_edge_connectivity_in_place', got[T:], [[2, edge[k, 0], edge[k, 1]] for k in range(nedge)], 'CELLS (contact edges)')
            _placed(ex, 'cell_types_in_place', lines(secs[2]), [[22 if deg == 2 else 5]] * T + [[3]] * nedge, 'CELL_TYPES')
            # ---- data arrays
            ip, ic = kws.index('POINT_DATA'), kws.index('CELL_DATA')
            parr, _ = _arrays(secs, ip)
            carr, _ = _arrays(secs, ic)
            arrays = {('p', a[1]): a for a in parr}
            arrays.update({('c', a[1]): a for a in carr})

            def rows_of(kind, A, recs):
                if kind == 'SCALARS':
                    return [[A.reshape(-1)[r]] for r in recs]
                if kind == 'VECTORS':
                    return [[A[r, j] if j < d else 0.0 for j in range(3)] for r in recs]
                return [[A[r, i, j] if (i < d and j < d) else 0.0 for j in range(3)] for r in recs for i in range(3)]

            for where, name, kind, recs, npad in (('p', 's', 'SCALARS', out, nsph), ('p', 'v', 'VECTORS', out, nsph), ('p', 't', 'TENSORS', out, nsph), ('p', 'i', 'SCALARS', out, nsph),
                                                  ('c', 'cs', 'SCALARS', range(T), nedge), ('c', 'cv', 'VECTORS', range(T), nedge), ('c', 'ct', 'TENSORS', range(T), nedge),
                                                  ('p', 'iv', 'VECTORS', out, nsph), ('c', 'ci', 'SCALARS', range(T), nedge), ('c', 'cit', 'TENSORS', range(T), nedge)):
                a = arrays.get((where, name))
                if a is None or a[0] != kind or a[3] is None:
                    ex.goal('data_arrays_are_the_accepted_fields_in_order', Holds(False), info='array %s (%s) not found in the file' % (name, kind))
                    continue
                got = lines(a[3])
                want = rows_of(kind, F[name], list(recs))
                per = ROWS_PER_RECORD[kind]
                what = '%s %s array %r' % ('point' if where == 'p' else 'cell', kind, name)
                _placed(ex, '%s_%s_values_in_place' % ('point' if where == 'p' else 'cell', kind.lower()[:-1]), got[:len(want)], want, what)
                _placed(ex, 'sphere_point_records_are_default' if where == 'p' else 'contact_edge_cell_records_are_default', got[len(want):],
                        [[0.0] * ARRAY_KW[kind]] * (per * npad), what + ' (padding)')
                if a[2] in INTEGER_TYPES:
                    # type-honouring reading: every token of an integer-typed array (supplied entries and padding records) is an
                    # integer literal / a term of integer sort
                    ex.goal('integer_field_tokens_are_integer_literals', Holds(_kind_ok(a[2], a[3]['kinds'])),
                            info='%s declared %r: tokens %s' % (what, a[2], [[_show(x) for x in r] for r in got][:12]))
            a = arrays.get(('p', 'sphere_radius'))
            if nsph:
                _placed(ex, 'sphere_radius_values_in_place', lines(a[3]) if (a is not None and a[3] is not None) else [], [[0.0]] * len(out) + [[rad[k]] for k in range(nsph)], 'sphere_radius')

        for backend in (('object',) if symbolic else ('jax', 'numpy')):
            run(backend)
    return fn


VALUE_GOALS = ['sections_in_legacy_order', 'point_coordinates_in_place', 'sphere_centres_in_place', 'element_connectivity_in_place', 'contact_edge_connectivity_in_place',
               'cell_types_in_place', 'point_scalar_values_in_place', 'point_vector_values_in_place', 'point_tensor_values_in_place', 'cell_scalar_values_in_place',
               'cell_vector_values_in_place', 'cell_tensor_values_in_place', 'sphere_point_records_are_default', 'contact_edge_cell_records_are_default',
               'sphere_radius_values_in_place', 'integer_field_tokens_are_integer_literals', DEFINED]


def _register_values():
    for d in (1, 2, 3, 4):
        def ob(h, d=d):
            """value placement: the real writer on arrays of concrete shape with symbolic entries; every supplied coordinate,
            node id and scalar / vector / d x d tensor component is read back from the file at its own position (tensor
            component (i, j) of record r in row 3r+i, column j), all other entries and all padding records are 0"""
            from ..core import REPO
            src = open(os.path.join(REPO, REL)).read()
            h.encoded('optimism.VTKWriter (real source on object arrays of symbolic entries; file sha1=%s): write_matrix_as_table, VTKWriter.__init__, add_*, '
                      '_check_and_format_data, _write_coordinate_data, _write_cell_connectivity, _write_contact_edges, _write_cell_types, _write_nodal_fields, '
                      '_write_cell_fields, _write_out_all_fields_in_dict, default_values' % hashlib.sha1(src.encode()).hexdigest()[:12])
            h.bounds('all real values of: coordinates (%d mesh nodes), sphere centres/radii, nodal scalar/vector/tensor (d x d) fields, cell scalar/vector/tensor fields; all integer '
                     'values of the connectivity (2 elements), contact-edge ids and an integer nodal scalar; concrete shapes: degree %d, spatial dimension d of the fields in {1,2,3}, '
                     'spheres 0 or 2, contact edges 0 or 2 (two calls)' % ({1: 3, 2: 4}.get(d, 5), d))
            h.assume_note('stub: open() is a recorder; np.zeros allocates object arrays (ValNP), every other numpy call and write_matrix_as_table are the real ones on object arrays; '
                          'str.format of a symbolic entry is a placeholder token parsed back to its term',
                          'expected quadratic-triangle node order is derived from the reference coordinates of the real parent element (vertices, then mid-edge nodes 01, 12, 20)',
                          'simplexNodesOrdinals = arange(3): the writer does not renumber connectivity, which presumes the simplex nodes come first (as Mesh.create_higher_order_mesh_from_simplex_mesh builds them)')
            h.outside('number formatting: a replay compares the parsed decimal text with the supplied binary64 values (repr round-trip); shapes larger than the stated ones (placement is uniform in the row index)')
            px.run_px(h, 'values', make_value_harness(d), cap=20, order=('core',), feas_ms=300, expect_goals=VALUE_GOALS)
        obligation(P, 'O3.values_land_in_place[degree %d]' % d, tiers=('quick', 'thorough'), cap=300)(ob)


_register_values()


# ------------------------------------------------------------------------------------------ caller-owned buffers (O6)
def _field_rows(kind, A, recs, d):
    if kind == 'SCALARS':
        flat = A.reshape(-1)
        return [[flat[r]] for r in recs]
    if kind == 'VECTORS':
        return [[A[r, j] if j < d else 0.0 for j in range(3)] for r in recs]
    return [[A[r, i, j] if (i < d and j < d) else 0.0 for j in range(3)] for r in recs for i in range(3)]


ALIAS_FIELDS = [
    # (where, name, kind, sort of the entries, VTK data type, shape builder (n, d))
    ('node', 'ns', 'SCALARS', 'R', 'DOUBLE', lambda n, d: (n,)),
    ('node', 'ni', 'SCALARS', 'I', 'INT', lambda n, d: (n, 1)),
    ('node', 'nv', 'VECTORS', 'I', 'LONG', lambda n, d: (n, d)),
    ('node', 'nt', 'TENSORS', 'R', 'DOUBLE', lambda n, d: (n, d, d)),
    ('cell', 'cs', 'SCALARS', 'R', 'DOUBLE', lambda n, d: (n,)),
    ('cell', 'ci', 'SCALARS', 'I', 'INT', lambda n, d: (n, 1)),
    ('cell', 'cv', 'VECTORS', 'R', 'DOUBLE', lambda n, d: (n, d)),
    ('cell', 'ct', 'TENSORS', 'I', 'SHORT', lambda n, d: (n, d, d)),
]


def make_alias_harness(deg, d=2, nElements=2):
    """NumPy-typed inputs owned by the caller: the caller overwrites its arrays IN PLACE after add_*_field (also: registers two
    fields from one reused scratch buffer), writes, overwrites again, writes again. Entries symbolic (object arrays in the
    symbolic run: np.asarray / reshape alias exactly as real numpy does, np.array copies)."""
    def fn(ex):
        del _TOKENS[:]
        symbolic = ex.symbolic
        pe, pe1 = _parent_elements(deg)
        npe = int(pe.coordinates.shape[0])
        V, T = 3, nElements
        nNodes = {1: 3, 2: 4}.get(deg, 5)
        out = list(range(nNodes)) if deg == 2 else list(range(V))
        x = _draw(ex, 'x', (nNodes, 2))
        conn = _draw(ex, 'conn', (T, npe), 'I')
        specs = ALIAS_FIELDS + [('cell', 'scratch_a', 'SCALARS', 'R', 'DOUBLE', lambda n, d: (n,)), ('cell', 'scratch_b', 'SCALARS', 'R', 'DOUBLE', lambda n, d: (n,)),
                                ('node', 'scratch_c', 'SCALARS', 'I', 'INT', lambda n, d: (n,)), ('node', 'scratch_d', 'SCALARS', 'I', 'INT', lambda n, d: (n,))]
        orig, later1, later2 = {}, {}, {}
        for where, name, kind, sort, dtn, shp in specs:
            shape = shp(nNodes if where == 'node' else T, d)
            orig[name] = _draw(ex, name, shape, sort)                  # the values at registration time
            later1[name] = _draw(ex, name + '_after_add', shape, sort)     # what the caller stores in the same array afterwards
            later2[name] = _draw(ex, name + '_after_write', shape, sort)   # ... and between the two writes

        def run(backend):
            mod = px.load_module(REL)
            files, tmpdir = [], None
            if backend == 'object':
                mod.np = ValNP()

                def open_shim(name, mode='r', *a, **k):
                    files.append(RecFile(name, mode))
                    return files[-1]
                mod.open = open_shim
                mesh = SymMesh.__new__(SymMesh)
                mesh.coords, mesh.conns, mesh.simplexNodesOrdinals, mesh.parentElement = x, conn, onp.arange(V), pe
                base = 'c20_buffers'
            else:
                from optimism import Mesh
                mesh = Mesh.Mesh(coords=onp.array(x), conns=onp.array(conn), simplexNodesOrdinals=onp.arange(V), parentElement=pe, parentElement1d=pe1,
                                 blocks=None, nodeSets=None, sideSets=None)
                tmpdir = tempfile.mkdtemp(prefix='c20_replay_')
                base = os.path.join(tmpdir, 'out')
            texts = []
            try:
                with _pywarnings.catch_warnings():
                    _pywarnings.simplefilter('ignore')
                    FT, DT = mod.VTKFieldType, mod.VTKDataType
                    W = mod.VTKWriter(mesh, baseFileName=base)
                    bufs = {}
                    for where, name, kind, sort, dtn, shp in ALIAS_FIELDS:
                        buf = onp.array(orig[name])                  # the caller's own numpy array
                        (W.add_nodal_field if where == 'node' else W.add_cell_field)(name, buf, getattr(FT, kind), getattr(DT, dtn))
                        buf[...] = later1[name]                      # ... reused by the caller right after the registration
                        bufs[name] = buf
                    for where, (na, nb), dtn in (('cell', ('scratch_a', 'scratch_b'), 'DOUBLE'), ('node', ('scratch_c', 'scratch_d'), 'INT')):
                        scratch = onp.array(orig[na])                # one scratch buffer, two fields
                        add = W.add_nodal_field if where == 'node' else W.add_cell_field
                        add(na, scratch, FT.SCALARS, getattr(DT, dtn))
                        scratch[...] = orig[nb]
                        add(nb, scratch, FT.SCALARS, getattr(DT, dtn))
                        scratch[...] = later1[nb]
                        bufs[nb] = scratch
                    for k in range(2):
                        W.write()
                        if backend == 'object':
                            texts.append(files[-1].text())
                        else:
                            with open(base + '.vtk') as fh:
                                texts.append(fh.read())
                        for name, buf in bufs.items():
                            buf[...] = later2[name]
            except CODE_ERRORS as e:
                ex.goal(DEFINED, Holds(False), info='%s: %s (arrays: %s)' % (type(e).__name__, e, backend))
                return
            finally:
                if tmpdir:
                    shutil.rmtree(tmpdir, ignore_errors=True)
            ex.goal(DEFINED, Holds(True))
            parsed = [read_legacy_vtk(t)[1] for t in texts]
            kws = [q['kw'] for q in parsed[0]]
            okstruct = kws[:3] == ['POINTS', 'CELLS', 'CELL_TYPES'] and 'POINT_DATA' in kws and 'CELL_DATA' in kws and [q['kw'] for q in parsed[1]] == kws
            ex.goal('sections_in_legacy_order', Holds(okstruct), info=kws)
            if not okstruct:
                return
            secs = parsed[0]
            parr, _ = _arrays(secs, kws.index('POINT_DATA'))
            carr, _ = _arrays(secs, kws.index('CELL_DATA'))
            arrays = {('node', a[1]): a for a in parr}
            arrays.update({('cell', a[1]): a for a in carr})
            for where, name, kind, sort, dtn, shp in specs:
                a = arrays.get((where, name))
                if a is None or a[0] != kind or a[3] is None:
                    ex.goal('data_arrays_are_the_accepted_fields_in_order', Holds(False), info='array %s (%s) not found in the file' % (name, kind))
                    continue
                want = _field_rows(kind, orig[name], out if where == 'node' else list(range(T)), d)
                gname = ('two_fields_from_one_scratch_buffer_keep_their_own_values' if name.startswith('scratch') else
                         '%s_%s_field_holds_the_values_at_registration_time' % ('point' if where == 'node' else 'cell', kind.lower()[:-1]))
                _placed(ex, gname, a[3].get('lines', []), want, '%s %s array %r (the caller overwrote its array after registration)' % (where, kind, name))
            # both files, line by line
            l1 = [r for q in parsed[0] for r in q.get('lines', [])]
            l2 = [r for q in parsed[1] for r in q.get('lines', [])]
            _placed(ex, 'file_unchanged_by_caller_mutation_between_writes', l2, l1, 'second file (after the caller overwrote its arrays again) vs first file')

        for backend in (('object',) if symbolic else ('numpy',)):
            run(backend)
    return fn


ALIAS_GOALS = ['sections_in_legacy_order', 'two_fields_from_one_scratch_buffer_keep_their_own_values', 'file_unchanged_by_caller_mutation_between_writes', DEFINED] + \
              ['%s_%s_field_holds_the_values_at_registration_time' % (w, k) for w in ('point', 'cell') for k in ('scalar', 'vector', 'tensor')]


def _register_alias():
    for d in (1, 2, 3, 4):
        def ob(h, d=d):
            """the writer owns what it was given: NumPy arrays registered with add_nodal_field / add_cell_field (scalar 1-d and column,
            vector, tensor; float and int) are overwritten in place by the caller after registration and again between two write()
            calls, and two fields are registered from one reused scratch buffer: the file holds the values supplied at registration
            time, and the second file equals the first"""
            from ..core import REPO
            src = open(os.path.join(REPO, REL)).read()
            h.encoded('optimism.VTKWriter (real source on numpy object arrays of symbolic entries; file sha1=%s): add_nodal_field, add_cell_field, _check_and_format_data, write and all _write_* methods'
                      % hashlib.sha1(src.encode()).hexdigest()[:12])
            h.bounds('all real / integer values of the entries at registration time, after registration and between the writes; concrete shapes: degree %d, 2 elements, field dimension 2; '
                     'inputs are NumPy arrays (jax arrays are immutable and cannot alias)' % d)
            h.assume_note('np.asarray / np.array / reshape / fancy indexing are numpy\'s own on object arrays (identity, copy, view, copy) — ground facts in O0 compare the shim with real numpy; '
                          'np.zeros allocates object arrays (ValNP); open() is a recorder')
            h.outside('mutation of the mesh arrays; number formatting')
            px.run_px(h, 'buffers', make_alias_harness(d), cap=20, order=('core',), feas_ms=300, expect_goals=ALIAS_GOALS)
        obligation(P, 'O6.caller_buffers_are_copied[degree %d]' % d, tiers=('quick', 'thorough'), cap=300)(ob)


_register_alias()


# ------------------------------------------------------------------------------------------ meshes from the real order elevation (O5)
SIMPLEX_FAMILY = ('structured_2x2', 'structured_3x3', 'structured_3x3_isolated_node_at_2', 'structured_3x2_isolated_node_last')
_ELEVATED = {}


def simplex_mesh(kind):
    """a small real simplex mesh (real Mesh constructors); the isolated-node members carry one coordinate row that no element
    references (in the middle of the node list / at its end), connectivity shifted accordingly"""
    import jax.numpy as jnp
    from optimism import Mesh
    nx, ny = {'structured_2x2': (2, 2), 'structured_3x3': (3, 3), 'structured_3x3_isolated_node_at_2': (3, 3), 'structured_3x2_isolated_node_last': (3, 2)}[kind]
    m = Mesh.construct_structured_mesh(nx, ny, [0., 1.], [0., 1.])
    if 'isolated' not in kind:
        return m
    coords, conns = onp.asarray(m.coords), onp.asarray(m.conns)
    at = 2 if kind.endswith('at_2') else coords.shape[0]
    coords = onp.insert(coords, at, onp.array([0.37, 0.61]), axis=0)
    conns = onp.where(conns >= at, conns + 1, conns)
    return Mesh.construct_mesh_from_basic_data(jnp.array(coords), jnp.array(conns), {'block_0': jnp.arange(conns.shape[0])})


def elevated_mesh(kind, order, bubble=False):
    """the REAL Mesh.create_higher_order_mesh_from_simplex_mesh on a member of the family (cached per process: the ids are
    concrete and the same in the symbolic run and in a replay)"""
    if (kind, order, bubble) not in _ELEVATED:
        from optimism import Mesh
        _ELEVATED[(kind, order, bubble)] = Mesh.create_higher_order_mesh_from_simplex_mesh(simplex_mesh(kind), order, useBubbleElement=bubble)
    return _ELEVATED[(kind, order, bubble)]


def make_elevated_harness(order, family=SIMPLEX_FAMILY):
    """the real writer on the mesh the real elevation produces (concrete ids), with SYMBOLIC coordinates and a symbolic nodal
    field: what a cell's ids point at in the file is what was supplied for the mesh nodes that cell refers to"""
    def fn(ex):
        del _TOKENS[:]
        symbolic = ex.symbolic
        kind = choose(ex, 'simplexMesh_index', list(family))
        bubble = choose(ex, 'useBubbleElement_index', [False, True])
        M = elevated_mesh(kind, order, bubble)
        conn = onp.asarray(M.conns).astype(onp.int64)
        ordinals = onp.asarray(M.simplexNodesOrdinals).astype(onp.int64)
        nNodes, T = int(M.coords.shape[0]), int(conn.shape[0])
        pe = M.parentElement
        deg = int(pe.degree)
        elc = _quadratic_triangle_order(pe) if deg == 2 else [int(v) for v in onp.asarray(pe.vertexNodes)]
        x = _draw(ex, 'x', (nNodes, 2))
        sfield = _draw(ex, 's', (nNodes,))
        ex.note('simplex mesh %s elevated to order %d (useBubbleElement=%s) by the real Mesh.create_higher_order_mesh_from_simplex_mesh: %d nodes, %d elements, %d simplexNodesOrdinals' % (kind, order, bubble, nNodes, T, ordinals.size))
        # ---- the link the writer relies on (it writes coords[simplexNodesOrdinals] but does not renumber connectivity)
        used = sorted({int(conn[e, j]) for e in range(T) for j in elc})
        if deg != 2:
            ex.goal('elevated_mesh_ordinals_are_identity_on_the_vertex_ids_cells_use', Holds(all(k < ordinals.size and int(ordinals[k]) == k for k in used)),
                    info='vertex ids used by the elements %s; simplexNodesOrdinals %s' % (used, ordinals.tolist()))

        def run(backend):
            mod = px.load_module(REL)
            files, tmpdir = [], None
            if backend == 'object':
                mod.np = ValNP()

                def open_shim(name, mode='r', *a, **k):
                    files.append(RecFile(name, mode))
                    return files[-1]
                mod.open = open_shim
                mesh = SymMesh.__new__(SymMesh)
                mesh.coords, mesh.conns, mesh.simplexNodesOrdinals, mesh.parentElement = x, conn, ordinals, pe
                base, conv = 'c20_elevated', (lambda a: a)
            else:
                if backend == 'jax':
                    import jax.numpy as xp
                else:
                    xp = onp
                mesh = M._replace(coords=xp.array(x), conns=xp.array(conn), simplexNodesOrdinals=xp.array(ordinals))
                tmpdir = tempfile.mkdtemp(prefix='c20_replay_')
                base, conv = os.path.join(tmpdir, 'out'), (lambda a: xp.array(a))
            try:
                with _pywarnings.catch_warnings():
                    _pywarnings.simplefilter('ignore')
                    W = mod.VTKWriter(mesh, baseFileName=base)
                    W.add_nodal_field('s', conv(sfield), mod.VTKFieldType.SCALARS)
                    W.write()
                    if backend == 'object':
                        text = files[-1].text()
                    else:
                        with open(base + '.vtk') as fh:
                            text = fh.read()
            except CODE_ERRORS as e:
                ex.goal(DEFINED, Holds(False), info='%s: %s (arrays: %s)' % (type(e).__name__, e, backend))
                return
            finally:
                if tmpdir:
                    shutil.rmtree(tmpdir, ignore_errors=True)
            ex.goal(DEFINED, Holds(True))
            header, secs = read_legacy_vtk(text)
            kws = [q['kw'] for q in secs]
            okstruct = kws == ['POINTS', 'CELLS', 'CELL_TYPES', 'POINT_DATA', 'SCALARS', 'LOOKUP_TABLE'] and all(_is_intlike(secs[i]['args'][0]) and not sym.isz(secs[i]['args'][0]) for i in (0, 1, 3))
            ex.goal('sections_in_legacy_order', Holds(okstruct), info=kws)
            if not okstruct:
                return
            pts, cells, sdat = secs[0].get('lines', []), secs[1].get('lines', []), secs[5].get('lines', [])
            npts = secs[0]['args'][0]
            ex.goal('points_declared_eq_rows_written', Eq(npts, len(pts)), info='POINTS %s, %d rows' % (npts, len(pts)))
            ex.goal('point_data_declared_eq_points_declared', Eq(secs[3]['args'][0], npts))
            ex.goal('point_array_records_eq_points_declared', Eq(len(sdat), npts))
            ids = [[v for v in row[1:]] for row in cells]
            okids = len(cells) == T and all(len(r) == len(elc) and all(isinstance(v, int) and not isinstance(v, bool) for v in r) for r in ids)
            ex.goal('cells_rows_hold_one_integer_id_per_vertex', Holds(okids), info=ids[:4])
            if not okids:
                return
            bad = [(e, v) for e, r in enumerate(ids) for v in r if not 0 <= v < len(pts)]
            ex.goal('cells_connectivity_within_points', Holds(not bad), info='POINTS %s (%d rows); (element, id) pairs that refer to no written point: %s' % (npts, len(pts), bad[:6]))
            # ---- what the ids point at: coordinates and field value of the mesh node the element refers to
            gotx, wantx, gots, wants = [], [], [], []
            for e in range(T):
                for slot, j in enumerate(elc):
                    fid, node = ids[e][slot], int(conn[e, j])
                    if 0 <= fid < len(pts) and len(pts[fid]) == 3 and fid < len(sdat) and len(sdat[fid]) == 1:
                        gotx.append(pts[fid])
                        wantx.append([x[node, 0], x[node, 1], 0.0])
                        gots.append(sdat[fid])
                        wants.append([sfield[node]])
            # ids that refer to no written point are reported by cells_connectivity_within_points; the others are compared entry by entry
            _placed(ex, 'cell_vertex_coordinates_round_trip', gotx, wantx, 'coordinates of the points the CELLS ids refer to vs coordinates supplied for the mesh nodes of the elements')
            _placed(ex, 'cell_vertex_field_values_round_trip', gots, wants, 'nodal scalar at the points the CELLS ids refer to vs the values supplied for the mesh nodes of the elements')

        for backend in (('object',) if symbolic else ('jax', 'numpy')):
            run(backend)
    return fn


ELEVATED_GOALS = ['sections_in_legacy_order', 'points_declared_eq_rows_written', 'point_data_declared_eq_points_declared', 'point_array_records_eq_points_declared',
                  'cells_rows_hold_one_integer_id_per_vertex', 'cells_connectivity_within_points', 'cell_vertex_coordinates_round_trip', 'cell_vertex_field_values_round_trip', DEFINED]


def _register_elevated():
    for order, tiers in ((2, ('quick', 'thorough')), (3, ('quick', 'thorough')), (4, ('thorough',))):
        def ob(h, order=order):
            """the writer on meshes produced by the REAL Mesh.create_higher_order_mesh_from_simplex_mesh (concrete ids) for a family of
            simplex meshes including ones with a node no element references, with symbolic coordinates and a symbolic nodal field:
            every id in CELLS refers to a written point, and the coordinates / field value found there are the ones supplied for
            the mesh node the element refers to (the writer does not renumber, so simplexNodesOrdinals must be the identity on
            the vertex ids in use)"""
            from ..core import REPO
            from optimism import Mesh
            src = open(os.path.join(REPO, REL)).read()
            h.encoded('optimism.VTKWriter (real source on object arrays of symbolic entries; file sha1=%s)' % hashlib.sha1(src.encode()).hexdigest()[:12],
                      Mesh.create_higher_order_mesh_from_simplex_mesh, Mesh.create_edges, Mesh.construct_structured_mesh, Mesh.construct_mesh_from_basic_data)
            h.bounds('simplex meshes %s elevated to order %d, plain and with useBubbleElement=True, by the real code (ids, element count and node count concrete); all real values of every node coordinate and of a nodal scalar field' % (list(SIMPLEX_FAMILY), order))
            h.assume_note('the elevation runs concretely (jax) on the concrete simplex mesh; its conns / simplexNodesOrdinals / parentElement are handed to the writer together with SYMBOLIC '
                          'coordinates and field values (the writer reads coordinates only to copy them); stubs as in O3 (open recorder, np.zeros allocates object arrays)')
            h.outside('simplex meshes outside the family (the identity-on-used-ids link is a ground fact per mesh); coordinates produced by the elevation (C13)')
            px.run_px(h, 'elevated', make_elevated_harness(order), cap=20, order=('core',), feas_ms=300,
                      expect_goals=ELEVATED_GOALS + (['elevated_mesh_ordinals_are_identity_on_the_vertex_ids_cells_use'] if order != 2 else []))
        obligation(P, 'O5.real_elevated_mesh_round_trip[order %d]' % order, tiers=tiers, cap=300)(ob)


_register_elevated()


@obligation(P, 'O0.shape_model_agrees_with_numpy', cap=300)
def o0(h):
    """translator validation (ground facts, not the check): on concrete sizes the shape-level numpy shim + TABLE stub give,
    section by section, the same declared integers, rows and values as the file the real writer produces with real
    numpy / jax arrays"""
    h.encoded('vf.props.c20:ShapeArr/ShapeNP/table_stub (the model) against optimism.VTKWriter on numpy and jax arrays')
    h.bounds('12 configurations per degree 1..4 (spheres 0..2, every contact-edge pattern and field set of O1), nSimplexNodes=5, nElements=3')
    if h.replay is not None:
        return
    # aliasing semantics of the `np` stand-ins against real numpy (O6 relies on them)
    probes = []
    for mk in (lambda: onp.arange(6.0), lambda: onp.arange(6).reshape(3, 2), lambda: onp.array([SVal(z3.Real('p%d' % i)) for i in range(4)] + [None], dtype=object)[:4]):
        for npx in (onp, ValNP()):
            a = mk()
            probes.append((npx.asarray(a) is a, npx.array(a) is not a, bool(onp.shares_memory(a.reshape((-1, 1)), a)), bool(onp.shares_memory(npx.asarray(a).reshape((-1, 1)), a)),
                           not onp.shares_memory(npx.array(a), a), not onp.shares_memory(a[onp.arange(2)], a)))
    sa = ShapeArr((3, 2), float)
    shim = ShapeNP()
    h.fact('np_stand_ins_alias_like_numpy', all(all(p) for p in probes) and shim.asarray(sa) is sa and shim.array(sa) is not sa,
           detail='asarray(x) is x, array(x) is a copy, reshape of an ndarray is a view, fancy indexing copies: %s' % probes)
    for d in (1, 2, 3, 4):
        bad, n = [], 0
        for i in range(12):
            vals = dict(degree_index=0, nSimplexNodes=5, nElements=3, nNodes=5 if d == 1 else 5 + 3 * (d - 1) + 2, nSpheres=i % 3, edgePattern=i % 4,
                        fieldSet=(i // 3) % 4, fieldSpatialDim=1 + i % 3, rows_cell=3 if i % 5 else 4, elementKind_index=(i // 2) % 2)
            vals.update({'rows_' + f[1]: vals['nNodes'] + (i % 2) for fs in QUICK['fsets'] for f in FIELD_SETS[fs] if f[0] == 'node'})
            out = {}
            ex = px.Explorer(concrete=vals)
            ex.explore(make_harness((d,), QUICK['spheres'], QUICK['edges'], QUICK['fsets'], nwrites=2, collect=out))
            n += 1
            if not (set(out) == {'shape', 'jax', 'numpy'} and out['shape'] == out['numpy'] == out['jax']):
                bad.append((vals, {k: v for k, v in out.items()}, ex.path_notes))
        h.fact('shape_model_agrees_with_numpy[degree %d]' % d, not bad, detail='%d configurations compared; mismatches: %s' % (n, str(bad[:2])[:1500]))


QUICK = dict(spheres=(0, 1, 2), edges=('none', 'one_call_1', 'one_call_2', 'two_calls_1_1'), fsets=('none', 'nodal_svt', 'cell_svt', 'mixed'))
THORO = dict(spheres=(0, 1, 3), edges=('empty_then_1', 'two_calls_2_1', 'one_call_1'), fsets=('cell_first_many_types', 'nodal_tensor_only', 'cell_scalar_only'))


def _register(obname, doc, conf, tiers, nwrites, shared, cap):
    for d in (1, 2, 3, 4):
        def ob(h, d=d):
            _note(h, (d,), conf['spheres'], conf['edges'], conf['fsets'], nwrites)
            px.run_px(h, 'write', make_harness((d,), conf['spheres'], conf['edges'], conf['fsets'], nwrites=nwrites, shared_cell_rows=shared),
                      cap=20, order=('core',), feas_ms=300, expect_goals=GOALS)
        ob.__doc__ = doc
        obligation(P, '%s[degree %d]' % (obname, d), tiers=tiers, cap=cap)(ob)


_register('O1.sections_and_rewrite', 'every section of the written file declares what it contains, data arrays match POINTS/CELLS, and a second write() '
          'gives the same token stream; all sizes symbolic, spheres 0..2, contact edges 0..2, four field sets', QUICK, ('quick', 'thorough'), 2, True, 300)
_register('O2.more_fields_edges_three_writes', 'same goals for three consecutive write() calls, all VTK data types, an empty contact-edge call, 3 contact edges, '
          'independent row counts per cell field', THORO, ('thorough',), 3, False, 900)
