"""C10 — stress and tangent from autodiff: RULE LEVEL ONLY (DESIGN.md section 5 C10).

The hand-written derivative rules (safe_sqrt, find_root's implicit-function tangent, the symmetric-tensor-function jvp rules)
and the stress output path are checked against the analytic derivative identities with the solver. A comparison of whole
material models with numerical differentiation is outside the claim (a derivative is a limit; see h.outside)."""
import math
import numpy as onp
import jax
import jax.numpy as jnp
import z3

from ..core import obligation
from ..jxh import Case
from .. import jx, sym
from ..sym import Le, Lt, Eq, Holds, v_abs, v_lt, v_le, v_eq, v_and, v_or, v_not, v_sub, v_add, v_mul, v_sq, v_dot, v_sum, v_if
from . import c12

P = 'C10'

NA = ('whole-model comparison of stress / tangent with numerical differentiation of the energy density (a derivative is a limit: not '
      'expressible as a quantifier-free bounded query except through a Taylor-remainder bound; the energies route through the '
      'eigen-solver and transcendental functions)',
      'J2Plastic / HyperViscoelastic / MultiBranchHyperViscoelastic energies as wholes, histories, yield switch',
      'the directional second derivative (tangent) of material models; only first-order rules are checked',
      'rounding error of the evaluation (all values are mathematical reals)')

DESIGNED_NOT_REGISTERED = [
    ('O4 as structural (syntactic) equality of jaxprs', 'replaced by the stronger solver query: output energy density / stress == value / jax.grad of the '
     'material energy density at the harness-built displacement gradient, symbolic nodal displacements and moduli'),
]


def s0(a):
    return a[()] if hasattr(a, 'shape') and a.shape == () else a


# ------------------------------------------------------------------------------------------------ O1
@obligation(P, 'O1.safe_sqrt_rule', cap=120)
def o1(h):
    """Math.safe_sqrt: value sqrt(x); jvp tangent and jax.grad equal v/(2 sqrt x) for x > 0 and exactly 0 for x <= 0
    (at x == 0 the code takes the `x <= 0` branch: derivative 0, not +inf)"""
    from optimism import Math
    h.encoded(Math.safe_sqrt, Math.safe_sqrt_jvp)
    h.bounds('x, v: all reals (x > 0, x == 0, x < 0 as separate hypotheses)')
    h.outside('the primal value for x < 0 (NaN in IEEE arithmetic; only the derivative 0 is claimed there)', *NA)

    def fn(x, v):
        f, df = jax.jvp(Math.safe_sqrt, (x,), (v,))
        return f, df, jax.grad(Math.safe_sqrt)(x)
    c = Case(h, fn, dict(x=0.7, v=0.3), sampler=lambda rng: [abs(rng.normal()) + 0.05, rng.normal()], label='safe_sqrt')

    def fin(a):
        # float replay: an infinite derivative must count as 'not equal' (sym.Eq's tolerance is relative to the magnitudes)
        return float('nan') if isinstance(a, float) and math.isinf(a) else a

    def spec(i, o):
        x, v, f, df, g = s0(i['x']), s0(i['v']), s0(o[0]), fin(float(s0(o[1])) if not sym.isz(s0(o[1])) else s0(o[1])), \
            fin(float(s0(o[2])) if not sym.isz(s0(o[2])) else s0(o[2]))
        pos = v_lt(0.0, x)
        return [], [Eq(v_sq(f), x, when=v_le(0.0, x), name='value_squared_is_x'),
                    Le(0.0, f, when=v_le(0.0, x), name='value_nonnegative'),
                    Eq(v_mul(v_mul(2.0, f), df), v, when=pos, name='jvp_is_v_over_2_sqrt_x'),
                    Eq(v_mul(v_mul(2.0, f), g), 1.0, when=pos, name='grad_is_1_over_2_sqrt_x'),
                    Eq(df, 0.0, when=v_le(x, 0.0), name='jvp_zero_for_x_le_0'),
                    Eq(g, 0.0, when=v_le(x, 0.0), name='grad_zero_for_x_le_0'),
                    Eq(df, 0.0, when=v_eq(x, 0.0), name='jvp_zero_at_exactly_0')]
    c.prove('rule', spec, order=('nlsat', 'core'), denoms=False, cap=30)


# ------------------------------------------------------------------------------------------------ O2
def _nan_to_symbol(ctx):
    """NaN literals (the `not bracketed` / `not converged` results of rtsafe_) are encoded as one unconstrained real: every path
    on which they could reach the output is cut by the loop contract (converged = True)"""
    nan_sym = ctx.fresh('nan')
    orig = jx.ELEMENTWISE['select_n']

    def hook(ctx_, eqn, iv):
        iv2 = [iv[0]] + [jx.ew(lambda a: nan_sym if (isinstance(a, float) and a != a) else a, v) for v in iv[1:]]
        return orig(ctx_, eqn.params, iv2)
    ctx.hooks['select_n'] = hook


@obligation(P, 'O2.find_root_tangent', cap=240)
def o2(h):
    """jax.grad of find_root's result w.r.t. a parameter theta of f(x, theta) equals -f_theta/f_x at the returned root (implicit
    function theorem), for an arbitrary C1 family f(x,theta) = u(x) w(theta) + z(theta) with u, w, z uninterpreted (so that
    f, f_x, f_theta at the root are independent symbols); the Newton/bisection loop is replaced by its contract"""
    from optimism import ScalarRootFind as SR
    h.encoded(SR.find_root, SR.rtsafe_)
    h.bounds('settings: x_tol >= 0 and r_tol >= 0 symbolic (all non-negative reals; separate queries for the J2 combination x_tol = 0 < r_tol and the default r_tol = 0 < x_tol), max_iters = 50',
             'theta, x0, bracket ends: all reals; f = u(x) w(theta) + z(theta) with u, w, z arbitrary differentiable functions (uninterpreted, '
             "their values and derivatives at the points that occur are free reals); f_x(root, theta) != 0 (the rule divides by it)")
    h.outside('that the loop finds a root (C17)', 'non-bracketed / non-converged calls (result NaN)', *NA)
    h.assume_note('while loop of rtsafe_ replaced by a contract stub (ctx.while_mode hook): returns an arbitrary real r with converged = True; '
                  'f(r, theta) = 0 is assumed (it is C17\'s conclusion with r_tol -> 0); NaN literals are an unconstrained real cut off by converged = True',
                  'uf primitives: u, w, z and their first derivatives are uninterpreted, hash-consed on their argument terms')

    def F(x, th):
        return jx.uf(x, 'u', 0) * jx.uf(th, 'w', 0) + jx.uf(th, 'z', 0)

    def root(th, x0, lo, hi, xtol, rtol):
        st = SR.get_settings(max_iters=50, x_tol=xtol, r_tol=rtol)          # the tolerances are traced: the claim quantifies over the settings
        return SR.find_root(lambda x: F(x, th), x0, jnp.array([lo, hi]), st)[0]

    cj = jax.make_jaxpr(lambda th, x0, lo, hi, xtol, rtol: (root(th, x0, lo, hi, xtol, rtol), jax.grad(root)(th, x0, lo, hi, xtol, rtol)))(0.3, 0.5, 0.0, 1.0, 1e-13, 0.0)
    nwhile = len(jx.find_eqns(cj.jaxpr, 'while'))
    h.fact('loop_present', nwhile >= 1, '%d while equation(s) in the traced find_root (value and grad)' % nwhile, nontrivial=False)
    ctx = jx.Ctx()
    _nan_to_symbol(ctx)
    roots = []

    def hook(ctx_, eqn, cc, bc, carry):
        # carry = (root, dx, dxOld, F, DF, xl, xh, converged, i); one shared root for every copy of the loop
        if not roots:
            roots.append(ctx_.fresh('root'))
        out = []
        for k, v in enumerate(eqn.outvars):
            o = onp.empty((), dtype=object)
            o[()] = roots[0] if k == 0 else (True if v.aval.dtype == onp.bool_ else (1 if onp.issubdtype(v.aval.dtype, onp.integer) else ctx_.fresh('loopout')))
            out.append(o)
        return out
    ctx.while_mode['default'] = ('hook', hook)
    th, x0, lo, hi, xtol, rtol = z3.Real('theta'), z3.Real('x0'), z3.Real('lo'), z3.Real('hi'), z3.Real('x_tol'), z3.Real('r_tol')
    rt, g = [s0(o) for o in jx.eval_jaxpr(ctx, cj.jaxpr, cj.consts, th, x0, lo, hi, xtol, rtol)]
    r = roots[0]
    h.fact('returned_value_is_loop_root', bool(sym.isz(rt) and rt.get_id() == r.get_id()), 'find_root returns the loop result unchanged when converged', nontrivial=False)
    # the oracle partial derivatives of the same family at (r, theta): same uf symbols by hash-consing
    cjo = jax.make_jaxpr(lambda x, t: (F(x, t),) + tuple(jax.grad(F, argnums=(0, 1))(x, t)))(0.5, 0.3)
    fv, fx, ft = [s0(o) for o in jx.eval_jaxpr(ctx, cjo.jaxpr, cjo.consts, r, th)]

    def ufv(name, order, arg):
        return ctx.ufs[('uf', name, order, jx.term_key(arg))][0]
    inputs = dict(theta=th, r=r, u0=ufv('u', 0, r), u1=ufv('u', 1, r), w0=ufv('w', 0, th), w1=ufv('w', 1, th), z0=ufv('z', 0, th), z1=ufv('z', 1, th),
                  x_tol=xtol, r_tol=rtol)
    settings_ok = [xtol >= 0, rtol >= 0]
    assumes = ctx.all_side() + ctx.nonzero_denoms() + [fv == 0, fx != 0] + settings_ok

    def concrete(vals):
        """real find_root (real loop, the model's settings) on a concrete family that interpolates the model at (r, theta): w, z affine in theta,
        u QUADRATIC in x with the model's value and slope at r and curvature 1 (a residual that is nonlinear in x: slope at the root != slope
        at the initial guess). Both tolerances are scaled by one common factor so that the loop still resolves the root to ~1e-10."""
        v = {k: float(x) for k, x in vals.items()}

        def Fc(x, t):
            dx = x - v['r']
            return (v['u0'] + v['u1'] * dx + dx * dx) * (v['w0'] + v['w1'] * (t - v['theta'])) + (v['z0'] + v['z1'] * (t - v['theta']))
        slope = abs(v['u1'] * v['w0']) + 1e-300
        fac = min(1.0, 1e-10 * slope / max(v['r_tol'], 1e-300), 1e-10 / max(v['x_tol'], 1e-300))
        st = SR.get_settings(max_iters=50, x_tol=v['x_tol'] * fac, r_tol=v['r_tol'] * fac)
        half = 0.25 * slope / max(abs(v['w0']), 1e-300)            # keep the quadratic monotone on the bracket: |2 dx| < |u1|
        half = min(1.0, half)

        def rootc(t):
            return SR.find_root(lambda x: Fc(x, t), v['r'] + 0.3 * half, jnp.array([v['r'] - half, v['r'] + half]), st)[0]
        rr = float(rootc(v['theta']))
        gg = float(jax.grad(rootc)(v['theta']))
        fxc, ftc = [float(a) for a in jax.grad(Fc, argnums=(0, 1))(rr, v['theta'])]
        ok = (not math.isnan(rr)) and fxc != 0.0 and v['x_tol'] >= 0 and v['r_tol'] >= 0 and \
            abs(float(Fc(rr, v['theta']))) <= 1e-6 * (abs(v['u0'] * v['w0']) + abs(v['z0']) + slope)
        return ok, Eq(gg * fxc, -ftc, scale=abs(fxc) + abs(ftc)), dict(root=rr, grad=gg, f_x=fxc, f_theta=ftc, x_tol=st.x_tol, r_tol=st.r_tol)
    h.prove('grad_times_f_x_is_minus_f_theta', assumes, Eq(v_mul(g, fx), v_sub(0.0, ft), scale=1.0), inputs=inputs, concrete=concrete,
            cap=30, order=('nlsat', 'core'))
    # the rule does not depend on f(r) = 0 being exact (it is the formula evaluated at the returned point)
    h.prove('same_without_exact_root', ctx.all_side() + ctx.nonzero_denoms() + [fx != 0] + settings_ok, Eq(v_mul(g, fx), v_sub(0.0, ft), scale=1.0), inputs=inputs,
            concrete=concrete, cap=30, order=('nlsat', 'core'))
    # the combination used by the J2 return map: x_tol = 0, r_tol > 0
    h.prove('j2_settings_x_tol_0_r_tol_positive', assumes + [xtol == 0, rtol > 0], Eq(v_mul(g, fx), v_sub(0.0, ft), scale=1.0), inputs=inputs,
            concrete=concrete, cap=30, order=('nlsat', 'core'))
    h.prove('default_settings_r_tol_0', assumes + [xtol > 0, rtol == 0], Eq(v_mul(g, fx), v_sub(0.0, ft), scale=1.0), inputs=inputs,
            concrete=concrete, cap=30, order=('nlsat', 'core'))


# ------------------------------------------------------------------------------------------------ O3 (shared with C12-O5)
@obligation(P, 'O3a.jvp_helper_structure', cap=240)
def o3a(h):
    """shared with C12-O5a: the helper of all symmetric-tensor-function jvp rules has the Daleckii-Krein form for arbitrary func', rd"""
    c12.o5a(h)
    h.outside(*NA)


@obligation(P, 'O3b.rule_sqrt', cap=300)
def o3b_sqrt(h):
    """shared with C12-O5b: jvp rule of sqrt_symm (structure for any stub pair + coefficient entries = divided differences, confluent switch)"""
    c12._rule_obligation(h, 'sqrt')
    h.outside(*NA)


@obligation(P, 'O3b.rule_exp', cap=300)
def o3b_exp(h):
    """shared with C12-O5b: jvp rule of exp_symm"""
    c12._rule_obligation(h, 'exp')
    h.outside(*NA)


@obligation(P, 'O3b.rule_log', cap=300)
def o3b_log(h):
    """shared with C12-O5b: jvp rule of log_symm"""
    c12._rule_obligation(h, 'log')
    h.outside(*NA)


@obligation(P, 'O3c.sqrt_defining_equation_inplane', cap=300)
def o3c(h):
    """shared with C12-O5c: L S + S L = sym(dC) through the real jvp rule of sqrt_symm, modulo the eigen contract"""
    c12.o5c(h)
    h.outside(*NA)


@obligation(P, 'O3d.sqrt_equation_all_rotations_chain', tiers=('thorough',), cap=1200)
def o3d(h):
    """shared with C12-O5d: cut-lemma chain to all orientations"""
    c12.o5d(h)
    h.outside(*NA)


# ------------------------------------------------------------------------------------------------ O4
TRI = onp.array([[0.1, 0.0], [1.2, 0.3], [0.2, 0.9]])


class det_stub:
    """jnp.linalg.det (3x3) := its Leibniz polynomial while TRACING. The primal of jnp.linalg.det is that closed form already, but its
    derivative rule goes through an LU factorisation (jax _cofactor_solve), which has no relational encoding; differentiating the
    polynomial gives the same cofactor matrix. Ground validation and replays run the real jnp.linalg.det (eager, untraced)."""

    def __enter__(self):
        self.old = jnp.linalg.det

        def det(a):
            if a.shape != (3, 3):
                return self.old(a)
            return a[0, 0] * (a[1, 1] * a[2, 2] - a[1, 2] * a[2, 1]) - a[0, 1] * (a[1, 0] * a[2, 2] - a[1, 2] * a[2, 0]) \
                + a[0, 2] * (a[1, 0] * a[2, 1] - a[1, 1] * a[2, 0])
        jnp.linalg.det = det

    def __exit__(self, *a):
        jnp.linalg.det = self.old


def _one_element(degree):
    from optimism import Mesh, FunctionSpace, QuadratureRule
    mesh = Mesh.construct_mesh_from_basic_data(jnp.asarray(TRI), jnp.array([[0, 1, 2]]), None)
    qr = QuadratureRule.create_quadrature_rule_on_triangle(degree=degree)
    return FunctionSpace.construct_function_space(mesh, qr)


def _mech_case(h, which, degree):
    from optimism import Mechanics, FunctionSpace
    from optimism.material import LinearElastic, Neohookean
    with jax.ensure_compile_time_eval():
        fs = _one_element(degree)
    nq = int(fs.vols.shape[1])
    vols = onp.asarray(fs.vols)[0]
    dN = onp.asarray(fs.shapeGrads)[0]       # (nq, 3 nodes, 2)

    def model(E, nu):
        props = {'elastic modulus': E, 'poisson ratio': nu}
        if which == 'linear':
            props['strain measure'] = 'linear'
            return LinearElastic.create_material_model_functions(props)
        props['version'] = which
        return Neohookean.create_material_model_functions(props)

    def fn(U, E, nu):
        if isinstance(U, jax.core.Tracer):
            with det_stub():
                return fn_(U, E, nu)
        return fn_(U, E, nu)

    def fn_(U, E, nu):
        mat = model(E, nu)
        mf = Mechanics.create_mechanics_functions(fs, 'plane strain', mat)
        st = mf.compute_initial_state()
        W, Pk = mf.compute_output_energy_densities_and_stresses(U, st)
        Etot = mf.compute_strain_energy(U, st)
        fint = jax.grad(mf.compute_strain_energy)(U, st)
        # oracle: the material's own energy density and its jax.grad at the harness-built plane-strain displacement gradient
        Wo, Po = [], []
        for q in range(nq):
            H2 = U.T @ jnp.asarray(dN[q])                               # H_ij = sum_a U[a,i] dN_a/dX_j
            H3 = jnp.zeros((3, 3)).at[0:2, 0:2].set(H2)
            w, p = jax.value_and_grad(mat.compute_energy_density)(H3, st[0, q], 0.0)
            Wo.append(w)
            Po.append(p)
        return W[0], Pk[0], Etot, fint, jnp.stack(Wo), jnp.stack(Po)

    def smp(rng):
        return [0.05 * rng.normal(size=(3, 2)), rng.uniform(1.0, 10.0), rng.uniform(0.05, 0.45)]
    c = Case(h, fn, dict(U=0.01 * onp.arange(6).reshape(3, 2), E=2.0, nu=0.25), sampler=smp, label='mechanics_%s_q%d' % (which, nq), jit=False)
    return c, vols, dN, nq


def _mech_prove(h, which, degree, cap=60):
    c, vols, dN, nq = _mech_case(h, which, degree)

    def spec(i, o):
        W, Pk, Etot, fint, Wo, Po = o
        W, Wo = list(W), list(Wo)
        asm = []
        if which != 'linear':
            # J = det(I + H) > 0 at every quadrature point (domain of log J / J^(-2/3); H is 2x2 embedded, so J is the 2x2 determinant)
            U = i['U']
            for q in range(nq):
                Hq = [[v_sum([v_mul(U[a][k], float(dN[q, a, j])) for a in range(3)]) for j in range(2)] for k in range(2)]
                asm.append(v_lt(0.0, v_sub(v_mul(v_add(1.0, Hq[0][0]), v_add(1.0, Hq[1][1])), v_mul(Hq[0][1], Hq[1][0]))))
        atoms = [Eq(W, Wo, name='output_density_is_material_energy_density'),
                 Eq(sym.flat(Pk), sym.flat(Po), name='output_stress_is_grad_of_energy_density'),
                 Eq(s0(Etot), v_sum([v_mul(float(vols[q]), W[q]) for q in range(nq)]), name='strain_energy_integrates_the_output_density')]
        # internal force = B^T P: d(strain energy)/dU[a,i] = sum_q vol_q sum_j P_q[i,j] dN_a/dX_j
        f = []
        for a in range(3):
            for k in range(2):
                # (vol and dN as separate exact rationals: their float product would be rounded)
                f.append(v_sum([v_mul(float(vols[q]), v_mul(float(dN[q, a, j]), Pk[q][k][j])) for q in range(nq) for j in range(2)]))
        atoms.append(Eq(sym.flat(fint), f, name='grad_of_strain_energy_is_Bt_output_stress'))
        return asm, atoms
    # log(1) = 0 and pow(1, p) = 1: true facts that keep counterexample models away from the stress-free state, where the
    # uninterpreted log / pow could make a spurious (unreplayable) difference
    ax = []
    for v, n, a in c.ctx.ufs.values():
        if n == 'log':
            ax.append(z3.Implies(a[0] == 1, v == 0))
        if n == 'pow':
            ax.append(z3.Implies(a[0] == 1, v == 1))
    c.prove('%s_q%d' % (which, nq), spec, order=('core', 'nlsat'), denoms=True, cap=cap, extra_assumes=ax)


def _o4(h, materials):
    from optimism import Mechanics, FunctionSpace
    from optimism.material import LinearElastic, Neohookean
    h.encoded(Mechanics.create_mechanics_functions, Mechanics._compute_strain_energy, Mechanics.strain_energy_density_to_lagrangian_density,
              Mechanics.plane_strain_gradient_transformation, FunctionSpace.evaluate_on_block, FunctionSpace.integrate_over_block,
              FunctionSpace.evaluate_on_element, FunctionSpace.compute_element_field_gradient)
    if 'linear' in materials:
        h.encoded(LinearElastic._linear_elastic_energy_density, LinearElastic.linear_strain)
    else:
        h.encoded(Neohookean._adagio_neohookean, Neohookean._neohookean_3D_energy_density)
    h.bounds('one P1 triangle with vertices (0.1,0),(1.2,0.3),(0.2,0.9), plane strain; quadrature degree 1 (1 point) and 2 (3 points); '
             'nodal displacements U (6 reals; neo-Hookean: with det F > 0 at every quadrature point), elastic modulus and Poisson ratio: all reals (denominators 1+nu, 1-2nu assumed non-zero)',
             'materials: LinearElastic (linear strain); Neohookean adagio version (default) in the quick tier, + coupled version in the thorough tier')
    h.outside('other mesh sizes / element orders / the multi-block factory / axisymmetric mode / pressure projection', *NA)
    h.assume_note('log and pow (non-integer exponent) are uninterpreted functions (Ackermannised): the identity holds for any such functions',
                  'all symbolic denominators are assumed non-zero (1+nu, 1-2nu, det F and its powers)',
                  'jnp.linalg.det of a 3x3 is replaced while tracing by its Leibniz polynomial (its jax derivative rule is LU-based); translator '
                  'validation compares this trace with the real function (real det) on ground inputs, replays run the real det')
    for which in materials:
        for degree in (1, 2):
            _mech_prove(h, which, degree)


@obligation(P, 'O4.output_stress_linear_elastic', cap=300)
def o4_lin(h):
    """Mechanics.compute_output_energy_densities_and_stresses returns, at every quadrature point of a one-element mesh, the value
    and the jax.grad (w.r.t. the 3x3 displacement gradient) of the same material energy density that compute_strain_energy
    integrates: W_out = W(H), P_out = dW/dH at H = plane-strain gradient of the nodal displacements, compute_strain_energy =
    sum_q vol_q W_out,q and d(compute_strain_energy)/dU = B^T P_out; all nodal displacements and moduli symbolic (linear elastic)"""
    _o4(h, ('linear',))


@obligation(P, 'O4.output_stress_neohookean', cap=600)
def o4_neo(h):
    """as O4.output_stress_linear_elastic for the neo-Hookean models (log J and J^(-2/3) uninterpreted)"""
    _o4(h, ('adagio', 'coupled') if h.thorough() else ('adagio',))


# ------------------------------------------------------------------------------------------ O5: J2 small-strain consistent tangent
# (added by the C09 builder; machinery from vf.props.c09: rtsafe_ contract stub, J2Case with eager replay of the unmodified code)
def _j2_tangent_fn():
    from . import c09

    def fn(dg, st, V, E, nu, Y0, H, dt):
        J2, Hd, SRF, TM = c09._mods()
        m = c09.make_model(E, nu, Y0, (H,))
        props = J2.make_properties(E, nu, Y0)
        hm = Hd.create_hardening_model({'hardening model': 'linear', 'yield strength': Y0, 'hardening modulus': H})
        c09.site('a')
        W = lambda d: m.compute_energy_density(d, st, dt)
        W0 = W(dg)
        # (a) the library: stress and tangent action through the real pipeline (update inside the energy, find_root's custom_root rule)
        S, TV = jax.jvp(jax.grad(W), (dg,), (V,))
        # (b) the oracle: chain rule over the real PRE-ROOT functions with eqps as an explicit argument
        x = jax.lax.stop_gradient(m.compute_state_new(dg, st, dt)[0])
        e0 = st[0]
        el = lambda d: J2.compute_elastic_linear_strain(d, st)

        def Wexp(d, xx):
            Ee = el(d)
            return J2.elastic_free_energy(Ee - (xx - e0) * J2.compute_flow_direction(Ee), props) + hm.compute_hardening_energy_density(xx, e0, dt)
        res = lambda d, xx: J2.r(el(d), xx, e0, dt, props, hm)
        Pexp = jax.grad(Wexp, 0)
        P0, PV = jax.jvp(lambda d: Pexp(d, x), (dg,), (V,))
        Px = jax.jacfwd(Pexp, 1)(dg, x)
        r0, rV = jax.jvp(lambda d: res(d, x), (dg,), (V,))
        dxV = -rV / jax.grad(res, 1)(dg, x)
        D0 = TM.dev(el(dg))
        return dict(W0=W0, S=S, TV=TV, P0=P0, orT=PV + Px * dxV, Wx=jax.grad(Wexp, 1)(dg, x), r0=r0, DD0=jnp.tensordot(D0, D0), mu=props[J2.PROPS_MU])
    return fn


def _j2_fd_reference(args, out):
    """replay side only: 4th-order central differences of the REAL energy density (unmodified code, real root finder) at the model point"""
    from . import c09
    dg, st, V, E, nu, Y0, H, dt = args
    m = c09.make_model(float(E), float(nu), float(Y0), (float(H),))
    Wj = jax.jit(lambda d: m.compute_energy_density(d, jnp.asarray(st), float(dt)))
    Wr = lambda d: float(Wj(jnp.asarray(d)))
    d0, Vn = onp.asarray(dg, dtype=float), onp.asarray(V, dtype=float)
    hh = 1e-3 * max(float(onp.sqrt(onp.asarray(out['DD0']))), 1e-6)
    vs = max(float(onp.abs(Vn).max()), 1e-300)
    co = {-2: 1.0 / 12, -1: -2.0 / 3, 1: 2.0 / 3, 2: -1.0 / 12}
    fdS, fdT = onp.zeros((3, 3)), onp.zeros((3, 3))
    for a in range(3):
        for b in range(3):
            e = onp.zeros((3, 3))
            e[a, b] = 1.0
            fdS[a, b] = sum(cp * Wr(d0 + p * hh * e) for p, cp in co.items()) / hh
            fdT[a, b] = sum(cp * cq * Wr(d0 + p * hh * e + q * (hh / vs) * Vn) for p, cp in co.items() for q, cq in co.items()) / (hh * hh / vs)
    return dict(fdS=fdS, fdT=fdT)


def _j2_direction_build(c09, frame, direction):
    def build(free):
        d = {'principal': c09.build_principal, 'plane': c09.build_plane, 'full': c09.build_full}[frame](free)
        V = free['V'].copy()
        if direction == 'shear':
            for k in range(3):
                V[k, k] = 0.0
        elif direction in ('volumetric', 'radial', 'transverse'):
            t = free['V'][0, 0]
            e = [sym.toz(d['dg'][k, k]) - sym.toz(d['st'][1 + 4 * k]) for k in range(3)]
            tr3 = (e[0] + e[1] + e[2]) / 3
            dd = [x - tr3 for x in e]
            vec = {'volumetric': [1, 1, 1], 'radial': dd, 'transverse': [dd[1] - dd[2], dd[2] - dd[0], dd[0] - dd[1]]}[direction]
            V = onp.zeros((3, 3), dtype=object)
            for a in range(3):
                for b in range(3):
                    V[a, b] = (t * vec[a]) if a == b else 0.0
        d['V'] = V
        return d
    return build


@obligation(P, 'O5.j2_small_strain_consistent_tangent', cap=900)
def o5_j2(h):
    """J2 plasticity, small strain, linear hardening, yielding branch: stress jax.grad(W) and tangent action jax.jvp(jax.grad(W))[V] of the
    real energy density (state update inside, root by find_root's custom_root rule) equal the chain-rule derivatives assembled from the
    real pre-root functions with eqps explicit: stress = dWexp/dE (implicit term vanishes at r = 0), tangent[V] = d2Wexp/dE2[V] +
    d2Wexp/dE deqps * (-r_E[V]/r_eqps)"""
    from . import c09
    from .c09 import J2Case, box_moduli, box_state, state_invariant, flat, tob, toz
    J2, Hd, SRF, TM = c09._mods()
    h.encoded(J2.create_material_model_functions, J2._energy_density, J2.compute_state_increment, J2.update_state, J2.compute_flow_direction, J2.incremental_potential,
              'optimism.material.J2Plastic:r = jax.jacfwd(incremental_potential, 1)', J2.elastic_free_energy, J2.compute_elastic_linear_strain, Hd.create_hardening_model, Hd.linear,
              SRF.find_root, 'jax.lax.custom_root JVP rule with find_root\'s tangent_solve (y/g(1.0)), differentiated twice (jvp of grad)')
    h.bounds('moduli (traced): Y0 > 0, %g <= E/Y0 <= %g, 0 <= nu <= %g, 0 <= H <= E; 0 <= eqps <= %g, strains in [-%g, %g]; yielding branch with |dev strain|^2 > 1e-16'
             % (c09.EY_MIN, c09.EY_MAX, c09.NU_MAX, c09.EQPS_MAX, c09.STRAIN_MAX, c09.STRAIN_MAX),
             'stress: principal frame and plane-strain block (thorough: full 3x3), all 9 components',
             'tangent: principal frame (diagonal dispGrad and plastic strain); directions V: every off-diagonal V (6 symbolic components) in both tiers; '
             't*I (volumetric) quick; t*dev(strain) (radial) and t*(d2-d3, d3-d1, d1-d2) (deviatoric, orthogonal to the flow direction) thorough; t symbolic')
    h.assume_note('ScalarRootFind.rtsafe_ replaced by its contract with an EXACT root for this obligation: fresh x with lb <= x <= ub and r(x) == 0 (r the real residual closure); '
                  'find_root / custom_root and the tangent rule are the real code',
                  'oracle (b) of the design: chain rule over jax derivatives of the real pre-root functions elastic_free_energy, compute_flow_direction, the hardening energy and r with '
                  'eqps as an explicit argument (independent of update_state, _energy_density and the custom_root rule)',
                  'the tangent action is linear in V by construction of jax.jvp: off-diagonal V, I, dev(strain) and the orthogonal deviatoric diagonal direction span all V in the principal frame',
                  'symbolic denominators (1+nu, 1-2nu, |dev strain|, d r/d eqps = 2 mu N:N + H) are assumed non-zero',
                  'replay: real jax.jvp(jax.grad(W)) / jax.grad(W) of the unmodified code against 4th-order central finite differences of the real energy density at the model point (tolerance 1e-4*mu)')
    h.outside('strain frames other than the principal one for the tangent (the monolithic plane-strain query is unknown at 60 s)', 'Voce hardening', 'the elastic branch (plain quadratic energy)',
              'finite-deformation / Seth-Hill kinematics')
    fn = _j2_tangent_fn()
    ex = dict(dg=c09.EX['dg'], st=c09.EX['st'], V=onp.array([[.3, -.2, .1], [.5, .1, -.4], [.2, .3, -.1]]), E=200.0, nu=0.3, Y0=1.0, H=2.0, dt=1.0)

    def run(frame, direction, what, first, cap, order):
        c = J2Case(h, fn, ex, build=_j2_direction_build(c09, frame, direction), sampler=None, label='j2_tangent[%s,%s]' % (frame, direction), assume_post=False,
                   validate=1 if first else 0, rtol=1e-6)
        c.replay_extra = _j2_fd_reference
        A = c.calls('a')
        exact = [z3.Implies(A['guard'], z3.And(toz(A['rx']) == 0, toz(A['lb']) <= toz(A['x']), toz(A['x']) <= toz(A['ub'])))] if sym.isz(A['guard']) else []

        def spec(i, o, calls):
            g = calls('a')['guard']
            symbolic = sym.isz(g)
            mu = s0(o['mu'])
            nz0 = v_lt(1e-16, s0(o['DD0']))
            scale = mu if symbolic else 1e5 * float(mu)
            ats = []
            if 'stress' in what:
                ats.append(Eq(flat(o['S']), flat(o['P0'] if symbolic else o['fdS']), when=v_and(g, nz0), name='stress_is_partial_derivative_at_fixed_eqps', scale=scale))
                ats.append(Eq(s0(o['Wx']), 0.0, when=v_and(g, nz0), name='implicit_term_vanishes__dW_deqps_is_the_residual', scale=scale))
            if 'tangent' in what:
                ref = flat(o['orT'] if symbolic else o['fdT'])
                for k in range(9):
                    ats.append(Eq(flat(o['TV'])[k], ref[k], when=v_and(g, nz0), name='tangent_action_%d%d' % (k // 3, k % 3), scale=scale))
            return box_moduli(i, hmin_rel=0.0) + box_state(i) + state_invariant(i['st']), ats
        c.prove('%s.%s' % (frame, direction), spec, cap=cap, order=order, extra_assumes=exact)
    run('principal', 'shear', ('stress', 'tangent'), True, 60, ('core', 'nlsat'))
    run('principal', 'volumetric', ('tangent',), False, 60, ('core', 'nlsat'))
    run('plane', 'shear', ('stress',), False, 60, ('core', 'nlsat'))
    if h.thorough():
        run('principal', 'radial', ('tangent',), False, 300, ('nlsat', 'core'))
        run('principal', 'transverse', ('tangent',), False, 300, ('core', 'nlsat'))
        run('full', 'shear', ('stress',), False, 120, ('core', 'nlsat'))


# ------------------------------------------------------------------------------------------------ O6 (second-order rules, shared with C12-O8)
@obligation(P, 'O6a.second_order_helper_structure', cap=300)
def o6a(h):
    """shared with C12-O8a: the derivative of the jvp helper along a second direction is the product-rule derivative of its
    Daleckii-Krein form (eigen stub with the first-order perturbation contract, generic f', f'', rd tables, eigenframe)"""
    c12.o8a(h)
    h.outside(*NA)


@obligation(P, 'O6b.second_order_sqrt_identity', cap=300)
def o6b(h):
    """shared with C12-O8b: S'' S + S S'' + 2 S' S' = 0 through jax.jvp(jax.jvp(sqrt_symm)) with the perturbation-contract stub; replay
    on the unmodified library against finite differences of the first derivative"""
    c12.o8b(h)
    h.outside(*NA)


@obligation(P, 'O6c.second_derivative_at_repeated_eigenvalues_log', cap=400)
def o6c(h):
    """shared with C12-O8c (log_symm, the logarithmic-strain models): second derivative through the REAL pipeline at exactly repeated
    eigenvalues against the second Frechet derivative"""
    c12.o8c_log(h)
    h.outside(*NA)


# ------------------------------------------------------------------------------------------------ O7 (further rules shared with C12)
@obligation(P, 'O7a.rule_pow', cap=300)
def o7a(h):
    """shared with C12-O5b.rule_pow: jvp rule of pow_symm (Seth-Hill strains): structure + coefficient entries = divided differences of x^m"""
    c12.o5b_pow(h)
    h.outside(*NA)


@obligation(P, 'O7b.det_derivatives', cap=240)
def o7b(h):
    """shared with C12-O1b: jvp / grad of TensorMath.det and detpIm1 equal the derivative of the determinant polynomial for all 9 + 9 reals
    (volumetric energies reach det through detpIm1)"""
    c12.o1b(h)
    h.outside(*NA)


# ------------------------------------------------------------------------------------------------ O4 (multi-block factory)
QUAD = onp.array([[0.1, 0.0], [1.2, 0.3], [0.2, 0.9], [1.4, 1.1]])
QCONN = onp.array([[0, 1, 2], [1, 3, 2]])


def _mech_multiblock(h, order, degree, cap=60):
    """two triangles, two blocks with DIFFERENT materials (block 'A': linear elastic, block 'B': neo-Hookean adagio), dict given in `order`"""
    from optimism import Mechanics, Mesh, FunctionSpace, QuadratureRule
    from optimism.material import LinearElastic, Neohookean
    with jax.ensure_compile_time_eval():
        mesh = Mesh.construct_mesh_from_basic_data(jnp.asarray(QUAD), jnp.asarray(QCONN), {'A': jnp.array([0]), 'B': jnp.array([1])})
        fs = FunctionSpace.construct_function_space(mesh, QuadratureRule.create_quadrature_rule_on_triangle(degree=degree))
    nq = int(fs.vols.shape[1])
    vols, dN = onp.asarray(fs.vols), onp.asarray(fs.shapeGrads)          # (2, nq), (2, nq, 3, 2)
    elem_of = {'A': 0, 'B': 1}

    def models(EA, nuA, EB, nuB):
        mats = {'A': LinearElastic.create_material_model_functions({'elastic modulus': EA, 'poisson ratio': nuA, 'strain measure': 'linear'}),
                'B': Neohookean.create_material_model_functions({'elastic modulus': EB, 'poisson ratio': nuB, 'version': 'adagio'})}
        return {k: mats[k] for k in order}

    def fn(U, EA, nuA, EB, nuB):
        if isinstance(U, jax.core.Tracer):
            with det_stub():
                return fn_(U, EA, nuA, EB, nuB)
        return fn_(U, EA, nuA, EB, nuB)

    def fn_(U, EA, nuA, EB, nuB):
        mats = models(EA, nuA, EB, nuB)
        mf = Mechanics.create_multi_block_mechanics_functions(fs, 'plane strain', mats)
        st = mf.compute_initial_state()
        W, Pk = mf.compute_output_energy_densities_and_stresses(U, st)
        Etot = mf.compute_strain_energy(U, st)
        fint = jax.grad(mf.compute_strain_energy)(U, st)
        Wo, Po = [], []
        for key in ('A', 'B'):                     # oracle: each element with ITS OWN block's material
            e = elem_of[key]
            for q in range(nq):
                H2 = U[jnp.asarray(QCONN[e])].T @ jnp.asarray(dN[e, q])
                H3 = jnp.zeros((3, 3)).at[0:2, 0:2].set(H2)
                w, p = jax.value_and_grad(mats[key].compute_energy_density)(H3, st[e, q], 0.0)
                Wo.append(w)
                Po.append(p)
        return W, Pk, Etot, fint, jnp.stack(Wo).reshape(2, nq), jnp.stack(Po).reshape(2, nq, 3, 3)

    def smp(rng):
        return [0.05 * rng.normal(size=(4, 2)), rng.uniform(1.0, 10.0), rng.uniform(0.05, 0.45), rng.uniform(1.0, 10.0), rng.uniform(0.05, 0.45)]
    tag = 'multiblock[%s]_q%d' % (''.join(order), nq)
    c = Case(h, fn, dict(U=0.01 * onp.arange(8).reshape(4, 2), EA=2.0, nuA=0.25, EB=3.0, nuB=0.3), sampler=smp, label=tag, jit=False)

    def spec(i, o):
        W, Pk, Etot, fint, Wo, Po = o
        U = i['U']
        asm = []
        for q in range(nq):      # det F > 0 in the neo-Hookean element
            Hq = [[v_sum([v_mul(U[int(QCONN[1][a])][k], float(dN[1, q, a, j])) for a in range(3)]) for j in range(2)] for k in range(2)]
            asm.append(v_lt(0.0, v_sub(v_mul(v_add(1.0, Hq[0][0]), v_add(1.0, Hq[1][1])), v_mul(Hq[0][1], Hq[1][0]))))
        atoms = []
        for key in ('A', 'B'):
            e = elem_of[key]
            atoms.append(Eq(list(W[e]), list(Wo[e]), name='block_%s_output_density_is_own_material_energy_density' % key))
            atoms.append(Eq(sym.flat(Pk[e]), sym.flat(Po[e]), name='block_%s_output_stress_is_grad_of_own_energy_density' % key))
        atoms.append(Eq(s0(Etot), v_sum([v_mul(float(vols[e, q]), W[e][q]) for e in range(2) for q in range(nq)]), name='strain_energy_integrates_the_output_density'))
        f = [[0.0, 0.0] for _ in range(4)]
        for e in range(2):
            for a in range(3):
                n = int(QCONN[e][a])
                for k in range(2):
                    f[n][k] = v_add(f[n][k], v_sum([v_mul(float(vols[e, q]), v_mul(float(dN[e, q, a, j]), Pk[e][q][k][j])) for q in range(nq) for j in range(2)]))
        atoms.append(Eq(sym.flat(fint), [x for r in f for x in r], name='grad_of_strain_energy_is_Bt_output_stress'))
        return asm, atoms
    ax = []
    for v, n, a in c.ctx.ufs.values():
        if n == 'log':
            ax.append(z3.Implies(a[0] == 1, v == 0))
        if n == 'pow':
            ax.append(z3.Implies(a[0] == 1, v == 1))
    c.prove(tag, spec, order=('core', 'nlsat'), denoms=True, cap=cap, extra_assumes=ax)


@obligation(P, 'O4.output_stress_multi_block', cap=600)
def o4_multi(h):
    """Mechanics.create_multi_block_mechanics_functions on a 2-element mesh whose two blocks carry DIFFERENT materials (linear elastic, neo-Hookean):
    for every element, the output energy density and stress are the value and jax.grad of ITS OWN block's material density at the harness-built
    displacement gradient; compute_strain_energy = sum vol W_out; d(compute_strain_energy)/dU = B^T P_out; for both orders of the materials dict"""
    from optimism import Mechanics, FunctionSpace
    from optimism.material import LinearElastic, Neohookean
    h.encoded(Mechanics.create_multi_block_mechanics_functions, Mechanics._compute_strain_energy_multi_block, Mechanics._compute_initial_state_multi_block,
              Mechanics.strain_energy_density_to_lagrangian_density, Mechanics.plane_strain_gradient_transformation, FunctionSpace.evaluate_on_block,
              FunctionSpace.integrate_over_block, LinearElastic._linear_elastic_energy_density, Neohookean._adagio_neohookean)
    h.bounds('two P1 triangles (0.1,0),(1.2,0.3),(0.2,0.9),(1.4,1.1), conns (0,1,2),(1,3,2), blocks A = element 0 (LinearElastic, linear strain), '
             'B = element 1 (Neohookean adagio); materials dict in both orders (A,B) and (B,A); plane strain; quadrature degree 1 (quick) and 2 (thorough); '
             'nodal displacements (8 reals, det F > 0 in the neo-Hookean element) and the moduli E, nu of each block: all reals (denominators assumed non-zero)')
    h.outside('more than two blocks / elements, pressure projection, axisymmetric mode', *NA)
    h.assume_note('log and pow (non-integer exponent) are uninterpreted functions (Ackermannised)',
                  'all symbolic denominators are assumed non-zero (1+nu, 1-2nu, det F and its powers)',
                  'jnp.linalg.det of a 3x3 is replaced while tracing by its Leibniz polynomial (its jax derivative rule is LU-based); validation and replays run the real det')
    for degree in ((1, 2) if h.thorough() else (1,)):
        for order in (('A', 'B'), ('B', 'A')):
            _mech_multiblock(h, order, degree)


# ------------------------------------------------------------------------------------------------ O8 (second derivative of energy terms)
@obligation(P, 'O8.visco_neq_energy_second_derivative', cap=240)
def o8_neq(h):
    """HyperViscoelastic._neq_strain_energy(Ee, props) = G_neq |dev Ee|^2: value, jax.grad and the second derivative (jax.jvp of jax.grad)
    w.r.t. the elastic strain equal G |dev Ee|^2, 2 G dev(Ee) and 2 G dev(dE) for ALL Ee, INCLUDING states with dev(Ee) = 0 (reference
    configuration of virgin material, pure dilatation), which get their own queries pinned at Ee = a I; the same for the dissipation
    potential term eta |dev Dv|^2 of the same module and of MultiBranchHyperViscoelastic"""
    from optimism.material import HyperViscoelastic as HV
    from optimism import TensorMath, Math
    h.encoded(HV._neq_strain_energy, HV._dissipation_potential, TensorMath.norm_of_deviator_squared, TensorMath.deviator)
    h.bounds('Ee, dE: all real 3x3 (9 + 9 reals; symmetric and non-symmetric); G_neq, tau: all reals; pinned: Ee = a I, all real a')
    h.outside('the full HyperViscoelastic energy (matrix logarithm and exponential of the state update): its tangent at repeated eigenvalues of the log strain is '
              'the open known finding of C12-O8c', *NA)

    def dev(A):
        t3 = c12._third(v_sum([A[0][0], A[1][1], A[2][2]]))           # exact third (the code divides by 3)
        return [[v_sub(A[i][j], t3) if i == j else A[i][j] for j in range(3)] for i in range(3)]
    for tname, term, gidx in (('neq_strain_energy', HV._neq_strain_energy, 'G'), ('dissipation_potential', HV._dissipation_potential, 'eta')):
        def fn(E, dE, G, tau, term=term):
            props = jnp.stack([0.0 * G + 1.0, 0.0 * G + 1.0, G, tau])
            w = lambda X: term(X, props)
            g, hv = jax.jvp(jax.grad(w), (E,), (dE,))
            return w(E), g, hv
        ex = onp.eye(3) * 0.1 + onp.arange(9).reshape(3, 3) * 0.01
        c = Case(h, fn, dict(E=ex, dE=ex.T + 0.2, G=1.5, tau=0.7), sampler=lambda rng: [c12.rnd33(rng), c12.rnd33(rng), rng.uniform(0.5, 3), rng.uniform(0.2, 2)], label=tname)

        def coeff(i, tname=tname):
            return s0(i['G']) if tname == 'neq_strain_energy' else v_mul(s0(i['G']), s0(i['tau']))

        def spec(i, o, coeff=coeff):
            E, dE, k = c12.M(i['E']), c12.M(i['dE']), coeff(i)
            D, dD = dev(E), dev(dE)
            return [], [Eq(s0(o[0]), v_mul(k, v_dot(c12.fl(D), c12.fl(D))), name='value_is_G_dev_ddot_dev'),
                        Eq(c12.fl(c12.M(o[1])), [v_mul(v_mul(2.0, k), x) for x in c12.fl(D)], name='gradient_is_2G_dev'),
                        Eq(c12.fl(c12.M(o[2])), [v_mul(v_mul(2.0, k), x) for x in c12.fl(dD)], name='second_derivative_is_2G_dev_of_direction')]
        c.prove(tname, spec, order=('nlsat', 'core'), denoms=False, cap=60)

        # pinned at dev(Ee) = 0
        def fn0(a, dE, G, tau, term=term):
            return fn(a * jnp.eye(3), dE, G, tau)
        c0 = Case(h, fn0, dict(a=0.3, dE=ex.T + 0.2, G=1.5, tau=0.7), sampler=lambda rng: [rng.normal(), c12.rnd33(rng), rng.uniform(0.5, 3), rng.uniform(0.2, 2)], label=tname + '_at_spherical_state')

        def spec0(i, o, coeff=coeff):
            dE, k = c12.M(i['dE']), coeff(i)
            return [], [Eq(s0(o[0]), 0.0, name='value_is_zero'), Eq(c12.fl(c12.M(o[1])), 0.0, name='gradient_is_zero'),
                        Eq(c12.fl(c12.M(o[2])), [v_mul(v_mul(2.0, k), x) for x in c12.fl(dev(dE))], name='second_derivative_is_2G_dev_of_direction')]
        c0.prove(tname + '_at_Ee_eq_aI', spec0, order=('nlsat', 'core'), denoms=False, cap=60)


# ------------------------------------------------------------------------------------------------ O8b (visco non-equilibrium part WITH the state update inside)
class _visco_cut:
    """while tracing / running: module._compute_elastic_logarithmic_strain(dispGrad, state_n) := E_n + dispGrad (the trial elastic log strain of the
    n-th call is a harness input, shifted by the differentiation variable) and module._eq_strain_energy := 0. Everything else of _energy_density
    (state increment, non-equilibrium energy, dissipation potential, branch bookkeeping) is the real code."""

    def __init__(self, mod, Es):
        self.mod, self.Es, self.n = mod, Es, 0

    def __enter__(self):
        self.old = (self.mod._compute_elastic_logarithmic_strain, self.mod._eq_strain_energy)

        def trial(dispGrad, state):
            E = self.Es[self.n % len(self.Es)]
            self.n += 1
            return E + dispGrad
        self.mod._compute_elastic_logarithmic_strain = trial
        self.mod._eq_strain_energy = lambda dispGrad, props: 0.0 * dispGrad[0, 0]
        return self

    def __exit__(self, *a):
        self.mod._compute_elastic_logarithmic_strain, self.mod._eq_strain_energy = self.old


def _visco_update_obligation(h, mod, nbr, label, active):
    """one query set per ACTIVE branch: its trial strain E and modulus G are symbolic, the other branches have zero trial strain and zero modulus (the
    energy is a Python sum over branches: a branch reading the wrong modulus / relaxation time, or losing the strain dependence of its viscous
    increment, shows up when it is the active one). With all three moduli symbolic at once the diagonal second-derivative entries were unknown @40 s."""
    def dev(A):
        t3 = c12._third(v_sum([A[0][0], A[1][1], A[2][2]]))
        return [[v_sub(A[i][j], t3) if i == j else A[i][j] for j in range(3)] for i in range(3)]

    def fn(E, dE, dt, Gs, taus):
        # only the active branch carries a (symbolic) modulus; the relaxation times of all branches stay symbolic
        Gz = [Gs[n] if n == active else 0.0 * Gs[n] for n in range(nbr)]
        props = jnp.concatenate([jnp.array([1.0, 1.0]) + 0.0 * dt, jnp.stack([x for pair in zip(Gz, taus) for x in pair])])
        state = jnp.zeros(9 * nbr)
        Es = [E if n == active else jnp.zeros((3, 3)) for n in range(nbr)]

        def w(X):
            with _visco_cut(mod, Es):
                return mod._energy_density(X, state, dt, props)
        X0 = jnp.zeros((3, 3))
        g, hv = jax.jvp(jax.grad(w), (X0,), (dE,))
        return w(X0), g, hv

    def smp(rng):
        return [rng.normal(size=(3, 3)) * 0.3, c12.rnd33(rng), rng.uniform(0.1, 2.0), rng.uniform(0.5, 3.0, size=nbr), rng.uniform(0.2, 2.0, size=nbr)]
    ex = dict(E=0.1 * onp.arange(9).reshape(3, 3) / 9.0, dE=onp.eye(3) * 0.2 + 0.1, dt=0.5, Gs=onp.arange(1, nbr + 1) * 1.0, taus=onp.arange(1, nbr + 1) * 0.7)
    tag = '%s[branch%d_active]' % (label, active + 1)
    c = Case(h, fn, ex, sampler=smp, label=tag, jit=False)

    def spec(i, o):
        E, dE, dt, Gs, taus = c12.M(i['E']), c12.M(i['dE']), s0(i['dt']), list(i['Gs']), list(i['taus'])
        asm = [v_lt(0.0, dt)] + [v_lt(0.0, t) for t in taus]
        D, dD = dev(E), dev(dE)

        def eff(n):       # effective modulus of a branch after eliminating the viscous increment: G_n / (1 + dt/tau_n) = G_n tau_n / (tau_n + dt)
            den = v_add(taus[n], dt)
            return (Gs[n] * taus[n] / den) if sym.num(den) and sym.num(Gs[n]) and sym.num(taus[n]) else sym.toz(v_mul(Gs[n], taus[n])) / sym.toz(den)
        ka = eff(active)
        ks = ka          # the other branches have modulus 0 in this case
        return asm, [Eq(s0(o[0]), v_mul(ka, v_dot(c12.fl(D), c12.fl(D))), name='value_is_G_over_1_plus_dt_over_tau_dev_ddot_dev')] + \
            [Eq(c12.M(o[1])[a][b], v_mul(v_mul(2.0, ka), D[a][b]), name='gradient[%d%d]' % (a, b)) for a in range(3) for b in range(3)] + \
            [Eq(c12.M(o[2])[a][b], v_mul(v_mul(2.0, ks), dD[a][b]), name='second_derivative_is_2G_over_1_plus_dt_over_tau_dev_dE[%d%d]' % (a, b)) for a in range(3) for b in range(3)]
    c.prove(tag, spec, order=('core', 'core', 'nlsat'), denoms=True, cap=180)      # the quadratic value atom needs ~14 s of the core solver


@obligation(P, 'O8b.visco_neq_update_second_derivative', cap=900)
def o8b_visco(h):
    """the non-equilibrium part of the REAL _energy_density of MultiBranchHyperViscoelastic (3 branches) and HyperViscoelastic (1 branch) WITH the state
    update inside, as a function of the trial elastic log strain(s): value sum_n G_n/(1+dt/tau_n) |dev E_n|^2, gradient and second derivative
    (jax.jvp of jax.grad, all trial strains moved along dE) sum_n 2 G_n/(1+dt/tau_n) dev(dE): the tangent must contain the dependence of the viscous
    increment on the strain"""
    from optimism.material import HyperViscoelastic as HV, MultiBranchHyperViscoelastic as MB
    h.encoded(MB._energy_density, MB._compute_state_increment, MB._neq_strain_energy, MB._dissipation_potential, MB._return_Gneq_id_for_branch,
              HV._energy_density, HV._compute_state_increment, HV._neq_strain_energy, HV._dissipation_potential)
    h.bounds('one case per active branch: its trial elastic strain E all real 3x3, the other branches at zero trial strain (the energy is additive over branches); '
             'direction dE: all real 3x3; dt > 0, tau_n > 0 (all branches) and the active G_n: all reals (symbolic), the other moduli 0; additivity over branches is the source\'s Python sum')
    h.outside('the logarithmic strain itself (TensorMath.log_sqrt_symm of the trial elastic deformation) and the equilibrium energy: cut (see assumptions)', *NA)
    h.assume_note('cut: _compute_elastic_logarithmic_strain(dispGrad, state_n) is replaced by E_n + dispGrad (harness inputs; the differentiation variable enters '
                  'additively, so derivatives w.r.t. it are derivatives w.r.t. the trial strain) and _eq_strain_energy by 0; module attributes patched at trace time, '
                  'the rest of _energy_density is the real code; replays run the same cut')
    for n in range(3):
        _visco_update_obligation(h, MB, 3, 'multibranch', n)
    _visco_update_obligation(h, HV, 1, 'single_branch', 0)
