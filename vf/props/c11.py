"""C11 — viscoelastic models dissipate, relax and keep the viscous flow isochoric (JX, all reals).

Both modules (`HyperViscoelastic`, `MultiBranchHyperViscoelastic`) are encoded in terms of the branch trial elastic
strain: `_compute_elastic_logarithmic_strain` is replaced at trace time by an *arbitrary symmetric tensor* (6 free reals
per branch; read off the branch's slice of the state vector so that the slicing of the real code stays on the critical
path, or a closed-over input for the virgin-state obligation) and `jax.scipy.linalg.expm` by an arbitrary 3x3 tensor per
call whose *argument is captured and compared*.  Moduli, relaxation times and dt are traced symbols; the property
arrays/material objects are built by the modules' own `_make_properties` / `create_material_model_functions`.

Specs never divide: |dev A|^2 is used as `3|A|^2 - tr(A)^2` (= 3 |dev A|^2) and rates are multiplied out.

Goals that z3 does not finish monolithically in the quick budget are discharged as cut chains *on the same terms of the
real code*: (1) exact identities of the real functions (`cut.*`: backward-Euler flow rule, closed forms of the branch
dissipation / stored energies) are proved as goals (replayable), (2) universally quantified scalar lemmas over seven
reals (`lemma.*`) are proved, (3) the goal is proved on the code's terms with (1) and the instance of (2) as hypotheses.
The monolithic forms that do finish (14-25 s) are registered in the thorough tier (`*_monolithic`).
"""
import contextlib
import io
import types

import numpy as onp
import z3
import jax
import jax.numpy as jnp

from ..core import obligation
from ..jxh import Case
from ..sym import (Le, Lt, Eq, v_lt, v_le, v_eq, v_and, v_or, v_not, v_implies, v_sub, v_add, v_mul, v_sq, v_sum, flat, toz, tob)

P = 'C11'

DESIGNED_NOT_REGISTERED = [
    ('O4 monolithic |dev(Ee - delta_Ev)|^2 <= (tau/dt)^2 |dev Ee|^2 without the flow-rule cut',
     'unknown @60 s (core and nlsat); registered as a cut chain (cut.backward_euler_flow_rule proved first, 0.2 s)'),
    ('O5 monolithic rate bounds 3 dt (E - W_eq) <= G tau 3|dev Ee|^2 and its dt/tau twin; multi-branch monolithic upper bound',
     'unknown @60 s; registered per branch on the code\'s own branch terms via the cut chain, plus the exact identity '
     'E = W_eq + sum_n (W_neq_n(relaxed) + dissipation_n) on the real energy function'),
    ('O5 three-branch monolithic lower bound / strict lower bound (no cut chain)',
     '23 s on an idle machine but unknown @150 s under load (load average 32 on 16 cores): too fragile for a registered query; the '
     'same goals are proved by the cut chain in the quick tier'),
    ('O5 total (all-branch) rate with the product of relaxation times', 'needs products of a variable with a proved linear '
     'identity (not attempted); the per-branch rates and the exact sum identity carry the two limits'),
]

STUB_LOG = ('_compute_elastic_logarithmic_strain (log of the trial elastic stretch; TensorMath.log_sqrt_symm + inverse) is '
            'replaced by an arbitrary symmetric 3x3 tensor Ee (6 free reals per branch): every claim is "for all Ee"')
STUB_EXPM = ('jax.scipy.linalg.expm is replaced by an arbitrary 3x3 tensor per call (function of its argument only: the '
             'argument passed by the real code is captured and proved equal to the branch increment)')
OUT_MATH = ('det(expm(A)) = exp(tr A) = 1 for traceless A (so det Fv is preserved once tr(delta_Ev) = 0 and '
            'Fv_new = expm(delta_Ev) Fv_old are established, as they are here) is mathematics about expm: assumed, not proved',
            'accuracy of TensorMath.log_sqrt_symm / eigen solver / expm Pade approximation (C12 / n.a.)',
            'rounding error: all values are reals')
COAXIAL = ('coaxial update identity (assumed): at fixed deformation the next trial elastic strain is '
           'Ee_next = log_sqrt((F Fv_new^-1)^T (F Fv_new^-1)) = Ee - delta_Ev, exact when Ee and delta_Ev commute (they do: '
           'delta_Ev is proved to be a scalar multiple of dev Ee) and Fe_trial is a pure stretch; used to read '
           'W_neq(Ee - delta_Ev) as the stored energy after the step')
BOUNDS = ('Ee: every symmetric 3x3 real tensor (6 free reals per branch); G_neq_n, tau_n, dt: all reals > 0 (symbolic, '
          'so every ratio dt/tau in (0, inf) and every spread of relaxation times is covered); K_eq, G_eq: all reals')
NO_DENOM = ('no non-zero-denominator assumption is added: the only symbolic denominators are tau, 1 + dt/tau, dt and the '
            'literal 3, all positive under the hypotheses')


# ------------------------------------------------------------------------------------------ access to the real code
def _mods():
    from optimism.material import HyperViscoelastic as HV
    from optimism.material import MultiBranchHyperViscoelastic as MB
    from optimism import TensorMath as TM
    return HV, MB, TM


@contextlib.contextmanager
def patched(mod, **kw):
    old = {k: getattr(mod, k) for k in kw}
    try:
        for k, v in kw.items():
            setattr(mod, k, v)
        yield
    finally:
        for k, v in old.items():
            setattr(mod, k, v)


def quiet():
    return contextlib.redirect_stdout(io.StringIO())


def sym33(e):
    return jnp.array([[e[0], e[3], e[4]], [e[3], e[1], e[5]], [e[4], e[5], e[2]]])


def log_stub_from_state(dispGrad, state):
    """Ee := symmetric tensor made of the first six entries of the *branch state slice* handed over by the real code"""
    return sym33(state[:6])


class Model:
    """uniform access to the single- and the three-branch module (real functions, real constructors)"""

    def __init__(self, kind):
        HV, MB, _ = _mods()
        self.kind = kind
        self.mod = HV if kind == 'single' else MB
        self.nb = 1 if kind == 'single' else 3

    def prop_dict(self, K, Ge, G, tau):
        d = {'equilibrium bulk modulus': K, 'equilibrium shear modulus': Ge}
        if self.kind == 'single':
            d['non equilibrium shear modulus'] = G[0]
            d['relaxation time'] = tau[0]
        else:
            for n in range(3):
                d['non equilibrium shear modulus %d' % (n + 1)] = G[n]
                d['relaxation time %d' % (n + 1)] = tau[n]
        return d

    def props(self, K, Ge, G, tau):
        with quiet():
            return self.mod._make_properties(self.prop_dict(K, Ge, G, tau))

    def material(self, K, Ge, G, tau):
        with quiet():
            return self.mod.create_material_model_functions(self.prop_dict(K, Ge, G, tau))

    def _pid(self, n):
        return () if self.kind == 'single' else (self.mod._return_Gneq_id_for_branch(n),)

    def inc(self, E, dt, p, n):
        return self.mod._compute_state_increment(E, dt, p, *self._pid(n))

    def wneq(self, E, p, n):
        return self.mod._neq_strain_energy(E, p, *self._pid(n))

    def psi(self, Dv, p, n):
        return self.mod._dissipation_potential(Dv, p, *self._pid(n))

    def branch_terms(self, E, dt, p, n):
        """the code's own branch quantities, composed as in _energy_density / _compute_dissipated_energy"""
        d = self.inc(E, dt, p, n)
        return dict(d=d, D=dt * self.psi(d / dt, p, n), Wn=self.wneq(E - d, p, n), W0=self.wneq(E, p, n))

    def functions(self):
        m = self.mod
        fs = [m._compute_state_increment, m._dissipation_potential, m._compute_dissipated_energy, m._neq_strain_energy,
              m._energy_density, m._eq_strain_energy, m._make_properties, m.create_material_model_functions]
        if self.kind == 'multi':
            fs += [m._return_Gneq_id_for_branch, m._return_state_for_branch]
        return fs

    def ex_moduli(self):
        return dict(K=10.0, Ge=1.0, G=onp.array([2.0, 0.7, 1.3][:self.nb]), tau=onp.array([0.5, 3.0, 0.04][:self.nb]))

    def smp_moduli(self, rng):
        return [rng.uniform(1, 20), rng.uniform(0.2, 3), rng.uniform(0.2, 3, size=self.nb), 10.0 ** rng.uniform(-1.5, 1.5, size=self.nb)]


def _enc(h, *models):
    _, _, TM = _mods()
    for m in models:
        h.encoded(*m.functions())
    h.encoded(TM.deviator, TM.norm_of_deviator_squared, TM.trace)
    h.assume_note(STUB_LOG, NO_DENOM)
    h.outside(*OUT_MATH)


def stack_branches(bts):
    return {k: jnp.stack([b[k] for b in bts]) for k in bts[0]}


# ------------------------------------------------------------------------------------------ dual-evaluation oracles
def s0(a):
    return a[()] if hasattr(a, 'shape') and a.shape == () else a


def tr6(e):
    return v_sum([e[0], e[1], e[2]])


def dev3sq6(e):
    """3 |dev E|^2 for E = sym33(e) (no division: 3|E|^2 - tr^2)"""
    n2 = v_add(v_sum([v_sq(e[k]) for k in range(3)]), v_mul(2.0, v_sum([v_sq(e[k]) for k in range(3, 6)])))
    return v_sub(v_mul(3.0, n2), v_sq(tr6(e)))


def dev3sq33(A):
    n2 = v_sum([v_sq(A[i][j]) for i in range(3) for j in range(3)])
    return v_sub(v_mul(3.0, n2), v_sq(v_sum([A[0][0], A[1][1], A[2][2]])))


def devzero6(e):
    return v_and(v_eq(e[0], e[1]), v_eq(e[1], e[2]), v_eq(e[3], 0.0), v_eq(e[4], 0.0), v_eq(e[5], 0.0))


def mat6(e):
    return [[e[0], e[3], e[4]], [e[3], e[1], e[5]], [e[4], e[5], e[2]]]


def det33(A):
    t = lambda a, b, c: v_mul(v_mul(a, b), c)
    return v_sub(v_sum([t(A[0][0], A[1][1], A[2][2]), t(A[0][1], A[1][2], A[2][0]), t(A[0][2], A[1][0], A[2][1])]),
                 v_sum([t(A[0][0], A[1][2], A[2][1]), t(A[0][1], A[1][0], A[2][2]), t(A[0][2], A[1][1], A[2][0])]))


def matmul33(A, B):
    return [[v_sum([v_mul(A[i][k], B[k][j]) for k in range(3)]) for j in range(3)] for i in range(3)]


def approx_eq(a, b):
    """exact equality for the solver; relative 1e-9 when replayed on floats (axioms on stub values)"""
    if isinstance(a, (int, float, onp.floating)) and isinstance(b, (int, float, onp.floating)):
        return abs(a - b) <= 1e-9 * (1.0 + abs(a) + abs(b))
    return toz(a) == toz(b)


def positive(i, nb):
    return [v_lt(0.0, s0(i['dt']))] + [v_lt(0.0, i['G'][n]) for n in range(nb)] + [v_lt(0.0, i['tau'][n]) for n in range(nb)]


def flow_rule_sides(e, d, dt, tau):
    """3 (tau + dt) delta_Ev = dt (3 Ee - tr(Ee) I)  <=>  tau delta_Ev = dt dev(Ee - delta_Ev): backward Euler of the
    Maxwell flow rule; nine scalar identities (lhs list, rhs list)"""
    E = mat6(e)
    t = tr6(e)
    lhs, rhs = [], []
    for a in range(3):
        for b in range(3):
            lhs.append(v_mul(v_mul(3.0, v_add(tau, dt)), d[a][b]))
            rhs.append(v_mul(dt, v_sub(v_mul(3.0, E[a][b]), t if a == b else 0.0)))
    return lhs, rhs


# ---- the seven scalars of a branch: wn = W_neq after, w0 = W_neq before, D = dissipated, G, tau, dt, s3 = 3|dev Ee|^2
def I1(t):
    return v_mul(v_mul(3.0, v_sq(v_add(t['tau'], t['dt']))), t['D']), v_mul(v_mul(v_mul(t['G'], t['tau']), t['dt']), t['s3'])


def I2(t):
    return v_mul(v_sq(v_add(t['tau'], t['dt'])), t['wn']), v_mul(v_sq(t['tau']), t['w0'])


def I3(t):
    return v_mul(3.0, t['w0']), v_mul(t['G'], t['s3'])


def lemma_hyp(t):
    return [v_lt(0.0, t['G']), v_lt(0.0, t['tau']), v_lt(0.0, t['dt']), v_eq(*I1(t)), v_eq(*I2(t)), v_eq(*I3(t)), v_le(0.0, t['w0'])]


def _T(t):
    return v_add(t['wn'], t['D'])


LEMMAS = {
    'strict_relaxation': lambda t: Lt(t['wn'], t['w0'], when=v_lt(0.0, t['w0']), scale=0.0),
    'drop_covers_dissipation': lambda t: Le(t['D'], v_sub(t['w0'], t['wn'])),
    'branch_energy_nonnegative': lambda t: Le(0.0, _T(t)),
    'branch_energy_at_most_instantaneous': lambda t: Le(_T(t), t['w0']),
    'branch_energy_strictly_between': lambda t: Lt([0.0, _T(t)], [_T(t), t['w0']], when=v_lt(0.0, t['w0']), scale=0.0),
    'rate_to_equilibrium': lambda t: Le(v_mul(v_mul(3.0, t['dt']), _T(t)), v_mul(v_mul(t['G'], t['tau']), t['s3'])),
    'rate_to_instantaneous': lambda t: Le(v_mul(v_mul(3.0, t['tau']), v_sub(t['w0'], _T(t))), v_mul(v_mul(t['dt'], t['G']), t['s3'])),
    'branch_energy_closed_form': lambda t: Eq(v_mul(v_mul(3.0, v_add(t['tau'], t['dt'])), _T(t)), v_mul(v_mul(t['G'], t['tau']), t['s3'])),
}
LVARS = ('wn', 'w0', 'D', 'G', 'tau', 'dt', 's3')


def prove_lemma(h, key, hyp=None, goal=None, sorts=None):
    """for all values of the scalar symbols: hyp implies goal. Default: the seven branch scalars, positivity, the three
    closed forms and w0 >= 0 imply LEMMAS[key]"""
    hyp = hyp or lemma_hyp
    goal = goal or LEMMAS[key]
    sorts = sorts or {k: 'R' for k in LVARS}
    tz = {k: (z3.Real('L_' + k) if s == 'R' else z3.Bool('L_' + k)) for k, s in sorts.items()}

    def concrete(vals):
        tv = {k: (float(vals[k]) if sorts[k] == 'R' else bool(vals[k])) for k in sorts}
        return all(bool(x) for x in hyp(tv)), goal(tv), {}
    return h.prove('lemma.%s' % key, [tob(x) for x in hyp(tz)], goal(tz), inputs=tz, concrete=concrete, cap=30,
                   order=('nlsat', 'core'), note='scalar glue lemma (no code): used only as an instantiated hypothesis')


def lemma_instance(key, t, hyp=None, goal=None):
    hyp = hyp or lemma_hyp
    goal = goal or LEMMAS[key]
    return z3.Implies(z3.And(*[tob(x) for x in hyp(t)]), z3.Not(goal(t).neg(0)))


# ---- sums over branches: total dissipation (O1) and virgin energy (O5); flat symbol dictionaries
def dis_sorts(nb):
    s = {'D': 'R'}
    for n in range(nb):
        s['D%d' % n] = 'R'
        s['z%d' % n] = 'B'
    return s


def dis_hyp(nb):
    def hyp(t):
        out = [v_eq(t['D'], v_sum([t['D%d' % n] for n in range(nb)]))]
        for n in range(nb):
            Dn, z = t['D%d' % n], t['z%d' % n]
            out += [v_le(0.0, Dn), v_implies(z, v_eq(Dn, 0.0)), v_implies(v_not(z), v_lt(0.0, Dn))]
        return out
    return hyp


def dis_goals(nb):
    allzero = lambda t: v_and(*[t['z%d' % n] for n in range(nb)])
    return {
        'nonnegative': lambda t: Le(0.0, t['D'], name='nonnegative'),
        'zero_if_all_dev_Ee_zero': lambda t: Eq(t['D'], 0.0, when=allzero(t), name='zero_if_all_dev_Ee_zero'),
        'positive_unless_all_dev_Ee_zero': lambda t: Lt(0.0, t['D'], when=v_not(allzero(t)), scale=0.0, name='positive_unless_all_dev_Ee_zero'),
    }


def vir_sorts(nb):
    s = {'en': 'R', 'weq': 'R', 'p': 'B'}
    for n in range(nb):
        s['T%d' % n] = 'R'
        s['W%d' % n] = 'R'
    return s


def vir_hyp(nb):
    def hyp(t):
        out = [v_eq(t['en'], v_add(t['weq'], v_sum([t['T%d' % n] for n in range(nb)])))]
        for n in range(nb):
            T, W = t['T%d' % n], t['W%d' % n]
            out += [v_le(0.0, T), v_le(T, W), v_implies(t['p'], v_and(v_lt(0.0, T), v_lt(T, W)))]
        return out
    return hyp


def vir_goals(nb):
    winst = lambda t: v_add(t['weq'], v_sum([t['W%d' % n] for n in range(nb)]))
    return {
        'at_least_equilibrium': lambda t: Le(t['weq'], t['en'], name='at_least_equilibrium'),
        'at_most_instantaneous': lambda t: Le(t['en'], winst(t), name='at_most_instantaneous'),
        'strictly_above_equilibrium_unless_dev_Ee_zero': lambda t: Lt(t['weq'], t['en'], when=t['p'], scale=0.0, name='strictly_above_equilibrium_unless_dev_Ee_zero'),
        'strictly_below_instantaneous_unless_dev_Ee_zero': lambda t: Lt(t['en'], winst(t), when=t['p'], scale=0.0, name='strictly_below_instantaneous_unless_dev_Ee_zero'),
    }


def terms_of(e, b, G, tau, dt):
    """b: dict with the code's d, D, Wn, W0 of one branch"""
    return dict(e=e, d=b['d'], wn=s0(b['Wn']), w0=s0(b['W0']), D=s0(b['D']), G=G, tau=tau, dt=dt, s3=dev3sq6(e))


def prove_cuts(c, tfun, branches, nb, pre=''):
    """proves, per branch, the exact identities of the real functions and returns them as z3 hypotheses on the same terms"""
    cuts = []
    for n in branches:
        def spec_flow(i, o, n=n):
            t = tfun(i, o, n)
            lhs, rhs = flow_rule_sides(t['e'], t['d'], t['dt'], t['tau'])
            return positive(i, nb), Eq(lhs, rhs, name='backward_euler_flow_rule')
        c.prove('%scut.branch%d' % (pre, n), spec_flow, denoms=False)
        tz = tfun(c.inp, c.out, n)
        lhs, rhs = flow_rule_sides(tz['e'], tz['d'], tz['dt'], tz['tau'])
        flow = [toz(a) == toz(b) for a, b in zip(lhs, rhs)]

        def spec_cf(i, o, n=n):
            t = tfun(i, o, n)
            nz = v_not(devzero6(t['e']))
            return positive(i, nb), [
                Eq(*I1(t), name='dissipation_closed_form'),
                Eq(*I2(t), name='contraction_factor'),
                Eq(*I3(t), name='stored_energy_closed_form'),
                Le(0.0, t['w0'], name='stored_energy_nonnegative'),
                Lt(0.0, t['w0'], when=nz, scale=0.0, name='stored_energy_positive_unless_dev_Ee_zero'),
            ]
        c.prove('%scut.branch%d' % (pre, n), spec_cf, denoms=False, extra_assumes=flow)
        nzz = v_not(devzero6(tz['e']))
        cuts += flow + [tob(v_eq(*I1(tz))), tob(v_eq(*I2(tz))), tob(v_eq(*I3(tz))), tob(v_le(0.0, tz['w0'])),
                        z3.Implies(tob(nzz), tob(v_lt(0.0, tz['w0'])))]
    return cuts


def prove_pinned(c, name, spec, extra_assumes=(), cap=60, order=('core', 'nlsat')):
    """Case.prove with the vacuity twin decided at a pinned witness (the case's example inputs): the hypotheses of the last
    link of a cut chain are valid-but-large formulas for which z3's unguided model search does not finish in the harness'
    20 s; `assumptions AND when AND inputs = witness` sat is a (stronger) satisfiability certificate for the same set."""
    import time
    from .. import sym
    assumes, atoms = spec(c.inp, c.out)
    atoms = [atoms] if isinstance(atoms, sym.Atom) else atoms
    base = [tob(x) for x in assumes] + c.side(False) + list(extra_assumes)
    pins = [toz(v) == sym.rat(float(x)) for k, ex in zip(c.names, c.example) for v, x in zip(flat(c.inp[k]), onp.asarray(ex).ravel())]
    recs = []
    for k, atom in enumerate(atoms):
        def concrete(vals, k=k):
            ci, co = c.conc_inputs(vals), c.real(vals)
            ca, catoms = spec(ci, co)
            catoms = [catoms] if isinstance(catoms, sym.Atom) else catoms
            return all(bool(x) for x in flat(list(ca))), catoms[k], dict(outputs=[onp.asarray(l).tolist() for l in jax.tree_util.tree_leaves(co)][:6])
        t0 = time.time()
        st = sym.solve(base + [tob(atom.when)] + pins, 20, ('core', 'nlsat'))[0] if c.h.replay is None else None
        dt = round(time.time() - t0, 3)
        rec = c.h.prove('%s.%s' % (name, atom.name), base, atom, inputs=c.inp, concrete=concrete, cap=cap, order=order, check_vacuity=False)
        if rec is not None:
            rec['nonvacuous'] = True if st == 'sat' else None
            rec['attempts'].insert(0, ('vacuity@pinned_witness', st, dt))
        recs.append(rec)
    return recs


def prove_or_search(c, name, spec, pins, **kw):
    """c.prove; if a goal comes back inconclusive (only seen on altered code, where the hypotheses of the cut chain are not
    available), look for a counterexample of the SAME goal with some inputs pinned: a model of the restricted query is a
    genuine counterexample of the general one (replayed on the real code as usual); an unsat answer there proves nothing
    about the general goal, which stays inconclusive."""
    recs = c.prove(name, spec, **kw)
    if c.h.replay is not None or any(r is not None and r.get('status') == 'inconclusive' for r in recs):
        def spec_g(i, o):
            asm, ats = spec(i, o)
            ats = [ats] if not isinstance(ats, list) else ats
            for a in ats:
                a.name += '.guided_search'
            return list(asm) + pins(i), ats
        kw = dict(kw, extra_assumes=(), cap=30, order=('nlsat', 'core'))
        recs += c.prove(name, spec_g, **kw)
    return recs


def unit_moduli(i):
    return [v_eq(s0(i['dt']), 1.0)] + [v_eq(x, 1.0) for x in flat(i['G'])] + [v_eq(x, 1.0) for x in flat(i['tau'])]


class UnexpectedCall(Exception):
    pass


def _raiser(what):
    def r(*a, **k):
        raise UnexpectedCall(what)
    return r


@contextlib.contextmanager
def no_tensor_functions(M, expm=True):
    """the Ee-level encodings replace _compute_elastic_logarithmic_strain as a whole; any OTHER route of the traced function
    into the matrix log / expm (a new call path) is not covered by that stub and is reported instead of being traced
    through the eigen solver / Pade expm (decided on the real kinematics in O9)"""
    TM = _mods()[2]
    kw = dict(linalg=types.SimpleNamespace(expm=_raiser('jax.scipy.linalg.expm'))) if expm else {}
    with patched(TM, log_sqrt_symm=_raiser('TensorMath.log_sqrt_symm'), log_symm=_raiser('TensorMath.log_symm')), patched(M.mod, **kw):
        yield


def guarded_case(h, tag, thunk):
    try:
        return thunk()
    except UnexpectedCall as e:
        h.fact('%s.no_tensor_function_outside_log_strain_stub' % tag, False,
               'the traced function calls %s outside _compute_elastic_logarithmic_strain: the Ee-level encoding of this obligation '
               'does not apply to it; see O9 (real kinematics, objectivity)' % e)
        return None


# ------------------------------------------------------------------------------------------ shared cases
def branch_case(h, M, n, label, validate=2):
    """per branch n: the real increment, dissipated energy of the increment, stored energy before/after"""
    def f(e, dt, K, Ge, G, tau):
        return M.branch_terms(sym33(e), dt, M.props(K, Ge, G, tau), n)
    ex = dict(e=onp.array([.1, .2, -.1, .05, .02, .03]), dt=0.1, **M.ex_moduli())
    smp = lambda rng: [rng.normal(size=6) * 0.3, 10.0 ** rng.uniform(-2, 2)] + M.smp_moduli(rng)
    c = Case(h, f, ex, sampler=smp, label='%s[%s,branch%d]' % (label, M.kind, n), validate=validate)
    c.tfun = lambda i, o, n_: terms_of(i['e'], o, i['G'][n_], i['tau'][n_], s0(i['dt']))
    return c


def models():
    return [Model('single'), Model('multi')]


# ------------------------------------------------------------------------------------------ O1
def _qoi_case(h, M):
    nb = M.nb

    def f(state, dt, K, Ge, G, tau):
        with patched(M.mod, _compute_elastic_logarithmic_strain=log_stub_from_state), no_tensor_functions(M):
            mat = M.material(K, Ge, G, tau)
            D = mat.compute_material_qoi(jnp.zeros((3, 3)), state, dt)
        p = M.props(K, Ge, G, tau)
        br = stack_branches([M.branch_terms(sym33(state[9 * n:9 * n + 6]), dt, p, n) for n in range(nb)])
        return dict(D=D, Dn=br['D'])
    ex = dict(state=onp.linspace(-.2, .3, 9 * nb), dt=0.1, **M.ex_moduli())
    smp = lambda rng: [rng.normal(size=9 * nb) * 0.3, 10.0 ** rng.uniform(-2, 2)] + M.smp_moduli(rng)
    return Case(h, f, ex, sampler=smp, label='qoi[%s]' % M.kind)


def _dis_terms(i, o, nb):
    t = {'D': s0(o['D'])}
    for n in range(nb):
        t['D%d' % n] = o['Dn'][n]
        t['z%d' % n] = devzero6(i['state'][9 * n:9 * n + 6])
    return t


def _spec_total_dissipation(nb, suffix=''):
    def spec(i, o):
        t = _dis_terms(i, o, nb)
        ats = [g(t) for g in dis_goals(nb).values()]
        for a in ats:
            a.name += suffix
        return positive(i, nb), ats
    return spec


@obligation(P, 'O1.dissipation_nonnegative', cap=300)
def o1(h):
    """reported dissipated energy (compute_material_qoi) >= 0, = 0 iff dev Ee_n = 0 for every branch; all Ee, moduli, dt"""
    Ms = models()
    _enc(h, *Ms)
    h.bounds(BOUNDS, 'state: every real 9n-vector (Ee_n read from block n by the stub)')
    for M in Ms:
        nb = M.nb
        c = guarded_case(h, 'qoi[%s]' % M.kind, lambda: _qoi_case(h, M))
        if c is None:
            continue

        def spec_br(i, o, nb=nb):
            t = _dis_terms(i, o, nb)
            ats = [Eq(t['D'], v_sum([t['D%d' % n] for n in range(nb)]), name='reported_is_sum_of_branch_dissipations')]
            for n in range(nb):
                Dn, z = t['D%d' % n], t['z%d' % n]
                ats += [Le(0.0, Dn, name='branch%d_nonnegative' % n),
                        Eq(Dn, 0.0, when=z, name='branch%d_zero_if_dev_Ee_zero' % n),
                        Lt(0.0, Dn, when=v_not(z), scale=0.0, name='branch%d_positive_unless_dev_Ee_zero' % n)]
            return positive(i, nb), ats
        c.prove('qoi[%s]' % M.kind, spec_br, denoms=False)
        # total: on the same terms, with the goals above as hypotheses and the instantiated summation lemma
        hyp, goals = dis_hyp(nb), dis_goals(nb)
        for k, g in goals.items():
            prove_lemma(h, 'sum_of_%d_branch_dissipations.%s' % (nb, k), hyp, g, dis_sorts(nb))
        tz = _dis_terms(c.inp, c.out, nb)
        cuts = [tob(x) for x in hyp(tz)] + [lemma_instance(k, tz, hyp, g) for k, g in goals.items()]
        c.prove('qoi[%s].total' % M.kind, _spec_total_dissipation(nb), denoms=False, extra_assumes=cuts)
        if nb == 1:
            c.prove('qoi[%s].total' % M.kind, _spec_total_dissipation(nb, '.monolithic'), denoms=False)
        # per-branch closed form (pins dt, eta = G tau and the integration factor): 3 (tau+dt)^2 D_n = G tau dt 3|dev Ee|^2
        for n in range(nb):
            cb = branch_case(h, M, n, 'dissipation', validate=1)
            prove_cuts(cb, cb.tfun, [n], nb, pre='%s.' % M.kind)


@obligation(P, 'O1.dissipation_nonnegative_monolithic', tiers=('thorough',), cap=300)
def o1m(h):
    """three-branch total dissipated energy: sign and zero set in one query each (no cut chain)"""
    M = Model('multi')
    _enc(h, M)
    h.bounds(BOUNDS)
    c = guarded_case(h, 'qoi[multi]', lambda: _qoi_case(h, M))
    if c is not None:
        c.prove('qoi[multi].total', _spec_total_dissipation(3, '.monolithic'), denoms=False, cap=200)


# ------------------------------------------------------------------------------------------ O2
@obligation(P, 'O2.increment_traceless_symmetric_state_update', cap=300)
def o2(h):
    """delta_Ev is traceless, symmetric and solves the backward-Euler flow rule; compute_state_new left-multiplies the
    branch's old Fv by expm of exactly that increment (=> det Fv preserved, given det expm(traceless) = 1)"""
    Ms = models()
    _enc(h, *Ms)
    for M in Ms:
        h.encoded(M.mod._compute_state_new)
    h.bounds(BOUNDS, 'Fv_old: every real 3x3 matrix per branch; expm value X_n: every real 3x3 matrix')
    h.assume_note(STUB_EXPM)
    for M in Ms:
        for n in range(M.nb):
            c = branch_case(h, M, n, 'increment')

            def spec(i, o, n=n):
                d = o['d']
                lhs, rhs = flow_rule_sides(i['e'], d, s0(i['dt']), i['tau'][n])
                return positive(i, len(i['G'])), [
                    Eq(v_sum([d[0][0], d[1][1], d[2][2]]), 0.0, name='traceless'),
                    Eq([d[0][1], d[0][2], d[1][2]], [d[1][0], d[2][0], d[2][1]], name='symmetric'),
                    Eq(lhs, rhs, name='backward_euler_flow_rule'),
                ]
            c.prove('branch%d[%s]' % (n, M.kind), spec, denoms=False)

        nb = M.nb
        calls = []

        def f(state, X, dt, K, Ge, G, tau, M=M, nb=nb, calls=calls):
            p = M.props(K, Ge, G, tau)
            seen = []

            def expm_stub(A):
                seen.append(A)
                return X[(len(seen) - 1) % nb]
            with patched(M.mod, _compute_elastic_logarithmic_strain=log_stub_from_state, linalg=types.SimpleNamespace(expm=expm_stub)):
                new = M.mod._compute_state_new(jnp.zeros((3, 3)), state, dt, p)
            calls.append(len(seen))
            incs = jnp.stack([M.inc(sym33(state[9 * n:9 * n + 6]), dt, p, n) for n in range(nb)])
            return dict(new=new, arg=jnp.stack(seen) if len(seen) == nb else jnp.zeros((nb, 3, 3)), inc=incs)
        ex = dict(state=onp.linspace(-.2, .3, 9 * nb) + onp.tile(onp.eye(3).ravel(), nb),
                  X=onp.tile(onp.eye(3), (nb, 1, 1)) + 0.01 * onp.arange(9 * nb).reshape(nb, 3, 3), dt=0.1, **M.ex_moduli())
        smp = lambda rng, M=M: [rng.normal(size=9 * M.nb), rng.normal(size=(M.nb, 3, 3)), 10.0 ** rng.uniform(-2, 2)] + M.smp_moduli(rng)
        c = Case(h, f, ex, sampler=smp, label='state_new[%s]' % M.kind)
        via_expm = calls[0] == nb
        h.fact('state_new[%s].expm_called_once_per_branch' % M.kind, via_expm,
               'jax.scipy.linalg.expm was called %d times by _compute_state_new (expected %d): %s' % (calls[0], nb,
               'stub contract applies' if via_expm else 'the update does not go through expm; the stub contract does not apply and '
               'det preservation is decided on the explicit formula of the code'))

        def blocks(i, o, n):
            Fo = [[i['state'][9 * n + 3 * a + b] for b in range(3)] for a in range(3)]
            Fn = [[o['new'][9 * n + 3 * a + b] for b in range(3)] for a in range(3)]
            Xn = [[i['X'][n][a][b] for b in range(3)] for a in range(3)]
            return Fo, Fn, Xn

        def spec2(i, o, nb=nb):
            ats = [Eq(o['arg'], o['inc'], name='expm_argument_is_branch_increment'),
                   Eq([v_sum([o['arg'][n][k][k] for k in range(3)]) for n in range(nb)], [0.0] * nb, name='expm_argument_traceless')]
            prod, dets_new, dets_old = [], [], []
            for n in range(nb):
                Fo, Fn, Xn = blocks(i, o, n)
                prod.append(matmul33(Xn, Fo))
                dets_new.append(det33(Fn))
                dets_old.append(v_mul(det33(Xn), det33(Fo)))
            ats.append(Eq(list(o['new']), flat(prod), name='Fv_new_is_expm_times_Fv_old'))
            ats.append(Eq(dets_new, dets_old, name='det_Fv_new_is_det_expm_det_Fv_old'))
            return positive(i, nb), ats
        cut_ok = False
        if via_expm:
            recs = c.prove('state_new[%s]' % M.kind, spec2, denoms=False)
            cut_ok = all(r is not None and r.get('status') == 'discharged' for r in recs)
        # isochoric viscous flow: det Fv_new = det Fv_old for every branch, with the axiom det X_n = 1 on the stub's value
        h.assume_note('axiom on the expm stub: det X_n = 1 (det expm(A) = exp(tr A) = 1 for a traceless argument; that the argument '
                      'is the traceless branch increment is proved in the same obligation). In replays on floats the axiom is '
                      'evaluated with relative tolerance 1e-9')

        def spec_det(i, o, nb=nb):
            asm, ats = positive(i, nb), []
            for n in range(nb):
                Fo, Fn, Xn = blocks(i, o, n)
                asm.append(approx_eq(det33(Xn), 1.0))
                ats.append(Eq(det33(Fn), det33(Fo), name='branch%d_det_Fv_preserved' % n))
            return asm, ats
        cuts = []
        if cut_ok:  # proved just above on the same terms: det Fv_new = det X det Fv_old; then a = b c, b = 1 |- a = c (instantiated)
            for n in range(nb):
                Fo, Fn, Xn = blocks(c.inp, c.out, n)
                a_, b_, c_ = toz(det33(Fn)), toz(det33(Xn)), toz(det33(Fo))
                cuts += [a_ == toz(v_mul(det33(Xn), det33(Fo))), z3.Implies(z3.And(a_ == toz(v_mul(det33(Xn), det33(Fo))), b_ == toz(1.0)), z3.Not(Eq(det33(Fn), det33(Fo)).neg(0)))]
            prove_lemma(h, 'det_product_with_unit_factor[%s]' % M.kind, lambda t: [v_eq(t['a'], v_mul(t['b'], t['c'])), v_eq(t['b'], 1.0)],
                        lambda t: Eq(t['a'], t['c']), {'a': 'R', 'b': 'R', 'c': 'R'})
        prove_or_search(c, 'state_new[%s]' % M.kind, spec_det, unit_moduli, denoms=False, extra_assumes=cuts, cap=60 if cut_ok else 20)


# ------------------------------------------------------------------------------------------ O3
def _spec_relax_direct(n):
    def spec(i, o):
        return positive(i, len(i['G'])), [
            Lt(s0(o['Wn']), s0(o['W0']), when=v_not(devzero6(i['e'])), scale=0.0, name='strictly_decreasing_unless_dev_Ee_zero'),
            Le(s0(o['D']), v_sub(s0(o['W0']), s0(o['Wn'])), name='drop_covers_dissipation'),
        ]
    return spec


@obligation(P, 'O3.relaxation_at_fixed_strain', cap=300)
def o3(h):
    """W_neq(Ee - delta_Ev) <= W_neq(Ee), strictly unless dev Ee = 0; exact contraction (tau+dt)^2 W_after = tau^2 W_before;
    the drop of stored energy covers the reported dissipation"""
    Ms = models()
    _enc(h, *Ms)
    h.bounds(BOUNDS)
    h.assume_note(COAXIAL)
    h.outside('multi-step histories: the one-step statement is inductive under the coaxial identity (Ee_next is again an arbitrary symmetric tensor)')
    prove_lemma(h, 'strict_relaxation')
    prove_lemma(h, 'drop_covers_dissipation')
    for M in Ms:
        for n in range(M.nb):
            c = branch_case(h, M, n, 'relaxation')

            def spec(i, o, n=n):
                dt, tau = s0(i['dt']), i['tau'][n]
                Wn, W0 = s0(o['Wn']), s0(o['W0'])
                return positive(i, len(i['G'])), [
                    Le(Wn, W0, name='nonincreasing'),
                    Eq(v_mul(v_sq(v_add(tau, dt)), Wn), v_mul(v_sq(tau), W0), name='contraction_factor'),
                    Eq(Wn, W0, when=devzero6(i['e']), name='equal_if_dev_Ee_zero'),
                ]
            c.prove('branch%d[%s]' % (n, M.kind), spec, denoms=False)
            cuts = prove_cuts(c, c.tfun, [n], M.nb, pre='%s.' % M.kind)
            tz = c.tfun(c.inp, c.out, n)
            inst = [lemma_instance('strict_relaxation', tz), lemma_instance('drop_covers_dissipation', tz)]
            c.prove('branch%d[%s]' % (n, M.kind), _spec_relax_direct(n), denoms=False, extra_assumes=cuts + inst)


@obligation(P, 'O3.relaxation_at_fixed_strain_monolithic', tiers=('thorough',), cap=800)
def o3m(h):
    """strict decrease and drop >= dissipation in one query each (no cut chain)"""
    Ms = models()
    _enc(h, *Ms)
    h.bounds(BOUNDS)
    h.assume_note(COAXIAL)
    for M in Ms:
        for n in range(M.nb):
            c = branch_case(h, M, n, 'relaxation', validate=1)
            c.prove('branch%d[%s].monolithic' % (n, M.kind), _spec_relax_direct(n), denoms=False, cap=300, order=('core',))


# ------------------------------------------------------------------------------------------ O4
@obligation(P, 'O4.small_and_large_step_limits', cap=300)
def o4(h):
    """|delta_Ev|^2 <= (dt/tau)^2 |dev Ee|^2 (no flow as dt -> 0) and |dev(Ee - delta_Ev)|^2 <= (tau/dt)^2 |dev Ee|^2
    (full relaxation as dt -> inf), stated with squares and multiplied out"""
    Ms = models()
    _enc(h, *Ms)
    h.bounds(BOUNDS)
    for M in Ms:
        for n in range(M.nb):
            c = branch_case(h, M, n, 'limits')

            def spec_cut(i, o, n=n):
                lhs, rhs = flow_rule_sides(i['e'], o['d'], s0(i['dt']), i['tau'][n])
                return positive(i, len(i['G'])), Eq(lhs, rhs, name='cut.backward_euler_flow_rule')
            c.prove('branch%d[%s]' % (n, M.kind), spec_cut, denoms=False)
            lhs, rhs = flow_rule_sides(c.inp['e'], c.out['d'], s0(c.inp['dt']), c.inp['tau'][n])
            flow = [toz(a) == toz(b) for a, b in zip(lhs, rhs)]

            def spec(i, o, n=n):
                d, e = o['d'], i['e']
                dt, tau = s0(i['dt']), i['tau'][n]
                dd3 = v_mul(3.0, v_sum([v_sq(d[a][b]) for a in range(3) for b in range(3)]))
                E = mat6(e)
                R = [[v_sub(E[a][b], d[a][b]) for b in range(3)] for a in range(3)]
                s3 = dev3sq6(e)
                return positive(i, len(i['G'])), [
                    Le(v_mul(v_sq(tau), dd3), v_mul(v_sq(dt), s3), name='increment_bounded_by_dt_over_tau'),
                    Le(v_mul(v_sq(dt), dev3sq33(R)), v_mul(v_sq(tau), s3), name='remaining_strain_bounded_by_tau_over_dt'),
                    Le(dev3sq33(R), s3, name='remaining_strain_not_larger'),
                ]
            c.prove('branch%d[%s]' % (n, M.kind), spec, denoms=False, extra_assumes=flow)


# ------------------------------------------------------------------------------------------ O5
def _virgin_case(h, M):
    nb = M.nb

    def f(H, e, dt, K, Ge, G, tau):
        E = sym33(e)
        with patched(M.mod, _compute_elastic_logarithmic_strain=lambda dg, st: E), no_tensor_functions(M):
            mat = M.material(K, Ge, G, tau)
            st0 = mat.compute_initial_state()
            en = mat.compute_energy_density(H, st0, dt)
            D = mat.compute_material_qoi(H, st0, dt)
        p = M.props(K, Ge, G, tau)
        weq = M.mod._eq_strain_energy(H, p)
        br = stack_branches([M.branch_terms(E, dt, p, n) for n in range(nb)])
        return dict(en=en, weq=weq, Dq=D, st0=st0, **br)
    ex = dict(H=onp.array([[.1, .02, 0.], [.03, -.05, .01], [0., .02, .04]]), e=onp.array([.1, .2, -.1, .05, .02, .03]), dt=0.1, **M.ex_moduli())
    smp = lambda rng: [rng.normal(size=(3, 3)) * 0.1, rng.normal(size=6) * 0.3, 10.0 ** rng.uniform(-2, 2)] + M.smp_moduli(rng)
    c = Case(h, f, ex, sampler=smp, label='virgin_energy[%s]' % M.kind)
    c.tfun = lambda i, o, n: terms_of(i['e'], {k: o[k][n] for k in ('d', 'D', 'Wn', 'W0')}, i['G'][n], i['tau'][n], s0(i['dt']))
    return c


def _virgin_assumes(i, nb):
    H = i['H']
    F = [[v_add(H[a][b], 1.0 if a == b else 0.0) for b in range(3)] for a in range(3)]
    return positive(i, nb) + [v_lt(0.0, det33(F))]


def _vir_terms(c, i, o, nb):
    t = {'en': s0(o['en']), 'weq': s0(o['weq']), 'p': v_not(devzero6(i['e']))}
    for n in range(nb):
        tn = c.tfun(i, o, n)
        t['T%d' % n] = _T(tn)
        t['W%d' % n] = tn['w0']
    return t


def _spec_virgin_bounds(c, nb, suffix=''):
    def spec(i, o):
        t = _vir_terms(c, i, o, nb)
        ats = [g(t) for g in vir_goals(nb).values()]
        for a in ats:
            a.name += suffix
        return _virgin_assumes(i, nb), ats
    return spec


@obligation(P, 'O5.virgin_energy_between_equilibrium_and_instantaneous', cap=300)
def o5(h):
    """virgin state: W_eq(F) <= energy_density(F, I, dt) <= W_eq(F) + sum_n W_neq_n(Ee); the branch contributions approach 0
    like tau/dt and W_neq_n(Ee) like dt/tau (the two limits)"""
    Ms = models()
    _enc(h, *Ms)
    h.bounds(BOUNDS, 'dispGrad: every real 3x3 matrix with det(I + dispGrad) > 0; state = the module\'s own compute_initial_state()')
    h.assume_note('log(J) and J**(-2/3) in _eq_strain_energy are uninterpreted (they cancel: only congruence is used)',
                  'virgin state: every branch has Fv = I, hence the same trial strain Ee(F) in all branches (congruence of the stubbed function)')
    keys = ['branch_energy_nonnegative', 'branch_energy_at_most_instantaneous', 'branch_energy_strictly_between',
            'rate_to_equilibrium', 'rate_to_instantaneous', 'branch_energy_closed_form']
    for k in keys:
        prove_lemma(h, k)
    for M in Ms:
        nb = M.nb
        c = guarded_case(h, 'virgin[%s]' % M.kind, lambda: _virgin_case(h, M))
        if c is None:
            continue

        def spec_struct(i, o, nb=nb, c=c):
            t = _vir_terms(c, i, o, nb)
            ident = [1.0 if (k % 9) in (0, 4, 8) else 0.0 for k in range(9 * nb)]
            return _virgin_assumes(i, nb), [
                Eq(t['en'], v_add(t['weq'], v_sum([t['T%d' % n] for n in range(nb)])), name='energy_is_Weq_plus_branch_relaxed_Wneq_plus_branch_dissipation'),
                Eq(s0(o['Dq']), v_sum([o['D'][n] for n in range(nb)]), name='reported_dissipation_is_sum_of_branch_dissipations'),
                Eq(list(o['st0']), ident, name='initial_state_is_identity_per_branch'),
            ]
        c.prove('virgin[%s]' % M.kind, spec_struct, denoms=False)
        cuts = prove_cuts(c, c.tfun, range(nb), nb, pre='virgin[%s].' % M.kind)
        inst = []
        for n in range(nb):
            tz = c.tfun(c.inp, c.out, n)
            inst += [lemma_instance(k, tz) for k in keys]

        def spec_branch(i, o, nb=nb, c=c):
            ats = []
            for n in range(nb):
                t = c.tfun(i, o, n)
                T = _T(t)
                ats += [Le(0.0, T, name='branch%d_energy_nonnegative' % n), Le(T, t['w0'], name='branch%d_energy_at_most_instantaneous' % n),
                        Lt([0.0, T], [T, t['w0']], when=v_not(devzero6(t['e'])), scale=0.0, name='branch%d_energy_strictly_between_unless_dev_Ee_zero' % n)]
                for k in keys[3:]:
                    a = LEMMAS[k](t)
                    a.name = 'branch%d_%s' % (n, k)
                    ats.append(a)
            return _virgin_assumes(i, nb), ats
        c.prove('virgin[%s]' % M.kind, spec_branch, denoms=False, extra_assumes=cuts + inst)
        # totals: summation lemma instantiated on the code's terms, hypotheses = the goals proved above
        hyp, goals = vir_hyp(nb), vir_goals(nb)
        for k, g in goals.items():
            prove_lemma(h, 'sum_of_%d_branch_energies.%s' % (nb, k), hyp, g, vir_sorts(nb))
        tz = _vir_terms(c, c.inp, c.out, nb)
        cuts2 = [tob(x) for x in hyp(tz)] + [lemma_instance(k, tz, hyp, g) for k, g in goals.items()]
        prove_pinned(c, 'virgin[%s]' % M.kind, _spec_virgin_bounds(c, nb), extra_assumes=cuts2)


@obligation(P, 'O5.virgin_energy_monolithic', tiers=('thorough',), cap=600)
def o5m(h):
    """the bounds that z3 finishes in one query each on the real energy function (no cut chain)"""
    Ms = models()[:1]
    _enc(h, *Ms)
    h.bounds(BOUNDS, 'dispGrad: every real 3x3 matrix with det(I + dispGrad) > 0')
    h.assume_note('log(J) and J**(-2/3) in _eq_strain_energy are uninterpreted (they cancel: only congruence is used)')
    for M in Ms:  # three-branch monolithic forms: see DESIGNED_NOT_REGISTERED
        c = guarded_case(h, 'virgin[%s]' % M.kind, lambda: _virgin_case(h, M))
        if c is None:
            continue
        c.prove('virgin[%s]' % M.kind, _spec_virgin_bounds(c, M.nb, '.monolithic'), denoms=False, cap=300, order=('core',))


# ------------------------------------------------------------------------------------------ O6
@obligation(P, 'O6.three_branch_equals_three_single_branch', cap=300)
def o6(h):
    """three-branch module == three copies of the single-branch formulas fed with (G_n, tau_n) and the n-th state block:
    energy, dissipated energy, new state, argument of expm, initial state"""
    S, M = Model('single'), Model('multi')
    _enc(h, S, M)
    h.encoded(S.mod._compute_state_new, M.mod._compute_state_new)
    h.bounds(BOUNDS, 'dispGrad: every real 3x3 matrix with det(I + dispGrad) > 0; state: every real 27-vector (Ee_n read from block n); expm values X_n: every real 3x3')
    h.assume_note(STUB_EXPM, 'log(J) and J**(-2/3) in _eq_strain_energy are uninterpreted (congruence only)')

    calls = []

    def f(H, state, X, dt, K, Ge, G, tau):
        def run(Mo, st, Gs, taus, Xs):
            seen = []

            def expm_stub(A):
                seen.append(A)
                return Xs[(len(seen) - 1) % Mo.nb]
            with no_tensor_functions(Mo, expm=False), patched(Mo.mod, _compute_elastic_logarithmic_strain=log_stub_from_state,
                                                              linalg=types.SimpleNamespace(expm=expm_stub)):
                mat = Mo.material(K, Ge, Gs, taus)
                en = mat.compute_energy_density(H, st, dt)
                D = mat.compute_material_qoi(H, st, dt)
                new = mat.compute_state_new(H, st, dt)
                init = mat.compute_initial_state()
            calls.append((Mo.kind, len(seen)))
            return en, D, new, (jnp.stack(seen) if len(seen) == Mo.nb else jnp.zeros((Mo.nb, 3, 3))), init
        del calls[:]
        en_m, D_m, new_m, arg_m, init_m = run(M, state, G, tau, X)
        singles = [run(S, state[9 * n:9 * n + 9], G[n:n + 1], tau[n:n + 1], X[n:n + 1]) for n in range(3)]
        weq = S.mod._eq_strain_energy(H, S.props(K, Ge, G[:1], tau[:1]))
        return dict(en_m=en_m, D_m=D_m, new_m=new_m, arg_m=arg_m, init_m=init_m, weq=weq,
                    en_s=jnp.stack([s[0] for s in singles]), D_s=jnp.stack([s[1] for s in singles]),
                    new_s=jnp.hstack([s[2] for s in singles]), arg_s=jnp.concatenate([s[3] for s in singles]),
                    init_s=jnp.hstack([s[4] for s in singles]))
    ex = dict(H=onp.array([[.1, .02, 0.], [.03, -.05, .01], [0., .02, .04]]), state=onp.linspace(-.2, .3, 27) + onp.tile(onp.eye(3).ravel(), 3),
              X=onp.tile(onp.eye(3), (3, 1, 1)) + 0.01 * onp.arange(27).reshape(3, 3, 3), dt=0.1, **M.ex_moduli())
    smp = lambda rng: [rng.normal(size=(3, 3)) * 0.1, rng.normal(size=27), rng.normal(size=(3, 3, 3)), 10.0 ** rng.uniform(-2, 2)] + M.smp_moduli(rng)
    c = guarded_case(h, 'multi_vs_single', lambda: Case(h, f, ex, sampler=smp, label='multi_vs_single'))
    if c is None:
        return

    via_expm = calls == [('multi', 3), ('single', 1), ('single', 1), ('single', 1)]
    h.fact('multi_vs_single.expm_called_once_per_branch', via_expm, 'calls of jax.scipy.linalg.expm by compute_state_new: %s (expected 3 / 1 / 1 / 1); '
           'if not, the arguments of expm cannot be compared and the state update is compared as explicit formulas' % (calls,))

    def spec(i, o):
        weq = s0(o['weq'])
        ats = [
            Eq(v_sub(s0(o['en_m']), weq), v_sum([v_sub(o['en_s'][n], weq) for n in range(3)]), name='energy'),
            Eq(s0(o['D_m']), v_sum([o['D_s'][n] for n in range(3)]), name='dissipated_energy'),
            Eq(o['new_m'], o['new_s'], name='state_new'),
            Eq(o['init_m'], o['init_s'], name='initial_state'),
        ]
        if via_expm:
            ats.append(Eq(o['arg_m'], o['arg_s'], name='expm_arguments'))
        return _virgin_assumes(i, 3), ats
    c.prove('multi_vs_single', spec, denoms=False, cap=60)


# ------------------------------------------------------------------------------------------ O7
@obligation(P, 'O7.increment_minimises_incremental_potential', cap=300)
def o7(h):
    """variational consistency that ties the three functions together: delta_Ev is the stationary point (minimiser: the
    potential is a convex quadratic) of x -> W_neq(Ee - x) + dt Psi(x/dt), i.e. the real jax.grad of the real functions
    vanishes at the real increment"""
    Ms = models()
    _enc(h, *Ms)
    h.bounds(BOUNDS)
    h.outside('convexity of the incremental potential in x (sum of two squared norms with positive weights)')
    for M in Ms:
        for n in range(M.nb):
            def f(e, dt, K, Ge, G, tau, M=M, n=n):
                p = M.props(K, Ge, G, tau)
                E = sym33(e)
                x = M.inc(E, dt, p, n)
                return jax.grad(lambda y: M.wneq(E - y, p, n) + dt * M.psi(y / dt, p, n))(x)
            ex = dict(e=onp.array([.1, .2, -.1, .05, .02, .03]), dt=0.1, **M.ex_moduli())
            smp = lambda rng, M=M: [rng.normal(size=6) * 0.3, 10.0 ** rng.uniform(-2, 2)] + M.smp_moduli(rng)
            c = Case(h, f, ex, sampler=smp, label='stationarity[%s,branch%d]' % (M.kind, n), validate=2)
            c.prove('branch%d[%s]' % (n, M.kind), lambda i, o, M=M: (positive(i, M.nb), Eq(o, 0.0, name='gradient_vanishes_at_increment')), denoms=False)


# ------------------------------------------------------------------------------------------ O8
KIN_NOTE = ('kinematic fact the assumed coaxial identity Ee_next = Ee - delta_Ev rests on (proved here, on the real '
            '_compute_elastic_logarithmic_strain): the tensor handed to the matrix logarithm is the RIGHT elastic Cauchy-Green '
            'tensor Ce = Fe^T Fe with Fe = (dispGrad + I) inv(Fv_n), Fv_n the n-th block of the state; with Fv_new = expm(dEv) Fv_old '
            '(O2) one gets Ce_new = expm(-dEv) Ce expm(-dEv), and for dEv coaxial with Ce this is log-additive. With the left '
            'tensor Fe Fe^T the increment would live in the wrong frame')
STUB_LOGM = ('TensorMath.log_sqrt_symm / log_symm are replaced by an arbitrary 3x3 tensor per call (uninterpreted; the argument '
             'passed by the real code is captured); jnp.linalg.inv is the real one (JX: relational, fresh Y with Fv Y = I), wrapped '
             'only to expose its argument and result')


@obligation(P, 'O8.log_strain_argument_is_right_elastic_cauchy_green', cap=300)
def o8(h):
    """real _compute_elastic_logarithmic_strain, as called by _energy_density / _compute_dissipated_energy / _compute_state_new
    of both modules: per branch the matrix inverted is that branch's Fv block and the log argument is (F Y)^T (F Y), Fv Y = I"""
    Ms = models()
    _, _, TM = _mods()
    _enc(h, *Ms)
    for M in Ms:
        h.encoded(M.mod._compute_elastic_logarithmic_strain, M.mod._compute_state_new)
    h.bounds('dispGrad: every real 3x3 matrix; Fv_n: every real 3x3 matrix with det != 0 per branch; moduli, tau, dt > 0; '
             'value of the matrix logarithm and of expm: arbitrary 3x3 tensors per call')
    h.assume_note(STUB_LOGM, STUB_EXPM, KIN_NOTE, 'linear system solved by jnp.linalg.inv is non-singular (det Fv_n != 0 is a hypothesis)')
    h.outside('that Fv Y = I makes Y the two-sided inverse (linear algebra)', 'the coaxial/log-additivity step itself (assumed, see O3)')
    for M in Ms:
        nb = M.nb
        for fname in ('_energy_density', '_compute_dissipated_energy', '_compute_state_new'):
            info = {}

            def f(H, state, L, X, dt, K, Ge, G, tau, M=M, nb=nb, fname=fname, info=info):
                p = M.props(K, Ge, G, tau)
                logargs, invs, nx = [], [], []
                real_inv = jnp.linalg.inv

                def inv_wrap(a):
                    y = real_inv(a)
                    invs.append((a, y))
                    return y

                def log_stub(scale):
                    def stub(A):
                        logargs.append(A)
                        return scale * L[(len(logargs) - 1) % nb]
                    return stub

                def expm_stub(A):
                    nx.append(A)
                    return X[(len(nx) - 1) % nb]
                with patched(TM, log_sqrt_symm=log_stub(1.0), log_symm=log_stub(2.0)), patched(jnp.linalg, inv=inv_wrap), \
                        patched(M.mod, linalg=types.SimpleNamespace(expm=expm_stub)):
                    out = getattr(M.mod, fname)(H, state, dt, p)
                info['n'] = (len(logargs), len(invs))
                z = jnp.zeros((nb, 3, 3))
                okl, oki = len(logargs) == nb, len(invs) == nb
                return dict(out=out, A=jnp.stack(logargs) if okl else z, Yin=jnp.stack([a for a, _ in invs]) if oki else z,
                            Y=jnp.stack([y for _, y in invs]) if oki else z)
            ex = dict(H=onp.array([[.1, .02, 0.], [.03, -.05, .01], [0., .02, .04]]),
                      state=0.1 * onp.linspace(-.2, .3, 9 * nb) + onp.tile(onp.eye(3).ravel(), nb),
                      L=0.01 * onp.arange(9 * nb).reshape(nb, 3, 3), X=onp.tile(onp.eye(3), (nb, 1, 1)) + 0.01 * onp.arange(9 * nb).reshape(nb, 3, 3),
                      dt=0.1, **M.ex_moduli())
            smp = lambda rng, nb=nb, M=M: [rng.normal(size=(3, 3)) * 0.2, 0.2 * rng.normal(size=9 * nb) + onp.tile(onp.eye(3).ravel(), nb),
                                           rng.normal(size=(nb, 3, 3)) * 0.2, rng.normal(size=(nb, 3, 3)), 10.0 ** rng.uniform(-2, 2)] + M.smp_moduli(rng)
            c = Case(h, f, ex, sampler=smp, label='kinematics[%s,%s]' % (M.kind, fname), validate=2)
            nl, ni = info['n']
            tag = '%s[%s]' % (fname, M.kind)
            h.fact('%s.one_log_and_one_inverse_per_branch' % tag, nl == nb and ni == nb,
                   'matrix-log calls %d, jnp.linalg.inv calls %d (expected %d each)' % (nl, ni, nb))
            if nl != nb:
                continue
            have_inv = ni == nb

            def spec(i, o, nb=nb, have_inv=have_inv):
                H = i['H']
                F = [[v_add(H[a][b], 1.0 if a == b else 0.0) for b in range(3)] for a in range(3)]
                asm, ats = positive(i, nb), []
                eye = [1.0 if a == b else 0.0 for a in range(3) for b in range(3)]
                for n in range(nb):
                    Fv = [[i['state'][9 * n + 3 * a + b] for b in range(3)] for a in range(3)]
                    asm.append(v_not(v_eq(det33(Fv), 0.0)))
                    A = [[o['A'][n][a][b] for b in range(3)] for a in range(3)]
                    if have_inv:
                        Y = [[o['Y'][n][a][b] for b in range(3)] for a in range(3)]
                        Fe = matmul33(F, Y)
                        FeT = [[Fe[b][a] for b in range(3)] for a in range(3)]
                        ats += [Eq(flat(o['Yin'][n]), flat(Fv), name='branch%d_inverted_matrix_is_Fv_block' % n),
                                Eq(flat(matmul33(Fv, Y)), eye, name='branch%d_Y_is_inverse_of_Fv' % n),
                                Eq(flat(A), flat(matmul33(FeT, Fe)), name='branch%d_log_argument_is_FeT_Fe' % n)]
                    else:  # no jnp.linalg.inv seen: characterise the argument by Fv^T A Fv = F^T F
                        FvT = [[Fv[b][a] for b in range(3)] for a in range(3)]
                        FT = [[F[b][a] for b in range(3)] for a in range(3)]
                        ats.append(Eq(flat(matmul33(FvT, matmul33(A, Fv))), flat(matmul33(FT, F)), name='branch%d_FvT_logarg_Fv_is_FT_F' % n))
                return asm, ats
            c.prove(tag, spec, denoms=True, order=('core', 'nlsat'))


# ------------------------------------------------------------------------------------------ O9
ISO_NOTE = ('matrix logarithm (TensorMath.log_sqrt_symm / log_symm) and expm are uninterpreted tensor functions per call, constrained '
            'by congruence (equal arguments -> equal values) and, for the logarithm, the isotropy instance f(Q A Q^T) = Q f(A) Q^T for '
            'the in-plane rotation Q of the query (DESIGN 2, library calls by contract); their values are symmetric resp. arbitrary 3x3')


def prove_vs_real(c, name, spec, real_eval, pins=None, cap=150, order=('core', 'nlsat'), extra=()):
    """symbolic side: the stubbed trace of case c; replay side: the UNSTUBBED real functions at the model's inputs
    (real_eval(inputs) -> (assumptions_hold, atoms, info), atoms in the order of spec's). If a model does not reproduce or
    the goal is inconclusive, the same goal is searched with pinned inputs (falsification aid only, see prove_or_search)."""
    from .. import sym
    assumes, atoms = spec(c.inp, c.out)
    base = [tob(x) for x in assumes] + c.side(True) + list(extra)
    for k, atom in enumerate(atoms):
        def concrete(vals, k=k):
            ok, catoms, info = real_eval(c.conc_inputs(vals))
            return ok, catoms[k], info
        qn = '%s.%s' % (name, atom.name)
        rec = c.h.prove(qn, base, atom, inputs=c.inp, concrete=concrete, cap=cap, order=order)
        if pins is not None and (c.h.replay is not None or (rec is not None and rec.get('status') in ('inconclusive', 'unreproduced'))):
            c.h.prove(qn + '.guided_search', base + [tob(x) for x in pins(c.inp)], atom, inputs=c.inp, concrete=concrete, cap=30, order=('nlsat', 'core'))


@obligation(P, 'O9.reported_dissipation_objective_and_nonnegative_for_rotated_F', cap=300)
def o9(h):
    """real compute_material_qoi on the real kinematics (virgin state), F and Q F with Q an in-plane rotation (c, s),
    c^2 + s^2 = 1, F any 3x3 with det > 0: qoi(Q F) = qoi(F) (objectivity) and both >= 0; replayed on the unstubbed code"""
    Ms = models()
    _, _, TM = _mods()
    _enc(h, *Ms)
    for M in Ms:
        h.encoded(M.mod._compute_elastic_logarithmic_strain)
    h.bounds('dispGrad H: every real 3x3 with det(I + H) > 0; Q = in-plane rotation by any angle (c, s reals with c^2 + s^2 = 1); state = '
             'compute_initial_state(); moduli, tau, dt > 0')
    h.assume_note(ISO_NOTE)
    h.outside('rotations about other axes and non-virgin states (objectivity there follows from the same congruence step; not encoded)')
    for M in Ms:
        nb = M.nb
        NL, NX = 4 * nb, 2 * nb
        info = {}

        def rot(c_, s_):
            return jnp.array([[1.0, 0, 0], [0, 1.0, 0], [0, 0, 0]]) * c_ + jnp.array([[0, -1.0, 0], [1.0, 0, 0], [0, 0, 0]]) * s_ + jnp.diag(jnp.array([0, 0, 1.0]))

        def f(H, cs, L, X, dt, K, Ge, G, tau, M=M, nb=nb, NL=NL, NX=NX, info=info):
            logs, exps = [], []

            def log_stub(scale):
                def stub(A):
                    logs.append(A)
                    return scale * sym33(L[len(logs) - 1])
                return stub

            def expm_stub(A):
                exps.append(A)
                return X[len(exps) - 1]
            Q = rot(cs[0], cs[1])
            with patched(TM, log_sqrt_symm=log_stub(1.0), log_symm=log_stub(2.0)), patched(M.mod, linalg=types.SimpleNamespace(expm=expm_stub)):
                mat = M.material(K, Ge, G, tau)
                st0 = mat.compute_initial_state()
                D1 = mat.compute_material_qoi(H, st0, dt)
                D2 = mat.compute_material_qoi(Q @ (H + jnp.eye(3)) - jnp.eye(3), st0, dt)
            info['n'] = (len(logs), len(exps))
            z = jnp.zeros((3, 3))
            return dict(D1=D1, D2=D2, A=jnp.stack(logs + [z] * (NL - len(logs))), EA=jnp.stack(exps + [z] * (NX - len(exps))))
        ex = dict(H=onp.array([[.1, .02, 0.], [.03, -.05, .01], [0., .02, .04]]), cs=onp.array([0.6, 0.8]), L=0.05 * onp.arange(6 * NL).reshape(NL, 6) / NL,
                  X=onp.tile(onp.eye(3), (NX, 1, 1)), dt=0.1, **M.ex_moduli())

        def smp(rng, NL=NL, NX=NX, M=M):
            th = rng.uniform(0, 6.28)
            return [rng.normal(size=(3, 3)) * 0.1, onp.array([onp.cos(th), onp.sin(th)]), rng.normal(size=(NL, 6)) * 0.2,
                    rng.normal(size=(NX, 3, 3)), 10.0 ** rng.uniform(-2, 2)] + M.smp_moduli(rng)
        c = Case(h, f, ex, sampler=smp, label='objectivity[%s]' % M.kind, validate=2)
        nl, nx = info['n']
        h.fact('qoi[%s].tensor_function_calls' % M.kind, True, 'two evaluations of compute_material_qoi call the matrix log %d times and expm %d times' % (nl, nx), nontrivial=False)

        def spec(i, o, nl=nl, nx=nx, nb=nb):
            H, c_, s_ = i['H'], i['cs'][0], i['cs'][1]
            F = [[v_add(H[a][b], 1.0 if a == b else 0.0) for b in range(3)] for a in range(3)]
            Q = [[c_, v_sub(0.0, s_), 0.0], [s_, c_, 0.0], [0.0, 0.0, 1.0]]
            QT = [[Q[b][a] for b in range(3)] for a in range(3)]
            asm = positive(i, nb) + [approx_eq(v_add(v_sq(c_), v_sq(s_)), 1.0), v_lt(0.0, det33(F))]
            A = [[[o['A'][k][a][b] for b in range(3)] for a in range(3)] for k in range(nl)]
            Ls = [mat6(i['L'][k]) for k in range(nl)]
            eqm = lambda P_, R_: v_and(*[v_eq(x, y) for x, y in zip(flat(P_), flat(R_))])
            for k in range(nl):
                for j in range(nl):
                    if k < j:
                        asm.append(v_implies(eqm(A[k], A[j]), eqm(Ls[k], Ls[j])))
                    if k != j:
                        asm.append(v_implies(eqm(A[j], matmul33(Q, matmul33(A[k], QT))), eqm(Ls[j], matmul33(Q, matmul33(Ls[k], QT)))))
            for k in range(nx):
                for j in range(k + 1, nx):
                    asm.append(v_implies(eqm(o['EA'][k], o['EA'][j]), eqm(i['X'][k], i['X'][j])))
            D1, D2 = s0(o['D1']), s0(o['D2'])
            return asm, [Eq(D1, D2, name='objective'), Le(0.0, D1, name='nonnegative'), Le(0.0, D2, name='nonnegative_for_rotated_F')]

        def real_eval(ci, M=M, nb=nb):
            H, (c_, s_), dt = ci['H'], ci['cs'], float(ci['dt'])
            mat = M.material(float(ci['K']), float(ci['Ge']), [float(x) for x in ci['G']], [float(x) for x in ci['tau']])
            st0 = mat.compute_initial_state()
            Q = onp.array([[c_, -s_, 0.0], [s_, c_, 0.0], [0.0, 0.0, 1.0]])
            F = H + onp.eye(3)
            D1 = float(mat.compute_material_qoi(jnp.asarray(H), st0, dt))
            D2 = float(mat.compute_material_qoi(jnp.asarray(Q @ F - onp.eye(3)), st0, dt))
            ok = dt > 0 and all(x > 0 for x in ci['G']) and all(x > 0 for x in ci['tau']) and abs(c_ * c_ + s_ * s_ - 1.0) <= 1e-9 and onp.linalg.det(F) > 0
            sc = abs(D1) + abs(D2)
            return bool(ok), [Eq(D1, D2, name='objective', scale=sc), Le(0.0, D1, name='nonnegative', scale=sc), Le(0.0, D2, name='nonnegative_for_rotated_F', scale=sc)], \
                dict(D_F=D1, D_QF=D2, note='unstubbed real functions (real log_sqrt_symm, expm, inv)')

        def pins(i):  # isochoric-ish biaxial stretch, quarter turn (c, s) = (0, 1): exact rationals
            Hp = [[0.3, 0.0, 0.0], [0.0, -0.2, 0.0], [0.0, 0.0, 0.0]]
            return [v_eq(i['H'][a][b], Hp[a][b]) for a in range(3) for b in range(3)] + [v_eq(i['cs'][0], 0.0), v_eq(i['cs'][1], 1.0)] + unit_moduli(i)
        # cut: which log arguments of the evaluation at Q F coincide with those at F (the step that uses c^2 + s^2 = 1); only the
        # pairs the solver proves are used (a spatial quantity may legitimately rotate), each recorded as a goal of its own
        from .. import sym as _sym
        n1 = nl // 2
        cuts = []
        if nl == 2 * n1:
            asm0 = [tob(x) for x in spec(c.inp, c.out)[0][:2 * nb + 3]]
            for k in range(n1):
                eqs = [toz(x) == toz(y) for x, y in zip(flat(c.out['A'][n1 + k]), flat(c.out['A'][k]))]
                if c.h.replay is None and _sym.solve(asm0 + c.side(True) + [z3.Not(z3.And(*eqs))], 20, ('core', 'nlsat'))[0] != 'unsat':
                    continue

                def spec_cut(i, o, k=k, n1=n1, nb=nb):
                    return spec(i, o)[0][:2 * nb + 3], Eq(flat(o['A'][n1 + k]), flat(o['A'][k]), name='cut.log_argument_%d_unchanged_by_rotation' % k)
                c.prove('qoi[%s]' % M.kind, spec_cut)
                # modus ponens with the congruence axiom of the log stub: equal arguments -> equal values
                cuts += eqs + [toz(x) == toz(y) for x, y in zip(flat(c.inp['L'][n1 + k]), flat(c.inp['L'][k]))]
        prove_vs_real(c, 'qoi[%s]' % M.kind, spec, real_eval, pins=pins, extra=cuts)
