"""C13 — mesh construction, reading and order elevation keep meshes valid (JX; geometry of order elevation on fixed small topologies).

Only a slice of the property is within reach of solver-based checking (DESIGN.md section 5 / C13):

* the REAL `Mesh.create_higher_order_mesh_from_simplex_mesh` (with the real `create_edges` and `Interpolants.make_parent_element_*`)
  is traced with the vertex COORDINATES as the only symbolic input on fixed small connectivities (single triangle in its three
  cyclic orders, two triangles sharing an edge in all nine combinations of cyclic orders, a closed four-triangle fan, a four-triangle
  strip bent around a boundary notch).  The connectivity the real code produces is concrete (it does not depend on the coordinates);
  the coordinates of all new nodes are terms that are linear in the symbolic vertex coordinates.
* O1..O3 are decided by z3 for ALL vertex coordinates in the box (O3: with every element area >= a_min); O4 are ground facts on the
  concrete connectivity; O5 runs the real Exodus reader (netCDF4 replaced by an in-memory stand-in that hands over SYMBOLIC nodal
  coordinates) and the real VTK writer on geometric 6-node triangles; O6 is the structured generator with symbolic extents and the
  geometric meaning of the `create_edges` tables.

Everything that quantifies over topologies or files (arbitrary meshes, `create_edges` adjacency on arbitrary connectivity,
`combine_mesh`/`combine_blocks`/node sets/side sets, both file readers) is outside the claim: see OUTSIDE.
"""
import io
import math
import itertools

import numpy as onp
import jax
import jax.numpy as jnp

from ..core import obligation
from ..jxh import Case
from ..sym import Le, Lt, Eq, Holds, v_abs, v_lt, v_le, v_eq, v_sub, v_add, v_mul, v_sum, v_and, v_or, v_not, flat
from .c03 import geom, affine_point, box, pyf, s0, ground, BOX, DET_MIN, EPS

P = 'C13'
TOL_NODE = 4 * EPS * BOX         # |node - affine image|: the code's barycentric weights differ from the reference table's by <= 1.75 ulp (L1), times |x| <= BOX
SC = 1e-3                        # replay/margin scale of tolerance atoms
L_MIN = 0.1                      # structured generator: extents x1 - x0 >= L_MIN, y1 - y0 >= L_MIN

OUTSIDE = ('validity for ARBITRARY topologies (the quantifier of the property is over meshes: unstructured, with holes, any size); only the listed fixed '
           'connectivities are covered, the coordinates are universally quantified',
           'Mesh.create_edges adjacency on arbitrary connectivity (integer bookkeeping behind numpy.sort/unique/where: a solver would have to fork on every '
           'comparison, i.e. enumerate topologies); here its output is a concrete table per fixed topology, checked by ground facts and given its geometric meaning',
           'Mesh.combine_mesh / combine_blocks / combine_nodesets / combine_sidesets (index offsetting of dictionaries of integer arrays; clashing set names): not applicable',
           'ReadMesh.read_json_mesh and ReadExodusMesh.read_exodus_mesh as file readers (JSON / netCDF C library, 1-based to 0-based bookkeeping, blocks, node and side '
           'sets, element maps): not applicable; only the Tri6 node-order permutation is checked, through the real reader on an in-memory stand-in for the file',
           'Surface.create_edges (Python-level branching on a user predicate of the coordinates) and create_nodesets_from_sidesets (numpy.unique)',
           'curved higher-order elements (the code places every new node on the straight-sided triangle), rounding error of evaluating the formulas in binary64')


def _mods():
    from optimism import Mesh, Interpolants
    return Mesh, Interpolants


# ------------------------------------------------------------------------------------------ fixed topologies
def rot(t, r):
    return [t[(k + r) % 3] for k in range(3)]


EMB_TRI = [[0., 0.], [1., 0.], [0., 1.]]
EMB_TWO = [[0., 0.], [1., 0.], [1., 1.], [0., 1.]]
EMB_FAN = [[0., 0.], [1., 0.], [0., 1.], [-1., 0.], [0., -1.]]
EMB_STRIP = [[0., 0.], [1., 0.], [2., 0.], [0., 1.], [1., 1.], [0.5, -1.]]


def topologies(which=('tri', 'two', 'fan', 'strip')):
    """(label, base connectivity, example embedding).  The vertex order of every element is counter-clockwise in the example
    embedding; cyclic rotations differ from element to element so that every (left side, right side) combination of a shared edge occurs."""
    out = []
    if 'tri' in which:
        for r in range(3):
            out.append(('tri[r%d]' % r, [rot([0, 1, 2], r)], EMB_TRI))
    if 'two' in which:
        for r in range(3):
            for s in range(3):
                out.append(('two[r%d,s%d]' % (r, s), [rot([0, 1, 2], r), rot([0, 2, 3], s)], EMB_TWO))
    if 'fan' in which:
        # closed fan around the interior vertex 0
        out.append(('fan', [rot([0, 1, 2], 0), rot([0, 2, 3], 1), rot([0, 3, 4], 2), rot([0, 4, 1], 1)], EMB_FAN))
    if 'strip' in which:
        # strip D-A-B-C (dual graph is a path) bent around vertex 1: C and D touch only in vertex 1, the boundary has a notch there
        out.append(('strip_notch', [rot([0, 1, 3], 1), rot([1, 4, 3], 0), rot([1, 2, 4], 2), rot([1, 0, 5], 1)], EMB_STRIP))
    return out


def configs(h):
    """(order, bubble): orders 2, 3 quick; 4, 5 and the bubble elements thorough"""
    q = [(2, False), (3, False)]
    if h.thorough():
        q += [(4, False), (5, False), (2, True), (3, True), (4, True), (5, True)]
    return q


def ename(order, bubble):
    return 'P%d%s' % (order, 'b' if bubble else '')


def emb_sampler(emb):
    """validation inputs only (the elevation is linear in the coordinates): the example embedding, scaled, shifted, perturbed"""
    E = onp.asarray(emb, dtype=float)

    def smp(rng):
        return [rng.uniform(0.5, 1.5) * E + rng.uniform(-1, 1, size=2) + rng.uniform(-0.1, 0.1, size=E.shape)]
    return smp


# ------------------------------------------------------------------------------------------ independent topology oracle
def sides_of(conn):
    """{(a, b): (element, side)} for the directed sides a -> b of all elements"""
    d = {}
    for e, c in enumerate(conn):
        for k in range(3):
            d[(c[k], c[(k + 1) % 3])] = (e, k)
    return d


def interior_edges(conn):
    """[(eL, kL, eR, kR)] each shared edge once: side kL of eL is a -> b, side kR of eR is b -> a"""
    d = sides_of(conn)
    out = []
    for (a, b), (e, k) in sorted(d.items()):
        if (b, a) in d and (e, k) < d[(b, a)]:
            out.append((e, k) + d[(b, a)])
    return out


def boundary_sides(conn):
    d = sides_of(conn)
    return [(e, k) for (a, b), (e, k) in sorted(d.items()) if (b, a) not in d]


# ------------------------------------------------------------------------------------------ geometry helpers (dual: z3 terms and floats)
def cross(a, b, p, q):
    """(b - a) x (p - q)  =  orient(a, b, p) - orient(a, b, q)"""
    return v_sub(v_mul(v_sub(b[0], a[0]), v_sub(p[1], q[1])), v_mul(v_sub(b[1], a[1]), v_sub(p[0], q[0])))


def orient(a, b, w):
    """twice the signed area of (a, b, w)"""
    return cross(a, b, w, a)


def bary(xi):
    return [xi[0], xi[1], 1.0 - xi[0] - xi[1]]


# ------------------------------------------------------------------------------------------ the traced elevation
class Elev:
    """one (topology, order, bubble): concrete run of the real code (connectivity, tables) + Case with symbolic coordinates"""

    def __init__(self, h, label, conn, emb, order, bubble, case=True):
        M, I = _mods()
        self.label = '%s %s' % (label, ename(order, bubble))
        self.conn, self.order, self.bubble = conn, order, bubble
        self.nv = len(emb)
        base = M.construct_mesh_from_basic_data(jnp.asarray(emb), jnp.array(conn), {'block': jnp.arange(len(conn))})
        ho = M.create_higher_order_mesh_from_simplex_mesh(base, order, useBubbleElement=bubble)
        self.ho = ho
        self.conns = [[int(v) for v in row] for row in onp.asarray(ho.conns)]
        pe, pe1 = ho.parentElement, ho.parentElement1d
        self.pc = pyf(pe.coordinates)
        self.npe = len(self.pc)
        self.vert = [int(v) for v in pe.vertexNodes]
        self.face = [[int(v) for v in row] for row in onp.asarray(pe.faceNodes)]
        self.inter = [int(v) for v in pe.interiorNodes]
        self.s1d = [float(v) for v in onp.asarray(pe1.coordinates)]
        self.int1d = [int(v) for v in pe1.interiorNodes]
        self.nn = int(ho.coords.shape[0])
        self.simplex = [int(v) for v in ho.simplexNodesOrdinals]
        conns0 = self.conns

        def fn(X):
            with jax.ensure_compile_time_eval():
                m = M.create_higher_order_mesh_from_simplex_mesh(M.mesh_with_coords(base, X), order, useBubbleElement=bubble)
            if isinstance(m.conns, jax.core.Tracer) or [[int(v) for v in row] for row in onp.asarray(m.conns)] != conns0:
                raise RuntimeError('connectivity of the traced run differs from the concrete run')
            return m.coords
        self.fn = fn
        if case:
            self.case = Case(h, fn, dict(X=onp.asarray(emb, dtype=float)), sampler=emb_sampler(emb), label='elevate ' + self.label, validate=2)

    def lam(self, a):
        return bary(self.pc[a])


def cases(h, which=('tri', 'two', 'fan', 'strip'), case=True, cfgs=None):
    for label, conn, emb in topologies(which):
        for order, bubble in (cfgs or configs(h)):
            yield Elev(h, label, conn, emb, order, bubble, case=case)


def common(h):
    M, I = _mods()
    h.encoded(M.create_higher_order_mesh_from_simplex_mesh, M.create_edges, M.construct_mesh_from_basic_data, M.mesh_with_coords,
              I.make_parent_element_1d, I.get_lobatto_nodes_1d, I.make_parent_element_2d, I.make_parent_element_2d_with_bubble)
    h.outside(*OUTSIDE)
    h.assume_note('the only symbolic input is the array of vertex coordinates; the connectivity is one of the fixed small tables listed in the bounds and the tables '
                  'produced from it by the real code (create_edges, parent elements, new connectivity) are concrete values of this run (jax.ensure_compile_time_eval)',
                  'the connectivity produced while tracing is compared with the one of a concrete run of the real function (they must be identical)')


TOPO_TEXT = ('fixed connectivities: single triangle (3 cyclic vertex orders), two triangles sharing an edge (all 9 combinations of cyclic orders), closed 4-triangle fan '
             'around an interior vertex, 4-triangle strip bent around a boundary notch (mixed cyclic orders); orders 2, 3 (thorough: 4, 5 and the bubble elements P2b..P5b)')


# ------------------------------------------------------------------------------------------ O1
@obligation(P, 'O1.nodes_are_affine_images', cap=280)
def o1(h):
    """every node a of every element of the elevated mesh sits at v2 + J xi_a (xi_a: the real reference table of the parent element,
    J = [v0 - v2 | v1 - v2] from the element's own three vertices); vertex nodes keep number and position"""
    common(h)
    h.bounds(TOPO_TEXT, 'all vertex coordinates free in [-%g,%g]^2 (no area hypothesis: degenerate and inverted triangles included); tolerance %.3g = 4 ulp * box '
             '(the barycentric weights the code uses differ from the reference table by <= 1.75 ulp)' % (BOX, BOX, TOL_NODE))
    for E in cases(h):
        def spec(i, o, E=E):
            X, XH = i['X'], o
            lhs = []
            for e, c in enumerate(E.conn):
                v, J, det = geom(X, c)
                for a in range(E.npe):
                    p = affine_point(v, J, E.pc[a])
                    g = E.conns[e][a]
                    lhs += [v_abs(v_sub(XH[g][0], p[0])), v_abs(v_sub(XH[g][1], p[1]))]
            return box(X), [Eq([XH[k][d] for k in range(E.nv) for d in range(2)], [X[k][d] for k in range(E.nv) for d in range(2)], name='vertex_nodes_unchanged'),
                            Le(lhs, TOL_NODE, name='nodes_eq_v2_plus_J_xi', scale=SC)]
        E.case.prove('O1[%s]' % E.label, spec, cap=40)


# ------------------------------------------------------------------------------------------ O2
@obligation(P, 'O2.shared_edge_nodes', cap=280)
def o2(h):
    """the nodes along side k of every element (parentElement.faceNodes[k], in that order) sit at the Lobatto points s_m of the real 1-D parent
    element measured from the side's first to its second vertex; on a shared edge both elements list the SAME global nodes, in opposite order
    (ground fact), so the position agrees from both sides (this is what np.flip for the right-hand element provides; visible for order >= 3)"""
    common(h)
    h.bounds(TOPO_TEXT, 'all vertex coordinates free in [-%g,%g]^2; tolerance %.3g' % (BOX, BOX, TOL_NODE))
    for E in cases(h):
        n = E.order + 1
        ok, bad = True, []
        for eL, kL, eR, kR in interior_edges(E.conn):
            left = [E.conns[eL][E.face[kL][m]] for m in range(n)]
            right = [E.conns[eR][E.face[kR][m]] for m in range(n)]
            if left != right[::-1]:
                ok = False
                bad.append((eL, kL, left, eR, kR, right))
        ground(h, 'O2[%s].shared_edges_list_same_nodes_reversed' % E.label, ok and len(E.s1d) == n,
               '%d shared edges, %d nodes per edge; mismatches %s' % (len(interior_edges(E.conn)), n, bad), dict(mismatch=str(bad)))

        def spec(i, o, E=E, n=n):
            X, XH = i['X'], o
            lhs = []
            for e, c in enumerate(E.conn):
                for k in range(3):
                    a, b = X[c[k]], X[c[(k + 1) % 3]]
                    for m in range(n):
                        g = E.conns[e][E.face[k][m]]
                        s = E.s1d[m]
                        for d in range(2):
                            lhs.append(v_abs(v_sub(XH[g][d], v_add(v_mul(1.0 - s, a[d]), v_mul(s, b[d])))))
            return box(X), [Le(lhs, TOL_NODE, name='side_nodes_at_lobatto_points_from_every_element', scale=SC)]
        E.case.prove('O2[%s]' % E.label, spec, cap=40)


# ------------------------------------------------------------------------------------------ O3
def element_sets(E):
    return [set(row) for row in E.conns]


def o3_atoms(E, X, XH):
    """for every pair of distinct global nodes: a line through two mesh vertices (a, b) and a lower bound lo > 0 with (b - a) x (x_p - x_q) >= lo"""
    conn = E.conn
    ne = len(conn)
    sets = element_sets(E)
    dets = [geom(X, c)[2] for c in conn]
    loc = [{g: a for a, g in enumerate(row)} for row in E.conns]          # global -> local per element
    ie = {}
    for eL, kL, eR, kR in interior_edges(conn):
        ie[(eL, eR)] = (kL, kR)
        ie[(eR, eL)] = (kR, kL)
    atoms = []
    same = {e: ([], []) for e in range(ne)}
    adj = {}
    far = {}
    direct = []
    for p, q in itertools.combinations(range(E.nn), 2):
        ep = [e for e in range(ne) if p in sets[e]]
        eq_ = [e for e in range(ne) if q in sets[e]]
        both = [e for e in ep if e in eq_]
        if both:
            e = both[0]
            c = conn[e]
            lp, lq = E.lam(loc[e][p]), E.lam(loc[e][q])
            k = max(range(3), key=lambda kk: abs(lp[kk] - lq[kk]))
            d = lp[k] - lq[k]
            if abs(d) < 1e-6:
                direct.append((p, q, [e]))
                continue
            a, b = X[c[(k + 1) % 3]], X[c[(k + 2) % 3]]
            val = cross(a, b, XH[p], XH[q]) if d > 0 else cross(a, b, XH[q], XH[p])
            same[e][0].append(0.5 * abs(d) * DET_MIN)
            same[e][1].append(val)
            continue
        pairs = [(i, j) for i in ep for j in eq_ if (i, j) in ie]
        if pairs:
            i, j = pairs[0]
            kL, kR = ie[(i, j)]
            c = conn[i]
            lo = E.lam(loc[i][p])[(kL + 2) % 3] + E.lam(loc[j][q])[(kR + 2) % 3]
            if lo < 1e-6:
                direct.append((p, q, [i, j]))
                continue
            a, b = X[c[kL]], X[c[(kL + 1) % 3]]
            adj.setdefault((i, j), ([], []))
            adj[(i, j)][0].append(0.5 * lo * DET_MIN)
            adj[(i, j)][1].append(cross(a, b, XH[p], XH[q]))
            continue
        far.setdefault((ep[0], eq_[0]), []).append((p, q))
    for e in range(ne):
        if same[e][0]:
            atoms.append(Le(same[e][0], same[e][1], when=v_le(DET_MIN, dets[e]), scale=DET_MIN, name='same_element[e%d:%d pairs]' % (e, len(same[e][0]))))
    for (i, j), (lo, val) in sorted(adj.items()):
        atoms.append(Le(lo, val, when=v_and(v_le(DET_MIN, dets[i]), v_le(DET_MIN, dets[j])), scale=DET_MIN,
                        name='across_shared_edge[e%d|e%d:%d pairs]' % (i, j, len(lo))))
    for (i, j), prs in sorted(far.items()):
        # candidate separating lines: the three sides of e_i (p side non-negative), the three sides of e_j (q side non-negative)
        for owner, other, flip in ((i, j, False), (j, i, True)):
            c = conn[owner]
            for k in range(3):
                ia, ib = c[k], c[(k + 1) % 3]
                a, b = X[ia], X[ib]
                rest = [w for w in conn[other] if w not in (ia, ib)]
                hyp = v_and(v_le(DET_MIN, dets[owner]), *[v_le(orient(a, b, X[w]), -DET_MIN) for w in rest])
                lo, val = [], []
                for p, q in prs:
                    po, pt = (q, p) if flip else (p, q)          # po: node of the owner of the line, pt: node of the other element
                    l_own = E.lam(loc[owner][po])[(k + 2) % 3]
                    lt = E.lam(loc[other][pt])
                    l_oth = sum(lt[m] for m in range(3) if conn[other][m] in rest)
                    if l_own + l_oth < 1e-6:
                        continue
                    lo.append(0.5 * (l_own + l_oth) * DET_MIN)
                    val.append(cross(a, b, XH[po], XH[pt]))
                if lo:
                    atoms.append(Le(lo, val, when=hyp, scale=DET_MIN, name='separated_by_side[e%d,e%d;line %d-%d of e%d:%d pairs]' % (i, j, ia, ib, owner, len(lo))))
    for p, q, els in direct:
        # no separating functional with a margin is available from the reference tables (does not occur for the unchanged code): ask directly
        atoms.append(Holds(v_or(v_not(v_eq(XH[p][0], XH[q][0])), v_not(v_eq(XH[p][1], XH[q][1]))),
                           when=v_and(*[v_le(DET_MIN, dets[e]) for e in els]), name='distinct_direct[n%d,n%d]' % (p, q)))
    return atoms


def _o3(h, which):
    common(h)
    h.bounds(TOPO_TEXT, 'all vertex coordinates free in [-%g,%g]^2; twice the signed area of every element involved in a query >= %g (area >= 1/100); element pairs that share '
             'at most one vertex: additionally, the line through a side of one of the two triangles has the remaining vertices of the other one on its far side by the same '
             'margin (one query per candidate side; by the separating-axis theorem some side separates two non-overlapping triangles)' % (BOX, BOX, DET_MIN))
    h.assume_note('distinctness is decided per pair of global nodes in the form "(b - a) x (x_p - x_q) >= margin > 0" for a line a-b through two mesh vertices (an affine functional '
                  'that separates the two nodes), batched per element / per shared edge / per candidate separating side; margins are half of the ideal value computed from the real reference tables',
                  'positive area of every element alone does not exclude overlapping non-adjacent elements; for those pairs the separation hypothesis above is part of the claim')
    for E in cases(h, which):
        def spec(i, o, E=E):
            return box(i['X']), o3_atoms(E, i['X'], o)
        E.case.prove('O3[%s]' % E.label, spec, cap=60)


@obligation(P, 'O3a.distinct_nodes_one_and_two_elements', cap=280)
def o3a(h):
    """no two distinct global nodes of the elevated mesh coincide: single triangles and all nine two-triangle meshes"""
    _o3(h, ('tri', 'two'))


@obligation(P, 'O3b.distinct_nodes_fan_and_strip', cap=280)
def o3b(h):
    """no two distinct global nodes of the elevated mesh coincide: closed fan and notched strip (incl. element pairs that share only a vertex or nothing)"""
    _o3(h, ('fan', 'strip'))


# ------------------------------------------------------------------------------------------ O4
@obligation(P, 'O4.connectivity_facts', cap=280)
def o4(h):
    """ground facts on the connectivity the real code produces: in range, every node used, vertex columns = the simplex connectivity, node count, every edge-interior
    node used by exactly the elements adjacent to its edge, every element-interior node used by exactly one element, no node twice in one element"""
    common(h)
    h.bounds(TOPO_TEXT, 'no symbolic input: the connectivity does not depend on the coordinates (ground facts admitted by DESIGN.md section 5 C13-O4)')
    for E in cases(h, case=False):
        conn, ne = E.conn, len(E.conn)
        nE = len(interior_edges(conn)) + len(boundary_sides(conn))
        nint1, nint2 = E.order - 1, len(E.inter)
        flatc = [g for row in E.conns for g in row]
        use = {g: [e for e in range(ne) if g in E.conns[e]] for g in range(E.nn)}
        problems = []
        if not all(0 <= g < E.nn for g in flatc):
            problems.append('out of range')
        if sorted(set(flatc)) != list(range(E.nn)):
            problems.append('unused nodes %s' % sorted(set(range(E.nn)) - set(flatc)))
        if E.nn != E.nv + nE * nint1 + ne * nint2:
            problems.append('node count %d != %d + %d*%d + %d*%d' % (E.nn, E.nv, nE, nint1, ne, nint2))
        if [[E.conns[e][k] for k in E.vert] for e in range(ne)] != [list(c) for c in conn]:
            problems.append('vertex columns differ from the simplex connectivity')
        if E.simplex != list(range(E.nv)):
            problems.append('simplexNodesOrdinals %s' % E.simplex)
        if any(len(set(row)) != len(row) or len(row) != E.npe for row in E.conns):
            problems.append('repeated node in an element')
        if E.npe != 3 * E.order + nint2 or sorted(set(v for f in E.face for v in f) | set(E.inter)) != list(range(E.npe)):
            problems.append('parent element tables do not partition the local nodes')
        # edge-interior nodes: used by the one or two elements adjacent to that edge, nowhere else
        seen = set(range(E.nv))
        for eL, kL, eR, kR in interior_edges(conn):
            for m in E.int1d:
                g = E.conns[eL][E.face[kL][m]]
                seen.add(g)
                if sorted(use[g]) != sorted([eL, eR]) or g < E.nv:
                    problems.append('edge node %d of shared edge (e%d,s%d) used by %s' % (g, eL, kL, use[g]))
        for e, k in boundary_sides(conn):
            for m in E.int1d:
                g = E.conns[e][E.face[k][m]]
                seen.add(g)
                if use[g] != [e] or g < E.nv:
                    problems.append('edge node %d of boundary side (e%d,s%d) used by %s' % (g, e, k, use[g]))
        for e in range(ne):
            for a in E.inter:
                g = E.conns[e][a]
                seen.add(g)
                if use[g] != [e] or g < E.nv:
                    problems.append('interior node %d of e%d used by %s' % (g, e, use[g]))
        if len(seen) != E.nn:
            problems.append('nodes that are neither vertex, edge nor interior nodes: %s' % sorted(set(range(E.nn)) - seen))
        ground(h, 'O4[%s]' % E.label, not problems, '%d nodes, %d elements x %d nodes, %d edges; %s' % (E.nn, ne, E.npe, nE, problems or 'all facts hold'), dict(problems=problems))
