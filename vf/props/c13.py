"""C13 — mesh construction, reading and order elevation keep meshes valid (JX; geometry of order elevation on fixed small topologies).

Only a slice of the property is within reach of solver-based checking (DESIGN.md section 5 / C13):

* the REAL `Mesh.create_higher_order_mesh_from_simplex_mesh` (with the real `create_edges` and `Interpolants.make_parent_element_*`)
  is traced with the vertex COORDINATES as the only symbolic input on fixed small connectivities (single triangle in its three
  cyclic orders, two triangles sharing an edge in all nine combinations of cyclic orders, a closed four-triangle fan, a four-triangle
  strip bent around a boundary notch).  The connectivity the real code produces is concrete (it does not depend on the coordinates);
  the coordinates of all new nodes are terms that are linear in the symbolic vertex coordinates.
* O1..O3 are decided by z3 for ALL vertex coordinates in the box (O3: with every element area >= a_min); O4 are ground facts on the
  concrete connectivity; O5 runs the real Exodus reader (netCDF4 replaced by an in-memory stand-in that hands over SYMBOLIC nodal
  coordinates) and the real VTK writer on geometric 6-node triangles; O6 is the structured generator with symbolic extents and the
  geometric meaning of the `create_edges` tables.

* O8 (PX): the real source of `combine_mesh` / `combine_nodesets` / `combine_sidesets` / `combine_blocks` on meshes whose node and element counts and whose
  node-set / side-set / block entries are symbolic integers (offsets, ranges, member counts, inputs not mutated, merge(a,b) then merge(a,c)).

* O9 (PX): the real source of `ReadExodusMesh.read_exodus_mesh` on in-memory multi-block files with symbolic element counts per block (block partition and
  offsets, 0-based conversion, block maps, node / side sets); replay writes a real netCDF file.

Everything that quantifies over topologies (arbitrary meshes, `create_edges` adjacency on arbitrary connectivity), the JSON reader and the netCDF
library / file format are outside the claim: see OUTSIDE.
"""
import io
import os
import types
import math
import itertools

import numpy as onp
import jax
import jax.numpy as jnp

from ..core import obligation
from ..jxh import Case
from ..sym import Le, Lt, Eq, Holds, v_abs, v_lt, v_le, v_eq, v_sub, v_add, v_mul, v_sum, v_and, v_or, v_not, flat
from .c03 import geom, affine_point, box, pyf, s0, ground, BOX, DET_MIN, EPS

P = 'C13'
TOL_NODE = 4 * EPS * BOX         # |node - affine image|: the code's barycentric weights differ from the reference table's by <= 1.75 ulp (L1), times |x| <= BOX
SC = 1e-3                        # replay/margin scale of tolerance atoms
L_MIN = 0.1                      # structured generator: extents x1 - x0 >= L_MIN, y1 - y0 >= L_MIN

OUTSIDE = ('validity for ARBITRARY topologies (the quantifier of the property is over meshes: unstructured, with holes, any size); only the listed fixed '
           'connectivities are covered, the coordinates are universally quantified',
           'Mesh.create_edges adjacency on arbitrary connectivity (integer bookkeeping behind numpy.sort/unique/where: a solver would have to fork on every '
           'comparison, i.e. enumerate topologies); here its output is a concrete table per fixed topology, checked by ground facts and given its geometric meaning',
           'Mesh.combine_mesh / combine_blocks / combine_nodesets / combine_sidesets: covered by O8 (PX) for symbolic mesh sizes and symbolic set contents with small fixed numbers of '
           'sets and entries per set; larger numbers of sets/entries and degree > 1 meshes are outside',
           'ReadMesh.read_json_mesh: the JSON text format and json.load stay outside; the movement of symbolic node-set / side-set content into construct_mesh_from_basic_data is O10 (PX). ReadExodusMesh.read_exodus_mesh: the netCDF C '
           'library and the file format stay outside; the reader\'s own bookkeeping is covered through in-memory stand-ins for the file: Tri6 node order on symbolic geometry (O5) and '
           'multi-block files with symbolic block sizes, 1-based to 0-based conversion, block offsets, block maps, node and side sets, generated names (O9, PX)',
           'Surface.create_edges (Python-level branching on a user predicate of the coordinates) and create_nodesets_from_sidesets (numpy.unique)',
           'curved higher-order elements (the code places every new node on the straight-sided triangle), rounding error of evaluating the formulas in binary64')


DESIGNED_NOT_REGISTERED = [
    ('O1 as an exact identity (node == v2 + J xi_a without tolerance)',
     'false in exact rational arithmetic: the barycentric weights the code uses for edge nodes (1-s, s from the 1-D table) and interior nodes (N0, N1, 1-N0-N1) differ from the '
     '2-D reference table by up to 1.75 ulp in L1 (measured on all orders); registered with the tolerance 4 ulp * box (3.6e-15), vertex nodes exactly'),
    ('O3 as one query per mesh "no pair of nodes has equal coordinates" (disjunction of equalities) and as per-pair equality queries',
     'monolithic: 31 s (core) / 17 s (nlsat) already for P3 on two elements; per-pair equalities of nodes of two different elements: unknown at 10 s for 9 of 36 pairs; replaced by '
     'the separating-functional form (b - a) x (x_p - x_q) >= margin batched per element / shared edge / candidate separating side, which the smt tactic decides in milliseconds '
     '(the default z3 strategy and nlsat answer unknown on the same formulas as soon as the tables carry rounding residue, i.e. from P3 on)'),
    ('O3 for pairs of elements that share at most a vertex from "every element area >= a_min" alone',
     'not a theorem for open fans/strips (positive areas do not exclude overlap of non-adjacent elements) and, where it is one (closed fan), it needs a global winding argument that '
     'nlsat did not finish (10 reals, unknown at 10 s per pair); registered with the explicit separation hypothesis per candidate side (separating-axis theorem)'),
    ('validity for arbitrary topologies, create_edges on arbitrary connectivity, the JSON reader, the netCDF library / file format behind the Exodus reader',
     'not applicable to solver-based checking (quantifier over topologies/files; integer bookkeeping behind numpy.sort/unique, JSON, netCDF C code): stated in OUTSIDE'),
]


def _mods():
    from optimism import Mesh, Interpolants
    return Mesh, Interpolants


# ------------------------------------------------------------------------------------------ fixed topologies
def rot(t, r):
    return [t[(k + r) % 3] for k in range(3)]


EMB_TRI = [[0., 0.], [1., 0.], [0., 1.]]
EMB_TWO = [[0., 0.], [1., 0.], [1., 1.], [0., 1.]]
EMB_FAN = [[0., 0.], [1., 0.], [0., 1.], [-1., 0.], [0., -1.]]
EMB_STRIP = [[0., 0.], [1., 0.], [2., 0.], [0., 1.], [1., 1.], [0.5, -1.]]


def topologies(which=('tri', 'two', 'fan', 'strip')):
    """(label, base connectivity, example embedding).  The vertex order of every element is counter-clockwise in the example
    embedding; cyclic rotations differ from element to element so that every (left side, right side) combination of a shared edge occurs."""
    out = []
    if 'tri' in which:
        for r in range(3):
            out.append(('tri[r%d]' % r, [rot([0, 1, 2], r)], EMB_TRI))
    if 'two' in which:
        for r in range(3):
            for s in range(3):
                out.append(('two[r%d,s%d]' % (r, s), [rot([0, 1, 2], r), rot([0, 2, 3], s)], EMB_TWO))
    if 'fan' in which:
        # closed fan around the interior vertex 0
        out.append(('fan', [rot([0, 1, 2], 0), rot([0, 2, 3], 1), rot([0, 3, 4], 2), rot([0, 4, 1], 1)], EMB_FAN))
    if 'strip' in which:
        # strip D-A-B-C (dual graph is a path) bent around vertex 1: C and D touch only in vertex 1, the boundary has a notch there
        out.append(('strip_notch', [rot([0, 1, 3], 1), rot([1, 4, 3], 0), rot([1, 2, 4], 2), rot([1, 0, 5], 1)], EMB_STRIP))
    return out


def configs(h):
    """(order, bubble): orders 2, 3 and both with bubble quick (P2b: the only element with interior nodes at order 2 - 7 nodes, one bubble node; P3b: two interior nodes per
    edge AND three non-symmetric interior nodes; P2/P3 are blind to permutations of those); 4, 5 and their bubble elements thorough"""
    q = [(2, False), (3, False), (2, True), (3, True)]
    if h.thorough():
        q += [(4, False), (5, False), (4, True), (5, True)]
    return q


def ename(order, bubble):
    return 'P%d%s' % (order, 'b' if bubble else '')


def emb_sampler(emb):
    """validation inputs only (the elevation is linear in the coordinates): the example embedding, scaled, shifted, perturbed"""
    E = onp.asarray(emb, dtype=float)

    def smp(rng):
        return [rng.uniform(0.5, 1.5) * E + rng.uniform(-1, 1, size=2) + rng.uniform(-0.1, 0.1, size=E.shape)]
    return smp


# ------------------------------------------------------------------------------------------ independent topology oracle
def sides_of(conn):
    """{(a, b): (element, side)} for the directed sides a -> b of all elements"""
    d = {}
    for e, c in enumerate(conn):
        for k in range(3):
            d[(c[k], c[(k + 1) % 3])] = (e, k)
    return d


def interior_edges(conn):
    """[(eL, kL, eR, kR)] each shared edge once: side kL of eL is a -> b, side kR of eR is b -> a"""
    d = sides_of(conn)
    out = []
    for (a, b), (e, k) in sorted(d.items()):
        if (b, a) in d and (e, k) < d[(b, a)]:
            out.append((e, k) + d[(b, a)])
    return out


def boundary_sides(conn):
    d = sides_of(conn)
    return [(e, k) for (a, b), (e, k) in sorted(d.items()) if (b, a) not in d]


# ------------------------------------------------------------------------------------------ geometry helpers (dual: z3 terms and floats)
def cross(a, b, p, q):
    """(b - a) x (p - q)  =  orient(a, b, p) - orient(a, b, q)"""
    return v_sub(v_mul(v_sub(b[0], a[0]), v_sub(p[1], q[1])), v_mul(v_sub(b[1], a[1]), v_sub(p[0], q[0])))


def orient(a, b, w):
    """twice the signed area of (a, b, w)"""
    return cross(a, b, w, a)


def bary(xi):
    return [xi[0], xi[1], 1.0 - xi[0] - xi[1]]


# ------------------------------------------------------------------------------------------ the traced elevation
class Elev:
    """one (topology, order, bubble): concrete run of the real code (connectivity, tables) + Case with symbolic coordinates"""

    def __init__(self, h, label, conn, emb, order, bubble, case=True):
        M, I = _mods()
        self.label = '%s %s' % (label, ename(order, bubble))
        self.conn, self.order, self.bubble = conn, order, bubble
        self.nv = len(emb)
        base = M.construct_mesh_from_basic_data(jnp.asarray(emb), jnp.array(conn), {'block': jnp.arange(len(conn))})
        ho = M.create_higher_order_mesh_from_simplex_mesh(base, order, useBubbleElement=bubble)
        self._tables(ho)
        conns0 = self.conns

        def fn(X):
            with jax.ensure_compile_time_eval():
                m = M.create_higher_order_mesh_from_simplex_mesh(M.mesh_with_coords(base, X), order, useBubbleElement=bubble)
            if isinstance(m.conns, jax.core.Tracer) or [[int(v) for v in row] for row in onp.asarray(m.conns)] != conns0:
                raise RuntimeError('connectivity of the traced run differs from the concrete run')
            return m.coords
        self.fn = fn
        self.emb = emb
        if case:
            self.mk_case(h)

    def _tables(self, ho):
        self.ho = ho
        self.conns = [[int(v) for v in row] for row in onp.asarray(ho.conns)]
        pe, pe1 = ho.parentElement, ho.parentElement1d
        self.pc = pyf(pe.coordinates)
        self.npe = len(self.pc)
        self.vert = [int(v) for v in pe.vertexNodes]
        self.face = [[int(v) for v in row] for row in onp.asarray(pe.faceNodes)]
        self.inter = [int(v) for v in pe.interiorNodes]
        self.s1d = [float(v) for v in onp.asarray(pe1.coordinates)]
        self.int1d = [int(v) for v in pe1.interiorNodes]
        self.nn = int(ho.coords.shape[0])
        self.simplex = [int(v) for v in ho.simplexNodesOrdinals]
        self.in_range = all(0 <= g < self.nn for row in self.conns for g in row) and all(0 <= a < self.npe for f in self.face for a in f)

    def mk_case(self, h):
        self.case = Case(h, self.fn, dict(X=onp.asarray(self.emb, dtype=float)), sampler=emb_sampler(self.emb), label='elevate ' + self.label, validate=2)

    def lam(self, a):
        return bary(self.pc[a])


def cases(h, which=('tri', 'two', 'fan', 'strip'), case=True, cfgs=None, need_range=True):
    for label, conn, emb in topologies(which):
        for order, bubble in (cfgs or configs(h)):
            E = Elev(h, label, conn, emb, order, bubble, case=False)
            if need_range and not E.in_range:
                # (does not occur for the unchanged code) the coordinate goals index the node array with the connectivity
                ground(h, 'connectivity_in_range[%s]' % E.label, False, 'connectivity or face tables out of range: %s / %s' % (E.conns, E.face), dict(conns=E.conns))
                continue
            if case:
                E.mk_case(h)
            yield E


def common(h):
    M, I = _mods()
    h.encoded(M.create_higher_order_mesh_from_simplex_mesh, M.create_edges, M.construct_mesh_from_basic_data, M.mesh_with_coords,
              I.make_parent_element_1d, I.get_lobatto_nodes_1d, I.make_parent_element_2d, I.make_parent_element_2d_with_bubble)
    h.outside(*OUTSIDE)
    h.assume_note('the only symbolic input is the array of vertex coordinates; the connectivity is one of the fixed small tables listed in the bounds and the tables '
                  'produced from it by the real code (create_edges, parent elements, new connectivity) are concrete values of this run (jax.ensure_compile_time_eval)',
                  'the connectivity produced while tracing is compared with the one of a concrete run of the real function (they must be identical)')


TOPO_TEXT = ('fixed connectivities: single triangle (3 cyclic vertex orders), two triangles sharing an edge (all 9 combinations of cyclic orders), closed 4-triangle fan '
             'around an interior vertex, 4-triangle strip bent around a boundary notch (mixed cyclic orders); orders 2, 3, 2+bubble, 3+bubble (thorough: 4, 5, 4+bubble, 5+bubble)')


# ------------------------------------------------------------------------------------------ O1
@obligation(P, 'O1.nodes_are_affine_images', cap=280)
def o1(h):
    """every node a of every element of the elevated mesh sits at v2 + J xi_a (xi_a: the real reference table of the parent element,
    J = [v0 - v2 | v1 - v2] from the element's own three vertices); vertex nodes keep number and position"""
    common(h)
    h.bounds(TOPO_TEXT, 'all vertex coordinates free in [-%g,%g]^2 (no area hypothesis: degenerate and inverted triangles included); tolerance %.3g = 4 ulp * box '
             '(the barycentric weights the code uses differ from the reference table by <= 1.75 ulp)' % (BOX, BOX, TOL_NODE))
    for E in cases(h):
        def spec(i, o, E=E):
            X, XH = i['X'], o
            lhs = []
            for e, c in enumerate(E.conn):
                v, J, det = geom(X, c)
                for a in range(E.npe):
                    p = affine_point(v, J, E.pc[a])
                    g = E.conns[e][a]
                    lhs += [v_abs(v_sub(XH[g][0], p[0])), v_abs(v_sub(XH[g][1], p[1]))]
            return box(X), [Eq([XH[k][d] for k in range(E.nv) for d in range(2)], [X[k][d] for k in range(E.nv) for d in range(2)], name='vertex_nodes_unchanged'),
                            Le(lhs, TOL_NODE, name='nodes_eq_v2_plus_J_xi', scale=SC)]
        E.case.prove('O1[%s]' % E.label, spec, cap=40)


# ------------------------------------------------------------------------------------------ O2
@obligation(P, 'O2.shared_edge_nodes', cap=280)
def o2(h):
    """the nodes along side k of every element (parentElement.faceNodes[k], in that order) sit at the Lobatto points s_m of the real 1-D parent
    element measured from the side's first to its second vertex; on a shared edge both elements list the SAME global nodes, in opposite order
    (ground fact), so the position agrees from both sides (this is what np.flip for the right-hand element provides; visible for order >= 3)"""
    common(h)
    h.bounds(TOPO_TEXT, 'all vertex coordinates free in [-%g,%g]^2; tolerance %.3g' % (BOX, BOX, TOL_NODE))
    for E in cases(h):
        n = E.order + 1
        ok, bad = True, []
        for eL, kL, eR, kR in interior_edges(E.conn):
            left = [E.conns[eL][E.face[kL][m]] for m in range(n)]
            right = [E.conns[eR][E.face[kR][m]] for m in range(n)]
            if left != right[::-1]:
                ok = False
                bad.append((eL, kL, left, eR, kR, right))
        ground(h, 'O2[%s].shared_edges_list_same_nodes_reversed' % E.label, ok and len(E.s1d) == n,
               '%d shared edges, %d nodes per edge; mismatches %s' % (len(interior_edges(E.conn)), n, bad), dict(mismatch=str(bad)))

        def spec(i, o, E=E, n=n):
            X, XH = i['X'], o
            lhs = []
            for e, c in enumerate(E.conn):
                for k in range(3):
                    a, b = X[c[k]], X[c[(k + 1) % 3]]
                    for m in range(n):
                        g = E.conns[e][E.face[k][m]]
                        s = E.s1d[m]
                        for d in range(2):
                            lhs.append(v_abs(v_sub(XH[g][d], v_add(v_mul(1.0 - s, a[d]), v_mul(s, b[d])))))
            return box(X), [Le(lhs, TOL_NODE, name='side_nodes_at_lobatto_points_from_every_element', scale=SC)]
        E.case.prove('O2[%s]' % E.label, spec, cap=40)


# ------------------------------------------------------------------------------------------ O3
def element_sets(E):
    return [set(row) for row in E.conns]


def o3_atoms(E, X, XH):
    """for every pair of distinct global nodes: a line through two mesh vertices (a, b) and a lower bound lo > 0 with (b - a) x (x_p - x_q) >= lo"""
    conn = E.conn
    ne = len(conn)
    sets = element_sets(E)
    dets = [geom(X, c)[2] for c in conn]
    loc = [{g: a for a, g in enumerate(row)} for row in E.conns]          # global -> local per element
    ie = {}
    for eL, kL, eR, kR in interior_edges(conn):
        ie[(eL, eR)] = (kL, kR)
        ie[(eR, eL)] = (kR, kL)
    atoms = []
    same = {e: ([], []) for e in range(ne)}
    adj = {}
    far = {}
    direct = []
    for p, q in itertools.combinations(range(E.nn), 2):
        ep = [e for e in range(ne) if p in sets[e]]
        eq_ = [e for e in range(ne) if q in sets[e]]
        if not ep or not eq_:
            continue                # a node used by no element cannot be located through an element map: reported by O4 (unused node), skipped here
        both = [e for e in ep if e in eq_]
        if both:
            e = both[0]
            c = conn[e]
            lp, lq = E.lam(loc[e][p]), E.lam(loc[e][q])
            k = max(range(3), key=lambda kk: abs(lp[kk] - lq[kk]))
            d = lp[k] - lq[k]
            if abs(d) < 1e-6:
                direct.append((p, q, [e]))
                continue
            a, b = X[c[(k + 1) % 3]], X[c[(k + 2) % 3]]
            val = cross(a, b, XH[p], XH[q]) if d > 0 else cross(a, b, XH[q], XH[p])
            same[e][0].append(0.5 * abs(d) * DET_MIN)
            same[e][1].append(val)
            continue
        pairs = [(i, j) for i in ep for j in eq_ if (i, j) in ie]
        if pairs:
            i, j = pairs[0]
            kL, kR = ie[(i, j)]
            c = conn[i]
            lo = E.lam(loc[i][p])[(kL + 2) % 3] + E.lam(loc[j][q])[(kR + 2) % 3]
            if lo < 1e-6:
                direct.append((p, q, [i, j]))
                continue
            a, b = X[c[kL]], X[c[(kL + 1) % 3]]
            adj.setdefault((i, j), ([], []))
            adj[(i, j)][0].append(0.5 * lo * DET_MIN)
            adj[(i, j)][1].append(cross(a, b, XH[p], XH[q]))
            continue
        i, j = ep[0], eq_[0]
        far.setdefault((min(i, j), max(i, j)), []).append((p, q) if i < j else (q, p))      # (node of e_i, node of e_j) with i < j
    for e in range(ne):
        if same[e][0]:
            atoms.append(Le(same[e][0], same[e][1], when=v_le(DET_MIN, dets[e]), scale=DET_MIN, name='same_element[e%d:%d pairs]' % (e, len(same[e][0]))))
    for (i, j), (lo, val) in sorted(adj.items()):
        atoms.append(Le(lo, val, when=v_and(v_le(DET_MIN, dets[i]), v_le(DET_MIN, dets[j])), scale=DET_MIN,
                        name='across_shared_edge[e%d|e%d:%d pairs]' % (i, j, len(lo))))
    for (i, j), prs in sorted(far.items()):
        # candidate separating lines: the three sides of e_i (p side non-negative), the three sides of e_j (q side non-negative)
        shared = [w for w in conn[i] if w in conn[j]]
        covered = set()
        for owner, other, flip in ((i, j, False), (j, i, True)):
            c = conn[owner]
            for k in range(3):
                ia, ib = c[k], c[(k + 1) % 3]
                if any(w not in (ia, ib) for w in shared):
                    continue        # a shared vertex off the line lies strictly on the owner's side: this side cannot separate the two triangles
                a, b = X[ia], X[ib]
                rest = [w for w in conn[other] if w not in (ia, ib)]
                hyp = v_and(v_le(DET_MIN, dets[owner]), *[v_le(orient(a, b, X[w]), -DET_MIN) for w in rest])
                lo, val = [], []
                for p, q in prs:
                    po, pt = (q, p) if flip else (p, q)          # po: node of the owner of the line, pt: node of the other element
                    l_own = E.lam(loc[owner][po])[(k + 2) % 3]
                    lt = E.lam(loc[other][pt])
                    l_oth = sum(lt[m] for m in range(3) if conn[other][m] in rest)
                    if l_own + l_oth < 1e-6:
                        continue
                    lo.append(0.5 * (l_own + l_oth) * DET_MIN)
                    val.append(cross(a, b, XH[po], XH[pt]))
                    covered.add((p, q))
                if lo:
                    atoms.append(Le(lo, val, when=hyp, scale=DET_MIN, name='separated_by_side[e%d,e%d;line %d-%d of e%d:%d pairs]' % (i, j, ia, ib, owner, len(lo))))
        direct += [(p, q, [i, j]) for p, q in prs if (p, q) not in covered]
    for p, q, els in direct:
        # no separating functional with a margin is available from the reference tables (does not occur for the unchanged code): ask directly
        atoms.append(Holds(v_or(v_not(v_eq(XH[p][0], XH[q][0])), v_not(v_eq(XH[p][1], XH[q][1]))),
                           when=v_and(*[v_le(DET_MIN, dets[e]) for e in els]), name='distinct_direct[n%d,n%d]' % (p, q)))
    return atoms


def _o3(h, which):
    common(h)
    h.bounds(TOPO_TEXT, 'all vertex coordinates free in [-%g,%g]^2; twice the signed area of every element involved in a query >= %g (area >= 1/100); element pairs that share '
             'at most one vertex: additionally, the line through a side of one of the two triangles has the remaining vertices of the other one on its far side by the same '
             'margin (one query per candidate side; by the separating-axis theorem some side separates two non-overlapping triangles)' % (BOX, BOX, DET_MIN))
    h.assume_note('distinctness is decided per pair of global nodes in the form "(b - a) x (x_p - x_q) >= margin > 0" for a line a-b through two mesh vertices (an affine functional '
                  'that separates the two nodes), batched per element / per shared edge / per candidate separating side; margins are half of the ideal value computed from the real reference tables',
                  'positive area of every element alone does not exclude overlapping non-adjacent elements; for those pairs the separation hypothesis above is part of the claim')
    for E in cases(h, which):
        def spec(i, o, E=E):
            return box(i['X']), o3_atoms(E, i['X'], o)
        E.case.prove('O3[%s]' % E.label, spec, cap=60, order=('smt', 'nlsat'))


@obligation(P, 'O3a.distinct_nodes_one_and_two_elements', cap=280)
def o3a(h):
    """no two distinct global nodes of the elevated mesh coincide: single triangles and all nine two-triangle meshes"""
    _o3(h, ('tri', 'two'))


@obligation(P, 'O3b.distinct_nodes_fan_and_strip', cap=280)
def o3b(h):
    """no two distinct global nodes of the elevated mesh coincide: closed fan and notched strip (incl. element pairs that share only a vertex or nothing)"""
    _o3(h, ('fan', 'strip'))


def connectivity_facts(h, name, E):
    """ground facts on the concrete connectivity of one elevated mesh (E: Elev-like)"""
    if True:
        conn, ne = E.conn, len(E.conn)
        nE = len(interior_edges(conn)) + len(boundary_sides(conn))
        nint1, nint2 = E.order - 1, len(E.inter)
        flatc = [g for row in E.conns for g in row]
        use = {g: [e for e in range(ne) if g in E.conns[e]] for g in set(range(E.nn)) | set(flatc)}
        problems = []
        if not E.in_range:
            ground(h, name, False, 'connectivity or face tables out of range: %s / %s' % (E.conns, E.face), dict(conns=E.conns))
            return
        if sorted(set(flatc)) != list(range(E.nn)):
            problems.append('unused nodes %s' % sorted(set(range(E.nn)) - set(flatc)))
        if E.nn != E.nv + nE * nint1 + ne * nint2:
            problems.append('node count %d != %d + %d*%d + %d*%d' % (E.nn, E.nv, nE, nint1, ne, nint2))
        if [[E.conns[e][k] for k in E.vert] for e in range(ne)] != [list(c) for c in conn]:
            problems.append('vertex columns differ from the simplex connectivity')
        if E.simplex != list(range(E.nv)):
            problems.append('simplexNodesOrdinals %s' % E.simplex)
        if any(len(set(row)) != len(row) or len(row) != E.npe for row in E.conns):
            problems.append('repeated node in an element')
        if E.npe != 3 * E.order + nint2 or sorted(set(v for f in E.face for v in f) | set(E.inter)) != list(range(E.npe)):
            problems.append('parent element tables do not partition the local nodes')
        # edge-interior nodes: used by the one or two elements adjacent to that edge, nowhere else
        seen = set(range(E.nv))
        for eL, kL, eR, kR in interior_edges(conn):
            for m in E.int1d:
                g = E.conns[eL][E.face[kL][m]]
                seen.add(g)
                if sorted(use[g]) != sorted([eL, eR]) or g < E.nv:
                    problems.append('edge node %d of shared edge (e%d,s%d) used by %s' % (g, eL, kL, use[g]))
        for e, k in boundary_sides(conn):
            for m in E.int1d:
                g = E.conns[e][E.face[k][m]]
                seen.add(g)
                if use[g] != [e] or g < E.nv:
                    problems.append('edge node %d of boundary side (e%d,s%d) used by %s' % (g, e, k, use[g]))
        for e in range(ne):
            for a in E.inter:
                g = E.conns[e][a]
                seen.add(g)
                if use[g] != [e] or g < E.nv:
                    problems.append('interior node %d of e%d used by %s' % (g, e, use[g]))
        if len(seen) != E.nn:
            problems.append('nodes that are neither vertex, edge nor interior nodes: %s' % sorted(set(range(E.nn)) - seen))
        ground(h, name, not problems, '%d nodes, %d elements x %d nodes, %d edges; %s' % (E.nn, ne, E.npe, nE, problems or 'all facts hold'), dict(problems=problems))




# ------------------------------------------------------------------------------------------ O4
@obligation(P, 'O4.connectivity_facts', cap=280)
def o4(h):
    """ground facts on the connectivity the real code produces: in range, every node used, vertex columns = the simplex connectivity, node count, every edge-interior
    node used by exactly the elements adjacent to its edge, every element-interior node used by exactly one element, no node twice in one element"""
    common(h)
    h.bounds(TOPO_TEXT, 'no symbolic input: the connectivity does not depend on the coordinates (ground facts admitted by DESIGN.md section 5 C13-O4)')
    for E in cases(h, case=False, need_range=False):
        connectivity_facts(h, 'O4[%s]' % E.label, E)


# ------------------------------------------------------------------------------------------ O5
EXO_QUAD = [[0., 0.], [1., 0.], [1., 1.], [0., 1.]]
EXO_CORNERS = [[1, 2, 0], [3, 0, 2]]                     # two counter-clockwise triangles of the quadrilateral 0-1-2-3, different cyclic orders
EXO_IDS = [[7, 1, 4, 8, 0, 5], [2, 4, 1, 6, 0, 3]]       # (corners V0..V3 are nodes 4, 7, 1, 2; node 0 is the shared mid-side node) scrambled global (0-based) ids in the EXODUS order: 3 corners, then mid-sides 1-2, 2-3, 3-1 of the element
EXO_NOTE = ('Exodus II convention for TRI6 (Exodus II manual, element node ordering; the repository contains no comment on it): local nodes 1-3 are the corners in '
            'counter-clockwise order, node 4 lies on side 1-2, node 5 on side 2-3, node 6 on side 3-1; the in-memory file follows it, with every mid-side node at the '
            'mid-point of its side (a geometric Tri6)')


class _Rec:
    """stand-in for a netCDF4 variable"""

    def __init__(self, data, **attrs):
        self._data = data
        self.__dict__.update(attrs)

    def set_auto_mask(self, flag):
        pass

    def __getitem__(self, idx):
        return self._data if not isinstance(self._data, onp.ndarray) else self._data[idx]


class _Masked:
    def __init__(self, a):
        self._a = a

    def filled(self):
        return self._a


class _FakeExodus:
    """stand-in for netCDF4.Dataset holding one TRI6 block; the nodal coordinates may be tracers"""

    def __init__(self, x, y, conn1, elem_type='TRI6'):
        nel, npe = onp.asarray(conn1).shape
        self.dimensions = {'num_nodes': range(int(x.shape[0])), 'num_dim': range(2), 'num_nod_per_el1': range(npe), 'num_el_blk': range(1), 'num_el_in_blk1': range(nel)}
        self.variables = {'coordx': _Rec(_Masked(x)), 'coordy': _Rec(_Masked(y)), 'eb_names': _Rec([[b'']]),
                          'connect1': _Rec(onp.asarray(conn1, dtype=onp.int64), elem_type=elem_type)}

    def __getitem__(self, k):
        return self.variables[k]

    def __enter__(self):
        return self

    def __exit__(self, *a):
        return False


def exo_nodes(V):
    """coordinates of the 9 nodes of the two geometric Tri6 elements from the 4 corner coordinates V (jnp or numpy), in the scrambled global numbering"""
    rows = [None] * 9
    for corners, ids in zip(EXO_CORNERS, EXO_IDS):
        c = [V[k] for k in corners]
        pts = c + [0.5 * (c[0] + c[1]), 0.5 * (c[1] + c[2]), 0.5 * (c[2] + c[0])]
        for g, pnt in zip(ids, pts):
            rows[g] = pnt
    return rows


def read_fake_exodus(V):
    """the REAL ReadExodusMesh.read_exodus_mesh on the in-memory file"""
    from optimism import ReadExodusMesh as R
    rows = exo_nodes(V)
    X = jnp.stack(rows)
    fake = _FakeExodus(X[:, 0], X[:, 1], onp.asarray(EXO_IDS) + 1)
    saved = R.netCDF4.Dataset
    R.netCDF4.Dataset = lambda fileName: fake
    try:
        return R.read_exodus_mesh('in-memory TRI6 file')
    finally:
        R.netCDF4.Dataset = saved


def vtk_cells(mesh):
    """cell rows and cell types as the REAL VTKWriter writes them (text parsed back)"""
    from optimism import VTKWriter as W
    w = W.VTKWriter(mesh, baseFileName='/tmp/c13_not_written')
    buf = io.StringIO()
    w._write_cell_connectivity(buf)
    lines = [l for l in buf.getvalue().splitlines() if l.strip()]
    head = lines[0].split()
    rows = [[int(float(t)) for t in l.split()] for l in lines[1:]]
    buf = io.StringIO()
    w._write_cell_types(buf)
    tl = [l for l in buf.getvalue().splitlines() if l.strip()]
    types = [int(float(l)) for l in tl[1:]]
    return head, rows, types, [int(v) for v in onp.asarray(w.outputNodes)]


def vtk_quadratic_atoms(P, rows, corners_xy, tag):
    """P: point coordinates by VTK point index; VTK_QUADRATIC_TRIANGLE (type 22): 3 corners, then mid-sides 0-1, 1-2, 2-0"""
    eqL, eqR, mids = [], [], []
    for r, cxy in zip(rows, corners_xy):
        ids = r[1:]
        for k in range(3):
            for d in range(2):
                eqL.append(P[ids[k]][d])
                eqR.append(cxy[k][d])
                a, b = P[ids[k]], P[ids[(k + 1) % 3]]
                mids.append(v_abs(v_sub(P[ids[3 + k]][d], v_mul(0.5, v_add(a[d], b[d])))))
    return [Eq(eqL, eqR, name='vtk_corners_are_the_element_vertices_in_order' + tag),
            Le(mids, TOL_NODE, name='vtk_nodes_3_4_5_are_midsides_01_12_20' + tag, scale=SC)]


@obligation(P, 'O5.tri6_exodus_and_vtk_node_order', cap=280)
def o5(h):
    """the real Exodus reader applied to a geometric Tri6 file (mid-side nodes at the side mid-points of SYMBOLIC triangles, Exodus node order) yields the native
    layout: native node k of every element sits at v2 + J xi_k of the real degree-2 parent element; the real VTK writer turns native quadratic connectivity (from the
    reader and from the real order elevation) into VTK quadratic-triangle order (corners, then mid-sides 01, 12, 20) and writes the vertex triangle for other degrees"""
    M, I = _mods()
    from optimism import ReadExodusMesh as R, VTKWriter as W
    common(h)
    h.encoded(R.read_exodus_mesh, R._read_blocks, R._read_block_conns, R._read_coordinates, R._get_vertex_nodes_from_exodus_tri6_mesh, 'optimism.ReadExodusMesh.exodusToNativeTri6NodeOrder',
              W.VTKWriter.__init__, W.VTKWriter._write_cell_connectivity, W.VTKWriter._write_cell_types)
    h.bounds('Exodus: two Tri6 elements sharing a side, 9 nodes with a scrambled numbering, the 4 corner coordinates free in [-%g,%g]^2 (no area hypothesis); VTK: that mesh, and the '
             'elevated meshes two[r,s] (all nine), fan, strip_notch at P2 (quadratic cells) and P3 (thorough: P2b, P4; linear cells); tolerance %.3g' % (BOX, BOX, TOL_NODE))
    h.assume_note(EXO_NOTE, 'netCDF4.Dataset is replaced by an in-memory stand-in with the dimensions/variables the reader asks for (one unnamed TRI6 block, no sets, no element map); '
                  'the netCDF C library and the file format are outside the claim', 'the VTK writer is run on a text buffer and the CELLS / CELL_TYPES records are parsed back; '
                  'point i of the file is mesh.coords[outputNodes[i]] (the writer\'s own attribute; the POINTS record itself fills a NumPy array and is not traced)')
    # ---- Exodus reader
    m0 = read_fake_exodus(jnp.asarray(EXO_QUAD))
    conns0 = [[int(v) for v in row] for row in onp.asarray(m0.conns)]
    pe = m0.parentElement
    pc = pyf(pe.coordinates)
    vert = [int(v) for v in pe.vertexNodes]
    okc = [[conns0[e][k] for k in vert] for e in range(2)] == [ids[:3] for ids in EXO_IDS]
    ground(h, 'exodus.native_vertex_nodes_are_the_file_corners', okc and int(pe.degree) == 2 and len(pc) == 6, 'native conns %s, vertexNodes %s, file (0-based, Exodus order) %s' % (conns0, vert, EXO_IDS))
    simplex = sorted(int(v) for v in onp.asarray(m0.simplexNodesOrdinals))
    ground(h, 'exodus.simplexNodesOrdinals_are_the_corner_nodes', simplex == sorted(set(i for ids in EXO_IDS for i in ids[:3])), 'simplexNodesOrdinals %s' % simplex)
    ground(h, 'exodus.connectivity_in_range_all_nodes_used', sorted(set(g for row in conns0 for g in row)) == list(range(9)) and all(len(set(r)) == 6 for r in conns0), str(conns0))
    exo_in_range = all(0 <= g < 9 for row in conns0 for g in row)
    head, rows, types, outn = vtk_cells(m0)
    exo_in_range = exo_in_range and all(0 <= g < len(outn) for r in rows for g in r[1:]) and all(len(r) == 7 for r in rows)
    ground(h, 'exodus.vtk_cells_reproduce_the_file_order', [r[1:] for r in rows] == EXO_IDS and all(r[0] == 6 for r in rows) and types == [22, 22] and outn == list(range(9))
           and head[:2] == ['CELLS', '2'] and int(head[2]) == 14, 'VTK quadratic-triangle order equals the Exodus TRI6 order: written rows %s types %s header %s' % (rows, types, head))

    def fn(V):
        with jax.ensure_compile_time_eval():
            m = read_fake_exodus(V)
        if isinstance(m.conns, jax.core.Tracer) or [[int(v) for v in row] for row in onp.asarray(m.conns)] != conns0:
            raise RuntimeError('connectivity of the traced run differs from the concrete run')
        return m.coords
    c = Case(h, fn, dict(V=onp.asarray(EXO_QUAD)), sampler=emb_sampler(EXO_QUAD), label='read_exodus_mesh(in-memory TRI6)', validate=2)

    def spec(i, o):
        V, XN = i['V'], o
        lhs = []
        for e, corners in enumerate(EXO_CORNERS):
            v, J, det = geom(V, corners)
            for k in range(6):
                p = affine_point(v, J, pc[k])
                g = conns0[e][k]
                lhs += [v_abs(v_sub(XN[g][0], p[0])), v_abs(v_sub(XN[g][1], p[1]))]
        return box(V), [Le(lhs, TOL_NODE, name='native_node_k_at_affine_image_of_reference_node_k', scale=SC)] + \
            vtk_quadratic_atoms(XN, rows, [[V[k] for k in corners] for corners in EXO_CORNERS], '')
    if exo_in_range:        # (out-of-range connectivity is reported by the ground facts above; the coordinate goals index the node array with it)
        c.prove('exodus_tri6', spec, cap=40)

    # ---- VTK writer on meshes elevated by the real code
    cfgs = [(2, False), (3, False)] + ([(2, True), (4, False)] if h.thorough() else [])
    for E in cases(h, ('two', 'fan', 'strip'), cfgs=cfgs):
        head, rows, types, outn = vtk_cells(E.ho)
        ne = len(E.conn)
        quad = E.order == 2          # P2 with bubble is written as a quadratic triangle too (its first six nodes are the P2 nodes; the bubble node is an unused point)
        if quad:
            okg = all(r[0] == 6 and len(r) == 7 for r in rows) and types == [22] * ne and outn == list(range(E.nn))
        else:
            okg = all(r[0] == 3 and len(r) == 4 for r in rows) and types == [5] * ne and outn == list(range(E.nv))
        okg = okg and len(rows) == ne and head[:2] == ['CELLS', str(ne)] and int(head[2]) == sum(len(r) for r in rows) and all(0 <= g < len(outn) for r in rows for g in r[1:])
        ground(h, 'vtk[%s].records' % E.label, okg, 'CELLS header %s, rows %s, cell types %s, %d output nodes' % (head, rows[:2], types, len(outn)))
        if not okg:
            continue

        def specv(i, o, E=E, rows=rows, outn=outn, quad=quad):
            X, XH = i['X'], o
            Pts = [XH[g] for g in outn]
            cxy = [[X[k] for k in c] for c in E.conn]
            if quad:
                return box(X), vtk_quadratic_atoms(Pts, rows, cxy, '')
            l, r = [], []
            for row, cc in zip(rows, cxy):
                for k in range(3):
                    for d in range(2):
                        l.append(Pts[row[1 + k]][d])
                        r.append(cc[k][d])
            return box(X), [Eq(l, r, name='vtk_linear_cells_are_the_vertex_triangles_in_order')]
        E.case.prove('vtk[%s]' % E.label, specv, cap=40)


# ------------------------------------------------------------------------------------------ O6
def structured_sizes(h):
    return [(2, 2), (3, 2), (2, 3), (3, 3)] + ([(4, 3), (3, 4), (5, 2), (4, 4)] if h.thorough() else [])


def edge_table_facts(conn, edgeConns, edges):
    """ground comparison of the real create_edges tables with the independent side oracle"""
    d = sides_of(conn)
    problems = []
    seen = set()
    for row, (a, b) in zip(edges, edgeConns):
        lT, lP, rT, rP = row
        if d.get((a, b)) != (lT, lP):
            problems.append('row %s: (%d,%d) is not side %d of element %d' % (row, a, b, lP, lT))
        seen.add((a, b))
        if (b, a) in d:
            if d[(b, a)] != (rT, rP):
                problems.append('row %s: right element/side should be %s' % (row, d[(b, a)]))
            seen.add((b, a))
        elif (rT, rP) != (-1, -1):
            problems.append('row %s: boundary edge with right data' % (row,))
    if seen != set(d) or len(edges) != len(interior_edges(conn)) + len(boundary_sides(conn)):
        problems.append('sides not listed exactly once: missing %s' % sorted(set(d) - seen))
    return problems


@obligation(P, 'O6.structured_mesh', cap=280)
def o6(h):
    """Mesh.construct_structured_mesh with SYMBOLIC extents: nodes on the regular grid, every element counter-clockwise with area Lx Ly / (2 Ex Ey) > 0; the real create_edges
    on its connectivity: tables agree with an independent side oracle (ground), the left element lies to the left and the right element to the right of every edge, every
    mesh node lies weakly to the left of every boundary edge (boundary edges counter-clockwise, normal (t_y, -t_x) outward)"""
    M, I = _mods()
    common(h)
    h.encoded(M.construct_structured_mesh, M.create_structured_mesh_data)
    TOLG = 16 * EPS * BOX
    TOLA = 64 * EPS * BOX * BOX
    h.bounds('grids Nx x Ny in %s (thorough: up to 4 x 4, 5 x 2); extents x0, x1, y0, y1 free in [-%g,%g] with x1 - x0 >= %g, y1 - y0 >= %g; tolerances %.3g (nodes), %.3g (areas)'
             % (structured_sizes(h)[:4], BOX, BOX, L_MIN, L_MIN, TOLG, TOLA))
    for Nx, Ny in structured_sizes(h):
        m0 = M.construct_structured_mesh(Nx, Ny, [0., 1.], [0., 1.])
        conn = [[int(v) for v in row] for row in onp.asarray(m0.conns)]
        ec, ed = M.create_edges(m0.conns)
        edgeConns = [[int(v) for v in row] for row in onp.asarray(ec)]
        edges = [[int(v) for v in row] for row in onp.asarray(ed)]
        Ex, Ey = Nx - 1, Ny - 1
        lab = '%dx%d' % (Nx, Ny)
        probs = edge_table_facts(conn, edgeConns, edges)
        nb = sum(1 for r in edges if r[2] < 0)
        if nb != 2 * (Ex + Ey) or len(edges) != 3 * Ex * Ey + Ex + Ey or len(conn) != 2 * Ex * Ey:
            probs.append('counts: %d elements, %d edges, %d boundary edges' % (len(conn), len(edges), nb))
        if sorted(set(g for c in conn for g in c)) != list(range(Nx * Ny)):
            probs.append('connectivity does not use exactly the grid nodes')
        ground(h, 'structured[%s].edge_tables_and_counts' % lab, not probs, '%d elements, %d edges (%d boundary); %s' % (len(conn), len(edges), nb, probs or 'tables agree with the side oracle'), dict(problems=probs))
        tables_ok = not probs
        if not all(0 <= g < Nx * Ny for c in conn for g in c):
            continue            # reported by the ground fact above; the coordinate goals index the node array with the connectivity

        def fn(ext, Nx=Nx, Ny=Ny, conn=conn):
            with jax.ensure_compile_time_eval():
                m = M.construct_structured_mesh(Nx, Ny, [ext[0], ext[1]], [ext[2], ext[3]])
            if isinstance(m.conns, jax.core.Tracer) or [[int(v) for v in row] for row in onp.asarray(m.conns)] != conn:
                raise RuntimeError('connectivity of the traced run differs from the concrete run')
            return m.coords

        def smp(rng):
            x0, y0 = rng.uniform(-2, 1, size=2)
            return [onp.array([x0, x0 + rng.uniform(0.3, 2), y0, y0 + rng.uniform(0.3, 2)])]
        c = Case(h, fn, dict(ext=onp.array([0., 1., 0., 1.])), sampler=smp, label='construct_structured_mesh %s' % lab, validate=2)

        def spec(i, o, Nx=Nx, Ny=Ny, conn=conn, edgeConns=edgeConns, edges=edges, tables_ok=tables_ok):
            ext, XS = i['ext'], o
            x0, x1, y0, y1 = [ext[k] for k in range(4)]
            Lx, Ly = v_sub(x1, x0), v_sub(y1, y0)
            Ex, Ey = Nx - 1, Ny - 1
            asm = box(ext) + [v_le(L_MIN, Lx), v_le(L_MIN, Ly)]
            grid = []
            for ny in range(Ny):
                for nx in range(Nx):
                    g = ny * Nx + nx
                    grid += [v_abs(v_sub(v_mul(float(Ex), v_sub(XS[g][0], x0)), v_mul(float(nx), Lx))), v_abs(v_sub(v_mul(float(Ey), v_sub(XS[g][1], y0)), v_mul(float(ny), Ly)))]
            dets = [geom(XS, cc)[2] for cc in conn]
            area = [v_abs(v_sub(v_mul(float(Ex * Ey), d), v_mul(Lx, Ly))) for d in dets]
            left_eq_l, left_eq_r, hull = [], [], []
            for (a, b), (lT, lP, rT, rP) in (zip(edgeConns, edges) if tables_ok else ()):
                wl = conn[lT][(lP + 2) % 3]
                left_eq_l.append(orient(XS[a], XS[b], XS[wl]))
                left_eq_r.append(dets[lT])
                if rT >= 0:
                    wr = conn[rT][(rP + 2) % 3]
                    left_eq_l.append(orient(XS[a], XS[b], XS[wr]))
                    left_eq_r.append(v_sub(0.0, dets[rT]))
                else:
                    hull += [orient(XS[a], XS[b], XS[z]) for z in range(Nx * Ny)]
            atoms = [Le(grid, TOLG * max(Ex, Ey), name='nodes_on_the_regular_grid', scale=SC),
                     Le(area, TOLA * Ex * Ey, name='element_area_is_LxLy_over_2ExEy', scale=SC),
                     Le(0.99 * L_MIN * L_MIN / (Ex * Ey), dets, name='elements_counter_clockwise_positive_area', scale=SC)]
            if tables_ok:       # (tables that already fail the ground comparison are reported there)
                atoms += [Eq(left_eq_l, left_eq_r, name='left_element_left_of_edge_right_element_right', scale=SC),
                          Le(-TOLA, hull, name='all_nodes_weakly_left_of_every_boundary_edge', scale=SC)]
            return asm, atoms
        c.prove('structured[%s]' % lab, spec, cap=60, order=('smt', 'nlsat'))


# ------------------------------------------------------------------------------------------ O7
@obligation(P, 'O7.edge_tables_geometry', cap=280)
def o7(h):
    """the real create_edges tables on the fixed topologies, read through the real Mesh.get_edge_coords on the elevated mesh: (ground) every directed side listed exactly once
    with the right element/side numbers; (symbolic coordinates) the edge nodes of the left element run from edgeConns[i][0] to edgeConns[i][1] through the Lobatto points, the
    right element returns the same points in reverse order, the left element's third vertex is to the left and the right element's to the right by exactly their signed areas"""
    M, I = _mods()
    common(h)
    h.encoded(M.get_edge_coords, M.get_edge_field, M.get_edge_node_indices)
    h.bounds(TOPO_TEXT.replace('orders 2, 3, 2+bubble, 3+bubble (thorough: 4, 5, 4+bubble, 5+bubble)', 'orders 2, 3 (thorough: 3b, 5)'), 'all vertex coordinates free in [-%g,%g]^2; tolerance %.3g' % (BOX, BOX, TOL_NODE))
    cfgs = [(2, False), (3, False)] + ([(3, True), (5, False)] if h.thorough() else [])
    for E in cases(h, case=False, cfgs=cfgs):
        ec, ed = M.create_edges(jnp.array(E.conn))
        edgeConns = [[int(v) for v in row] for row in onp.asarray(ec)]
        edges = [[int(v) for v in row] for row in onp.asarray(ed)]
        probs = edge_table_facts(E.conn, edgeConns, edges)
        ground(h, 'O7[%s].edge_tables' % E.label, not probs, '%d edges; %s' % (len(edges), probs or 'tables agree with the side oracle'), dict(problems=probs))
        if probs:
            continue
        n = E.order + 1

        def fn(X, E=E, edges=edges):
            m = M.mesh_with_coords(E.ho, E.fn(X))
            out = []
            for lT, lP, rT, rP in edges:
                out.append(M.get_edge_coords(m, jnp.array([lT, lP])))
                if rT >= 0:
                    out.append(M.get_edge_coords(m, jnp.array([rT, rP])))
            return out
        emb = onp.asarray(E.ho.coords)[:E.nv]
        c = Case(h, fn, dict(X=emb), sampler=emb_sampler(emb), label='create_edges + get_edge_coords ' + E.label, validate=2)

        def spec(i, o, E=E, edges=edges, edgeConns=edgeConns, n=n):
            X = i['X']
            dets = [geom(X, cc)[2] for cc in E.conn]
            lob, rev_l, rev_r, ol, orr = [], [], [], [], []
            it = iter(o)
            for (a, b), (lT, lP, rT, rP) in zip(edgeConns, edges):
                eL = next(it)
                for m in range(n):
                    s = E.s1d[m]
                    for d in range(2):
                        lob.append(v_abs(v_sub(eL[m, d], v_add(v_mul(1.0 - s, X[a][d]), v_mul(s, X[b][d])))))
                ol.append(orient(X[a], X[b], X[E.conn[lT][(lP + 2) % 3]]))
                orr.append(dets[lT])
                if rT >= 0:
                    eR = next(it)
                    for m in range(n):
                        for d in range(2):
                            rev_l.append(eR[m, d])
                            rev_r.append(eL[n - 1 - m, d])
                    ol.append(orient(X[a], X[b], X[E.conn[rT][(rP + 2) % 3]]))
                    orr.append(v_sub(0.0, dets[rT]))
            atoms = [Le(lob, TOL_NODE, name='left_edge_nodes_run_from_edgeConns0_to_edgeConns1_through_lobatto_points', scale=SC),
                     Eq(ol, orr, name='left_element_left_right_element_right_by_their_signed_areas', scale=SC)]
            if rev_l:
                atoms.append(Eq(rev_l, rev_r, name='right_element_returns_the_same_points_reversed'))
            return box(X), atoms
        c.prove('O7[%s]' % E.label, spec, cap=40, order=('smt', 'nlsat'))


# ------------------------------------------------------------------------------------------ O8: merging (PX on the real source)
# The REAL source of Mesh.combine_mesh / combine_nodesets / combine_sidesets / combine_blocks is executed (px.load_module) on two (three) meshes whose
# node counts n and element counts e are SYMBOLIC integers and whose node-set / side-set / block entries are symbolic integers in range of their own mesh.
# * sets are real Python dicts name -> `SArr` (tiny arrays of fixed length with symbolic entries, functional `.at[...]` updates like jax arrays);
# * coords / conns / disp are `Rows`: arrays known through their (symbolic) row count and ONE generic row at a symbolic index; `+ scalar` and
#   `np.concatenate(..., axis=0)` are the only operations the merge code applies to them;
# * replay: the same harness builds real jax arrays of the model's sizes and values and calls the real `optimism.Mesh` functions.
N_MAX = 100000          # sizes 1 <= n, e <= N_MAX (keeps replay arrays small; the arithmetic is linear, the bound is immaterial to the proofs)


class SArr:
    """tiny array (1-D or 2-D, fixed extent) with symbolic integer entries; immutable like a jax array"""

    def __init__(self, a):
        self.a = a if isinstance(a, onp.ndarray) and a.dtype == object else onp.array(a, dtype=object)

    @property
    def shape(self):
        return self.a.shape

    def __len__(self):
        return self.a.shape[0]

    @property
    def size(self):
        return int(self.a.size)

    @property
    def ndim(self):
        return self.a.ndim

    @property
    def dtype(self):
        return onp.dtype('int64')

    def ravel(self):
        return SArr(self.a.reshape(-1))

    def _ew(self, o):
        out = onp.empty(self.a.shape, dtype=object)
        of, xf = out.reshape(-1), self.a.reshape(-1)
        for i in range(xf.size):
            of[i] = xf[i] + o
        return SArr(out)

    def __add__(self, o):
        return self._ew(o)
    __radd__ = __add__

    @property
    def at(self):
        return _At(self)


class _At:
    def __init__(self, arr, key=None):
        self.arr, self.key = arr, key

    def __getitem__(self, key):
        return _At(self.arr, key)

    def add(self, v):
        b = self.arr.a.copy()
        sub = b[self.key]
        if isinstance(sub, onp.ndarray):
            new = onp.empty(sub.shape, dtype=object)
            for idx in onp.ndindex(*sub.shape):
                new[idx] = sub[idx] + v
            b[self.key] = new
        else:
            b[self.key] = sub + v
        return SArr(b)


class Rows:
    """array with a symbolic number of rows, known through its shape and one generic row"""

    def __init__(self, kind, n, tail, **kw):
        self.kind, self.n, self.tail = kind, n, tuple(tail)
        self.__dict__.update(kw)

    @property
    def shape(self):
        return (self.n,) + self.tail

    def __add__(self, off):
        return Rows('add', self.n, self.tail, child=self, off=off)
    __radd__ = __add__

    def row(self, idx):
        from .. import px
        if self.kind == 'base':
            import z3
            d = z3.simplify(px._z(idx) - px._z(self.gi))
            if not (z3.is_int_value(d) and d.as_long() == 0) and not (z3.is_rational_value(d) and d.numerator_as_long() == 0):
                raise px.Unsupported('row %s of a placeholder array is not its generic row %s' % (idx, self.gi))
            return list(self.w)
        if self.kind == 'add':
            return [x + self.off for x in self.child.row(idx)]
        if self.kind == 'arange':
            return [idx]
        if self.kind == 'cat':
            off = 0
            for k, part in enumerate(self.parts):
                if k == len(self.parts) - 1 or bool(idx - off < part.n):
                    return part.row(idx - off)
                off = off + part.n
        raise px.Unsupported(self.kind)


class MergeNP:
    """the two numpy functions the merge code applies to placeholder arrays"""

    def concatenate(self, arrs, axis=0):
        from .. import px
        arrs = list(arrs)
        if axis != 0 or not all(isinstance(a, Rows) for a in arrs) or len({a.tail for a in arrs}) != 1:
            raise px.Unsupported('concatenate of %s along axis %s' % ([type(a).__name__ for a in arrs], axis))
        n = arrs[0].n
        for a in arrs[1:]:
            n = n + a.n
        return Rows('cat', n, arrs[0].tail, parts=arrs)

    def arange(self, n, *a, **k):
        return Rows('arange', n, ())

    def array(self, v, *a, **k):
        if isinstance(v, (SArr, Rows)):
            return v
        return SArr(onp.array(v, dtype=object))

    def _stack(self, arrs, ndim, what):
        from .. import px
        arrs = list(arrs)
        if not all(isinstance(a, SArr) and a.a.ndim == ndim for a in arrs) or (ndim == 2 and len({a.a.shape[1] for a in arrs}) != 1):
            raise px.Unsupported('%s of %s' % (what, [(type(a).__name__, getattr(a, 'shape', None)) for a in arrs]))     # numpy/jax would raise or broadcast
        return SArr(onp.concatenate([a.a for a in arrs], axis=0))

    def hstack(self, arrs):
        return self._stack(arrs, 1, 'hstack')

    def vstack(self, arrs):
        return self._stack(arrs, 2, 'vstack')


def row_of(arr, idx):
    if isinstance(arr, Rows):
        return arr.row(idx)
    return [float(v) for v in onp.asarray(arr[int(idx)]).reshape(-1)]


def entries(arr):
    """(number of rows, flat list of entries) of a set array (SArr or real array)"""
    if isinstance(arr, SArr):
        return int(arr.a.shape[0]), list(arr.a.reshape(-1))
    a = onp.asarray(arr)
    return int(a.shape[0]), [float(v) for v in a.reshape(-1)]


def snap_sets(d):
    return None if d is None else {k: entries(v) for k, v in d.items()}


class _PE:
    degree = 1


def build_mesh(ex, mod, tag, spec):
    """spec: dict(ns=None|{name: length}, ss=None|{name: rows}, bl={name: length}); every drawn value is an input of the check"""
    symb = ex.symbolic
    n, e = ex.int('n' + tag), ex.int('e' + tag)
    ex.assume((1 <= n) & (n <= N_MAX) & (1 <= e) & (e <= N_MAX))
    gi, gn = ex.int('ielem' + tag), ex.int('inode' + tag)
    ex.assume((0 <= gi) & (gi < e) & (0 <= gn) & (gn < n))
    w = [ex.int('conn%s_%d' % (tag, c)) for c in range(3)]
    for v in w:
        ex.assume((0 <= v) & (v < n))
    xy = [ex.real('x%s_%d' % (tag, c)) for c in range(2)]
    uv = [ex.real('u%s_%d' % (tag, c)) for c in range(2)]
    if symb:
        coords = Rows('base', n, (2,), gi=gn, w=xy)
        conns = Rows('base', e, (3,), gi=gi, w=w)
        disp = Rows('base', n, (2,), gi=gn, w=uv)
        mk = lambda rows: SArr(rows)
        mk2 = lambda rows: SArr(onp.array(rows, dtype=object).reshape(len(rows), 2))
    else:
        c0 = onp.zeros((n, 2))
        c0[gn] = xy
        k0 = onp.zeros((e, 3), dtype=onp.int64)
        k0[gi] = w
        d0 = onp.zeros((n, 2))
        d0[gn] = uv
        coords, conns, disp = jnp.asarray(c0), jnp.asarray(k0), jnp.asarray(d0)
        mk = lambda rows: jnp.asarray(onp.array(rows, dtype=onp.int64).reshape(len(rows)))
        mk2 = lambda rows: jnp.asarray(onp.array(rows, dtype=onp.int64).reshape(len(rows), 2))

    def draw(name, hi, what):
        v = ex.int('%s%s_%s' % (what, tag, name))
        ex.assume((0 <= v) & (v < hi))
        return v
    ns = None if spec['ns'] is None else {k: mk([draw('%s_%d' % (k, j), n, 'ns') for j in range(L)]) for k, L in spec['ns'].items()}
    ss = None if spec['ss'] is None else {k: mk2([[draw('%s_%d_el' % (k, j), e, 'ss'), draw('%s_%d_side' % (k, j), 3, 'ss')] for j in range(L)]) for k, L in spec['ss'].items()}
    bl = {k: mk([draw('%s_%d' % (k, j), e, 'bl') for j in range(L)]) for k, L in spec['bl'].items()}
    mesh = mod.Mesh(coords, conns, (Rows('arange', n, ()) if symb else jnp.arange(n)), _PE(), _PE(), bl, ns, ss)
    return dict(mesh=mesh, disp=disp, n=n, e=e, gi=gi, gn=gn, w=w, xy=xy, uv=uv)


def copy_body(B, mod):
    """fresh dictionaries and fresh set arrays with the same contents (deep copy of everything the merge code could mutate)"""
    m = B['mesh']

    def cp(d):
        if d is None:
            return None
        return {k: (SArr(v.a.copy()) if isinstance(v, SArr) else jnp.array(v)) for k, v in d.items()}
    m2 = mod.Mesh(m.coords, m.conns, m.simplexNodesOrdinals, m.parentElement, m.parentElement1d, cp(m.blocks), cp(m.nodeSets), cp(m.sideSets))
    return dict(B, mesh=m2)


def snapshot(m):
    return dict(nodeSets=snap_sets(m.nodeSets), sideSets=snap_sets(m.sideSets), blocks=snap_sets(m.blocks))


def same_goal(ex, name, got, want, info=''):
    """structures of snap_sets: None-ness, names, extents are concrete; entries may be symbolic"""
    from .. import px
    if (got is None) != (want is None):
        ex.goal(name, Holds(False), info='%s: %s vs expected %s' % (info, _shape_of(got), _shape_of(want)))
        return
    if got is None:
        ex.goal(name, Holds(True))
        return
    if sorted(got) != sorted(want) or any(got[k][0] != want[k][0] or len(got[k][1]) != len(want[k][1]) for k in got):
        ex.goal(name, Holds(False), info='%s: names/extents %s vs expected %s' % (info, _shape_of(got), _shape_of(want)))
        return
    a = [px.unwrap(x) for k in sorted(got) for x in got[k][1]]
    b = [px.unwrap(x) for k in sorted(got) for x in want[k][1]]
    ex.goal(name, Eq(a, b) if a else Holds(True), info=info)


def _shape_of(s):
    return None if s is None else {k: (v[0], len(v[1])) for k, v in s.items()}


def expected_sets(s1, s2, off, per_row):
    """the merged sets as the property reads: mesh-1 entries unchanged, mesh-2 entries offset (first column of side-set rows only).
    A name that occurs in both meshes keeps the members of both: mesh-1 entries followed by the offset mesh-2 entries"""
    if s1 is None and s2 is None:
        return None
    out = {}
    for k, (L, vals) in (s1 or {}).items():
        out[k] = (L, list(vals))
    for k, (L, vals) in (s2 or {}).items():
        shifted = [v + off if (j % per_row == 0) else v for j, v in enumerate(vals)]
        if k in out:
            out[k] = (out[k][0] + L, out[k][1] + shifted)
        else:
            out[k] = (L, shifted)
    return out


def range_goal(ex, name, s, his):
    """every entry of column c of every set lies in [0, his[c] - 1]"""
    from .. import px
    vals, ub = [], []
    for k, (L, flatv) in (s or {}).items():
        for j, v in enumerate(flatv):
            vals.append(px.unwrap(v))
            ub.append(px.unwrap(his[j % len(his)] - 1))
    ex.goal(name, Le([0] * len(vals) + vals, vals + ub) if vals else Holds(True))


def merge_goals(ex, tag, A, B, merged, disp, snapA, snapB):
    from .. import px
    n1, e1, N, E = A['n'], A['e'], A['n'] + B['n'], A['e'] + B['e']
    u = px.unwrap
    ex.goal(tag + 'sizes_add_up', Eq([u(merged.coords.shape[0]), u(merged.conns.shape[0]), u(disp.shape[0]), u(merged.simplexNodesOrdinals.shape[0])], [u(N), u(E), u(N), u(N)]))
    # generic rows: element i of mesh 1 stays, element i of mesh 2 moves to e1 + i with its node numbers offset by n1; coordinates / displacements / vertex ordinals likewise
    r1, r2 = row_of(merged.conns, A['gi']), row_of(merged.conns, e1 + B['gi'])
    ex.goal(tag + 'connectivity_mesh1_kept_mesh2_offset_by_n1', Eq([u(x) for x in r1 + r2], [u(x) for x in A['w']] + [u(x + n1) for x in B['w']]))
    ex.goal(tag + 'connectivity_in_range', Le([0] * 6 + [u(x) for x in r1 + r2], [u(x) for x in r1 + r2] + [u(N - 1)] * 6))
    c1, c2 = row_of(merged.coords, A['gn']), row_of(merged.coords, n1 + B['gn'])
    d1, d2 = row_of(disp, A['gn']), row_of(disp, n1 + B['gn'])
    s1, s2 = row_of(merged.simplexNodesOrdinals, A['gn']), row_of(merged.simplexNodesOrdinals, n1 + B['gn'])
    ex.goal(tag + 'coords_disp_vertex_ordinals_concatenated', Eq([u(x) for x in c1 + c2 + d1 + d2 + s1 + s2], [u(x) for x in A['xy'] + B['xy'] + A['uv'] + B['uv']] + [u(A['gn']), u(n1 + B['gn'])]))
    got = snapshot(merged)
    for key, off, per_row, his in (('nodeSets', n1, 1, [N]), ('sideSets', e1, 2, [E, 3]), ('blocks', e1, 1, [E])):
        want = expected_sets(snapA[key], snapB[key], off, per_row)
        same_goal(ex, tag + '%s_are_mesh1_entries_and_offset_mesh2_entries' % key, got[key], want, info=key)
        range_goal(ex, tag + '%s_in_range_of_merged_mesh' % key, got[key], his)
        cnt = sum(v[0] for v in (got[key] or {}).values())
        exp = sum(v[0] for v in (snapA[key] or {}).values()) + sum(v[0] for v in (snapB[key] or {}).values())
        ex.goal(tag + '%s_member_count_adds_up' % key, Holds(cnt == exp), info='%d members, expected %d' % (cnt, exp))
    # inputs are not mutated: the meshes handed in still equal the deep copies taken before the call
    for lab, body, snap in (('mesh1', A, snapA), ('mesh2', B, snapB)):
        now = snapshot(body['mesh'])
        for key in ('nodeSets', 'sideSets', 'blocks'):
            same_goal(ex, tag + 'inputs_not_mutated', now[key], snap[key], info='%s.%s after the call' % (lab, key))


MERGE_SCENARIOS = [
    ('distinct_names', dict(ns={'a': 2, 'b': 1}, ss={'sa': 2}, bl={'ba': 2}), dict(ns={'c': 2}, ss={'sc': 1, 'sd': 0}, bl={'bc': 1, 'bd': 2})),
    ('equal_names', dict(ns={'a': 1, 's': 2}, ss={'t': 1}, bl={'block_0': 1}), dict(ns={'s': 1, 'c': 1}, ss={'t': 2}, bl={'block_0': 2})),
    ('equal_names_with_empty_sets', dict(ns={'s': 0, 'r': 1}, ss={'te': 0, 't0': 1, 'tz': 0}, bl={'block_0': 2}), dict(ns={'s': 1, 'r': 0}, ss={'te': 1, 't0': 0, 'tz': 0}, bl={'block_0': 1})),
    ('sets_only_in_mesh1', dict(ns={'a': 2}, ss={'sa': 1}, bl={'ba': 1}), dict(ns=None, ss=None, bl={'bc': 1})),
    ('sets_only_in_mesh2', dict(ns=None, ss=None, bl={'ba': 1}), dict(ns={'c': 2}, ss={'sc': 2}, bl={'bc': 1})),
    ('no_sets', dict(ns=None, ss=None, bl={'ba': 1}), dict(ns=None, ss=None, bl={'bc': 1})),
    ('empty_dicts', dict(ns={}, ss={}, bl={'ba': 1}), dict(ns={}, ss=None, bl={'bc': 1})),
]


def _merge_module(ex):
    from .. import px
    if ex.symbolic:
        mod = px.load_module('optimism/Mesh.py')
        mod.np = MergeNP()
        return mod
    import importlib
    return importlib.import_module('optimism.Mesh')


def merge_harness(specA, specB):
    def fn(ex):
        mod = _merge_module(ex)
        A, B = build_mesh(ex, mod, '1', specA), build_mesh(ex, mod, '2', specB)
        snapA, snapB = snapshot(copy_body(A, mod)['mesh']), snapshot(copy_body(B, mod)['mesh'])
        merged, disp = mod.combine_mesh((A['mesh'], A['disp']), (B['mesh'], B['disp']))
        merge_goals(ex, '', A, B, merged, disp, snapA, snapB)
    return fn


def history_harness(specA, specB, specC):
    """merge(a, b) then merge(a, c): the second result equals the merge of fresh copies of a and c, and a, b, c are unchanged"""
    def fn(ex):
        mod = _merge_module(ex)
        A, B, C = build_mesh(ex, mod, '1', specA), build_mesh(ex, mod, '2', specB), build_mesh(ex, mod, '3', specC)
        A0, C0 = copy_body(A, mod), copy_body(C, mod)
        snapA, snapB, snapC = snapshot(A0['mesh']), snapshot(copy_body(B, mod)['mesh']), snapshot(C0['mesh'])
        mod.combine_mesh((A['mesh'], A['disp']), (B['mesh'], B['disp']))
        m2, d2 = mod.combine_mesh((A['mesh'], A['disp']), (C['mesh'], C['disp']))
        mf, df = mod.combine_mesh((A0['mesh'], A0['disp']), (C0['mesh'], C0['disp']))
        got, fresh = snapshot(m2), snapshot(mf)
        for key in ('nodeSets', 'sideSets', 'blocks'):
            same_goal(ex, 'second_merge_equals_merge_of_fresh_copies', got[key], fresh[key], info=key)
        merge_goals(ex, 'second_merge.', A, C, m2, d2, snapA, snapC)
        now = snapshot(B['mesh'])
        for key in ('nodeSets', 'sideSets', 'blocks'):
            same_goal(ex, 'second_merge.inputs_not_mutated', now[key], snapB[key], info='first partner %s after both calls' % key)
    return fn


def direct_harness(ex):
    """the three helpers called directly, incl. the None / None corner that combine_mesh never reaches"""
    from .. import px
    mod = _merge_module(ex)
    A = build_mesh(ex, mod, '1', dict(ns={'a': 1}, ss={'sa': 1}, bl={'ba': 1}))
    B = build_mesh(ex, mod, '2', dict(ns={'c': 1}, ss={'sc': 1, 'se': 0}, bl={'bc': 1}))
    sA, sB = snapshot(copy_body(A, mod)['mesh']), snapshot(copy_body(B, mod)['mesh'])
    mA, mB = A['mesh'], B['mesh']
    off = A['n']
    same_goal(ex, 'combine_nodesets(None,None)_is_empty', snap_sets(mod.combine_nodesets(None, None, off)), {})
    same_goal(ex, 'combine_nodesets(None,s2)', snap_sets(mod.combine_nodesets(None, mB.nodeSets, off)), expected_sets(None, sB['nodeSets'], off, 1))
    same_goal(ex, 'combine_nodesets(s1,None)', snap_sets(mod.combine_nodesets(mA.nodeSets, None, off)), expected_sets(sA['nodeSets'], None, off, 1))
    same_goal(ex, 'combine_nodesets(s1,s2)', snap_sets(mod.combine_nodesets(mA.nodeSets, mB.nodeSets, off)), expected_sets(sA['nodeSets'], sB['nodeSets'], off, 1))
    eoff = A['e']
    same_goal(ex, 'combine_sidesets(None,None)_is_empty', snap_sets(mod.combine_sidesets(None, None, eoff)), {})
    same_goal(ex, 'combine_sidesets(s1,s2)', snap_sets(mod.combine_sidesets(mA.sideSets, mB.sideSets, eoff)), expected_sets(sA['sideSets'], sB['sideSets'], eoff, 2))
    same_goal(ex, 'combine_sidesets(None,s2)', snap_sets(mod.combine_sidesets(None, mB.sideSets, eoff)), expected_sets(None, sB['sideSets'], eoff, 2))
    same_goal(ex, 'combine_blocks(s1,s2)', snap_sets(mod.combine_blocks(mA.blocks, mB.blocks, eoff)), expected_sets(sA['blocks'], sB['blocks'], eoff, 1))
    for lab, body, snap in (('mesh1', A, sA), ('mesh2', B, sB)):
        now = snapshot(body['mesh'])
        for key in ('nodeSets', 'sideSets', 'blocks'):
            same_goal(ex, 'inputs_not_mutated', now[key], snap[key], info='%s.%s after the direct calls' % (lab, key))


MERGE_OUTSIDE = tuple(t for t in OUTSIDE if 'combine_mesh' not in t and 'curved' not in t) + (
    'merging: more than two sets per mesh and more than two entries per set (fixed small numbers here; the code treats every set and entry alike), the numerical content '
    'of coords/conns/disp beyond one generic row each (they only pass through `+ offset` and `concatenate`), meshes of degree > 1 (combine_mesh asserts degree 1), '
    'block_maps (combine_mesh drops them)',)


def _o8_meta(h):
    from optimism import Mesh as RealMesh
    h.encoded(RealMesh.combine_mesh, RealMesh.combine_nodesets, RealMesh.combine_sidesets, RealMesh.combine_blocks, RealMesh.num_elements)
    h.outside(*MERGE_OUTSIDE)
    h.bounds('two (history: three) meshes with SYMBOLIC node counts n and element counts e in [1, %d]; up to 2 node sets / side sets / blocks per mesh with 0..2 entries each, '
             'every entry a symbolic integer in range of its own mesh (node sets: [0, n), side sets: element in [0, e), side in {0,1,2}; blocks: [0, e)); name scenarios: %s; '
             'coords / conns / disp: symbolic row count and one generic row at a symbolic index' % (N_MAX, ', '.join(s[0] for s in MERGE_SCENARIOS)))
    h.assume_note('PX: the real source of optimism/Mesh.py is executed; in the symbolic run `np` is replaced (module attribute) by a two-function stand-in (concatenate along axis 0 and '
                  'arange on arrays with a symbolic number of rows, array([]) for the empty side set) and set arrays are tiny immutable arrays with symbolic entries and jax-style .at[].add; '
                  'the replay calls the real optimism.Mesh functions on real jax arrays of the model\'s sizes and values',
                  'equal set / block names in both meshes: the merged set of that name holds the mesh-1 entries followed by the offset mesh-2 entries (no member lost; the former '
                  'behaviour - mesh 2\'s set replaced mesh 1\'s - was a reproduced violation of these goals, fixed in the repository by commit 954aeb1)')


@obligation(P, 'O8.merging', cap=280)
def o8(h):
    """combine_mesh on two meshes of symbolic size: merged sets are exactly the mesh-1 entries and the mesh-2 entries offset by n1 (side sets: element + e1, side unchanged; blocks: + e1),
    all in range of the merged mesh, member counts add up (every name scenario, equal names keep the members of both), connectivity of mesh 2 offset by n1, sizes add up, inputs not mutated; every name scenario"""
    from .. import px
    _o8_meta(h)
    for name, sa, sb in MERGE_SCENARIOS:
        px.run_px(h, name, merge_harness(sa, sb), cap=30, order=('core',))
    px.run_px(h, 'helpers_called_directly', direct_harness, cap=30, order=('core',))


@obligation(P, 'O8.merging_history', cap=280)
def o8h(h):
    """merge(a, b) followed by merge(a, c): the second result equals the merge of fresh copies of a and c (no state leaks from the first call through the shared input), a, b, c unchanged"""
    from .. import px
    _o8_meta(h)
    sa, sb = MERGE_SCENARIOS[0][1], MERGE_SCENARIOS[0][2]
    sc = dict(ns={'d': 1}, ss={'sf': 1}, bl={'bf': 1})
    px.run_px(h, 'two_merges_sharing_the_first_mesh', history_harness(sa, sb, sc), cap=30, order=('core',))
    px.run_px(h, 'two_merges_sharing_the_first_mesh_sets_only_in_partners', history_harness(dict(ns=None, ss=None, bl={'ba': 1}), sb, sc), cap=30, order=('core',))


# ------------------------------------------------------------------------------------------ O9: Exodus reader on multi-block files (PX on the real source)
# The REAL source of ReadExodusMesh.py is executed on an in-memory stand-in for netCDF4.Dataset whose element blocks have SYMBOLIC element counts n_b, whose node count is
# symbolic, whose connectivity / coordinates / element map are known through generic rows at symbolic indices (any other row: a fresh unknown) and whose node / side sets
# are tiny arrays of symbolic 1-based entries.  Replay: a real netCDF file with the model's sizes and values is written and read by the real optimism.ReadExodusMesh.
NF_MAX = 2000           # sizes in [1, NF_MAX] (keeps replay files small; the arithmetic is linear)


def _ite(c, a, b):
    from .. import px
    import z3
    if isinstance(c, (bool, onp.bool_)):
        return a if c else b
    return px.SymReal(z3.If(c.z, px._z(a), px._z(b)))


def _rows_sub(self, off):
    return Rows('add', self.n, self.tail, child=self, off=-off)


def _rows_getitem(self, key):
    from .. import px
    if isinstance(key, slice) and key.step is None:
        a = 0 if key.start is None else key.start
        b = self.n if key.stop is None else key.stop
        # numpy clamps slice bounds to the extent (bounds are non-negative here); the comparisons fork only where both outcomes are feasible
        lo = a if bool(a <= self.n) else self.n
        hi = b if bool(b <= self.n) else self.n
        n = hi - lo if bool(lo <= hi) else 0
        return Rows('slice', n, self.tail, child=self, start=lo)
    if isinstance(key, tuple) and len(key) == 2 and key[0] == slice(None) and len(self.tail) == 1:
        cols = [int(v) for v in onp.asarray(key[1]).reshape(-1)]
        return Rows('cols', self.n, (len(cols),), child=self, cols=cols)
    raise px.Unsupported('indexing a placeholder array with %r' % (key,))


def _rows_row(self, idx):
    """generic-row semantics, extended: a base array may carry several witnesses; any other row is a fresh unknown"""
    from .. import px
    import z3
    if self.kind == 'base':
        wit = getattr(self, 'wits', None) or [(self.gi, self.w)]
        for gi, w in wit:
            if bool(gi == idx):          # decided under the path condition; forks only where both outcomes are feasible
                return list(w)
        return [px.SymReal(z3.FreshInt('unknown_entry')) for _ in range(len(wit[0][1]))]
    if self.kind == 'slice':
        return self.child.row(idx + self.start)
    if self.kind == 'cols':
        r = self.child.row(idx)
        return [r[c] for c in self.cols]
    if self.kind == 'colstack':
        return [x for p in self.parts for x in p.row(idx)]
    return _rows_row_merge(self, idx)


_rows_row_merge = Rows.row
Rows.row = _rows_row
Rows.__sub__ = _rows_sub
Rows.__getitem__ = _rows_getitem
Rows.__plen__ = lambda self: self.n
Rows.size = property(lambda self: self.n if not self.tail else self.n * int(onp.prod(self.tail)))
SArr.__sub__ = lambda self, o: self._ew(-o)


class _Dim:
    def __init__(self, n):
        self.n = n

    def __plen__(self):
        return self.n


def _plen(x):
    return x.__plen__() if hasattr(x, '__plen__') else len(x)


class ReaderNP(MergeNP):
    def arange(self, a, b=None, *r, **k):
        if b is None:
            return Rows('arange', a, ())
        return Rows('add', b - a, (), child=Rows('arange', b - a, ()), off=a)

    def vstack(self, arrs):
        arrs = list(arrs)
        if all(isinstance(a, Rows) for a in arrs):
            return self.concatenate(arrs, axis=0)
        return MergeNP.vstack(self, arrs)

    def column_stack(self, arrs):
        from .. import px
        arrs = list(arrs)
        if all(isinstance(a, Rows) and a.tail == () for a in arrs):
            return Rows('colstack', arrs[0].n, (len(arrs),), parts=arrs)
        if all(isinstance(a, SArr) and a.a.ndim == 1 for a in arrs) and len({a.a.shape[0] for a in arrs}) == 1:
            out = onp.empty((arrs[0].a.shape[0], len(arrs)), dtype=object)
            for c, a in enumerate(arrs):
                out[:, c] = a.a
            return SArr(out)
        raise px.Unsupported('column_stack of %s' % [type(a).__name__ for a in arrs])

    def __getattr__(self, name):
        return getattr(onp, name)


class _SymRec:
    """stand-in for a netCDF4 variable in the symbolic run"""

    def __init__(self, data, **attrs):
        self._data = data
        self.__dict__.update(attrs)

    def set_auto_mask(self, flag):
        pass

    def __getitem__(self, key):
        if key == slice(None):
            return self._data
        return self._data[key]


class _SymDataset:
    def __init__(self, dims, variables):
        self.dimensions, self.variables = dims, variables

    def __getitem__(self, k):
        return self.variables[k]

    def __enter__(self):
        return self

    def __exit__(self, *a):
        return False


EXO_SCENARIOS = [
    ('one_block_tri3', dict(etype='TRI3', names=['solid'], emap=False, ns=None, ss=None)),
    ('two_blocks_tri6_named_unnamed_with_sets', dict(etype='TRI6', names=['left', ''], emap=False, ns=[('fix', 2), ('', 1)], ss=[('', 2), ('load', 1)])),
    ('three_blocks_tri3_element_map_sets', dict(etype='TRI3', names=['a', '', 'c'], emap=True, ns=[('', 1), ('top', 2)], ss=[('pull', 2)])),
    ('four_blocks_tri3_unnamed', dict(etype='TRI3', names=['', '', '', ''], emap=False, ns=[('n1', 1)], ss=None)),
    ('three_blocks_tri6_element_map', dict(etype='TRI6', names=['', 'mid', 'top'], emap=True, ns=None, ss=[('s', 1)])),
]


def _write_names(ds, var, dim, names):
    v = ds.createVariable(var, 'S1', (dim, 'len_name'))
    data = onp.zeros((len(names), 33), dtype='S1')
    for i, nm in enumerate(names):
        for j, ch in enumerate(nm):
            data[i, j] = ch.encode()
    v[:] = data


def exodus_harness(spec):
    npe = 3 if spec['etype'] == 'TRI3' else 6
    nb = len(spec['names'])

    def fn(ex):
        from .. import px
        symb = ex.symbolic
        u = px.unwrap
        nn = ex.int('num_nodes')
        ex.assume((1 <= nn) & (nn <= NF_MAX))
        jn = ex.int('inode')
        ex.assume((0 <= jn) & (jn < nn))
        xy = [ex.real('x'), ex.real('y')]
        cnt, gi, rows = [], [], []
        for b in range(nb):
            n = ex.int('n_blk%d' % (b + 1))
            i = ex.int('i_blk%d' % (b + 1))
            ex.assume((1 <= n) & (n <= NF_MAX) & (0 <= i) & (i < n))
            r = [ex.int('connect%d_%d' % (b + 1, c)) for c in range(npe)]
            for v in r:
                ex.assume((1 <= v) & (v <= nn))           # 1-based node ids of a well-formed file
            cnt.append(n), gi.append(i), rows.append(r)
        offs = [sum(cnt[:b]) if b else 0 for b in range(nb)]
        total = sum(cnt)
        emap = [ex.int('elem_num_map_at_blk%d' % (b + 1)) for b in range(nb)] if spec['emap'] else None
        for v in emap or []:
            ex.assume((1 <= v) & (v <= 10 * NF_MAX))

        def draw(name, lo, hi):
            v = ex.int(name)
            ex.assume((lo <= v) & (v <= hi))
            return v
        ns = None if spec['ns'] is None else [(nm, [draw('node_ns%d_%d' % (k + 1, j), 1, nn) for j in range(L)]) for k, (nm, L) in enumerate(spec['ns'])]
        ss = None if spec['ss'] is None else [(nm, [draw('elem_ss%d_%d' % (k + 1, j), 1, total) for j in range(L)], [draw('side_ss%d_%d' % (k + 1, j), 1, 3) for j in range(L)])
                                              for k, (nm, L) in enumerate(spec['ss'])]
        if symb:
            R = px.load_module('optimism/ReadExodusMesh.py')
            R.np = ReaderNP()
            onp_shim = ReaderNP()
            R.onp = onp_shim
            R.len = _plen          # len(netCDF dimension) and len(array) may be symbolic integers here; the builtin insists on a Python int
            if npe == 6:
                # builds a Python set of the vertex ids (needs concrete connectivity): covered by O5 on concrete connectivity; here only its use is traced
                R._get_vertex_nodes_from_exodus_tri6_mesh = lambda conns: Rows('base', ex.int('px_nvertex'), (), gi=0, w=[0])
            dims = {'num_nodes': _Dim(nn), 'num_dim': _Dim(2), 'num_el_blk': _Dim(nb)}
            var = {'coordx': _SymRec(_Masked(Rows('base', nn, (), gi=jn, w=[xy[0]]))), 'coordy': _SymRec(_Masked(Rows('base', nn, (), gi=jn, w=[xy[1]]))),
                   'eb_names': _SymRec([[c.encode() for c in nm] or [b''] for nm in spec['names']])}
            for b in range(nb):
                dims['num_el_in_blk%d' % (b + 1)] = _Dim(cnt[b])
                dims['num_nod_per_el%d' % (b + 1)] = _Dim(npe)
                var['connect%d' % (b + 1)] = _SymRec(Rows('base', cnt[b], (npe,), gi=gi[b], w=rows[b]), elem_type=spec['etype'])
            if emap is not None:
                var['elem_num_map'] = _SymRec(Rows('base', total, (), wits=[(offs[b] + gi[b], [emap[b]]) for b in range(nb)]))
            if ns is not None:
                dims['num_node_sets'] = _Dim(len(ns))
                var['ns_names'] = _SymRec([[c.encode() for c in nm] or [b''] for nm, _ in ns])
                for k, (nm, vals) in enumerate(ns):
                    var['node_ns%d' % (k + 1)] = _SymRec(SArr(vals))
            if ss is not None:
                dims['num_side_sets'] = _Dim(len(ss))
                var['ss_names'] = _SymRec([[c.encode() for c in nm] or [b''] for nm, _, _ in ss])
                for k, (nm, els, sides) in enumerate(ss):
                    var['elem_ss%d' % (k + 1)] = _SymRec(SArr(els))
                    var['side_ss%d' % (k + 1)] = _SymRec(SArr(sides))
            fake = _SymDataset(dims, var)
            R.netCDF4 = type('netCDF4_stand_in', (), {'Dataset': staticmethod(lambda fileName: fake)})
            mesh = R.read_exodus_mesh('in-memory multi-block file')
        else:
            import importlib
            import os
            import netCDF4
            R = importlib.import_module('optimism.ReadExodusMesh')
            path = '/tmp/c13_replay_%d.exo' % os.getpid()
            with netCDF4.Dataset(path, 'w', format='NETCDF3_64BIT_OFFSET') as ds:
                ds.createDimension('len_name', 33)
                ds.createDimension('num_dim', 2)
                ds.createDimension('num_nodes', nn)
                ds.createDimension('num_elem', total)
                ds.createDimension('num_el_blk', nb)
                cx, cy = onp.zeros(nn), onp.zeros(nn)
                cx[jn], cy[jn] = xy
                ds.createVariable('coordx', 'f8', ('num_nodes',))[:] = cx
                ds.createVariable('coordy', 'f8', ('num_nodes',))[:] = cy
                _write_names(ds, 'eb_names', 'num_el_blk', spec['names'])
                for b in range(nb):
                    k = str(b + 1)
                    ds.createDimension('num_el_in_blk' + k, cnt[b])
                    ds.createDimension('num_nod_per_el' + k, npe)
                    v = ds.createVariable('connect' + k, 'i4', ('num_el_in_blk' + k, 'num_nod_per_el' + k))
                    v.elem_type = spec['etype']
                    data = onp.ones((cnt[b], npe), dtype=onp.int32)          # every other row: node 1 (valid)
                    data[gi[b]] = rows[b]
                    v[:] = data
                if emap is not None:
                    em = 20 * NF_MAX + onp.arange(total)                       # every other entry: a value no witness can take
                    for b in range(nb):
                        em[offs[b] + gi[b]] = emap[b]
                    ds.createVariable('elem_num_map', 'i4', ('num_elem',))[:] = em
                if ns is not None:
                    ds.createDimension('num_node_sets', len(ns))
                    _write_names(ds, 'ns_names', 'num_node_sets', [nm for nm, _ in ns])
                    for k, (nm, vals) in enumerate(ns):
                        ds.createDimension('num_nod_ns%d' % (k + 1), len(vals))
                        ds.createVariable('node_ns%d' % (k + 1), 'i4', ('num_nod_ns%d' % (k + 1),))[:] = onp.array(vals, dtype=onp.int32)
                if ss is not None:
                    ds.createDimension('num_side_sets', len(ss))
                    _write_names(ds, 'ss_names', 'num_side_sets', [nm for nm, _, _ in ss])
                    for k, (nm, els, sides) in enumerate(ss):
                        ds.createDimension('num_side_ss%d' % (k + 1), len(els))
                        ds.createVariable('elem_ss%d' % (k + 1), 'i4', ('num_side_ss%d' % (k + 1),))[:] = onp.array(els, dtype=onp.int32)
                        ds.createVariable('side_ss%d' % (k + 1), 'i4', ('num_side_ss%d' % (k + 1),))[:] = onp.array(sides, dtype=onp.int32)
            try:
                mesh = R.read_exodus_mesh(path)
            finally:
                os.remove(path)

        def size_of(a):
            return a.shape[0]

        def at(a, idx):
            if isinstance(a, Rows):
                return a.row(idx)
            a = onp.asarray(a)
            if not 0 <= int(idx) < a.shape[0]:
                return [float('nan')] * max(1, int(onp.prod(a.shape[1:])))
            return [float(v) for v in onp.asarray(a[int(idx)]).reshape(-1)]
        bnames = [nm or 'block_%d' % (b + 1) for b, nm in enumerate(spec['names'])]
        perm = [int(v) for v in onp.asarray(R.exodusToNativeTri6NodeOrder)] if npe == 6 else list(range(3))
        structure_ok = sorted(mesh.blocks) == sorted(bnames) and sorted(mesh.block_maps) == sorted(bnames)
        ex.goal('block_names', Holds(structure_ok), info='blocks %s, block_maps %s, expected %s' % (sorted(mesh.blocks), sorted(mesh.block_maps), bnames))
        ex.goal('sizes', Eq([u(size_of(mesh.conns)), u(size_of(mesh.coords))], [u(total), u(nn)]))
        ex.goal('coordinates_in_file_order', Eq([u(x) for x in at(mesh.coords, jn)], [u(x) for x in xy]))
        if structure_ok:
            bs, be, lo, hi, cg, cw, ms, mg, mw = [], [], [], [], [], [], [], [], []
            for b, nm in enumerate(bnames):
                blk = mesh.blocks[nm]
                e = at(blk, gi[b])[0]
                bs += [u(size_of(blk))]
                be += [u(e)]
                lo.append(u(offs[b] + gi[b]))
                hi.append(u(total - 1))
                cg += [u(x) for x in at(mesh.conns, offs[b] + gi[b])]
                cw += [u(rows[b][p] - 1) for p in perm]
                bm = mesh.block_maps[nm]
                ms.append(u(size_of(bm)))
                mg += [u(x) for x in at(bm, gi[b])]
                mw.append(u(emap[b]) if emap is not None else u(offs[b] + gi[b] + 1))
            ex.goal('blocks_partition_the_elements_in_file_order', Eq(bs + be, [u(n) for n in cnt] + lo), info='block b = offset_b + arange(n_b), offset_b = sum of the previous counts')
            ex.goal('blocks_index_existing_elements', Le([0] * nb + be, be + hi))
            ex.goal('connectivity_rows_at_block_offset_zero_based_native_order', Eq(cg, cw))
            ex.goal('connectivity_in_range', Le([0] * len(cg) + cg, cg + [u(nn - 1)] * len(cg)))
            ex.goal('block_maps_are_the_element_map_slices', Eq(ms + mg, [u(n) for n in cnt] + mw))
        if npe == 3:
            ex.goal('simplexNodesOrdinals_are_all_nodes', Eq([u(size_of(mesh.simplexNodesOrdinals))] + [u(x) for x in at(mesh.simplexNodesOrdinals, jn)], [u(nn), u(jn)]))
        want_ns = {} if ns is None else {(nm or 'nodeset_%d' % (k + 1)): (len(vals), [v - 1 for v in vals]) for k, (nm, vals) in enumerate(ns)}
        want_ss = {} if ss is None else {(nm or 'sideset_%d' % (k + 1)): (len(els), [x for e_, s_ in zip(els, sides) for x in (e_ - 1, s_ - 1)]) for k, (nm, els, sides) in enumerate(ss)}
        same_goal(ex, 'node_sets_zero_based_no_member_lost', snap_sets(mesh.nodeSets), want_ns, info='node sets')
        same_goal(ex, 'side_sets_zero_based_no_member_lost', snap_sets(mesh.sideSets), want_ss, info='side sets')
        range_goal(ex, 'node_sets_index_existing_nodes', snap_sets(mesh.nodeSets), [nn])
        range_goal(ex, 'side_sets_index_existing_elements_and_sides', snap_sets(mesh.sideSets), [total, 3])
    return fn


@obligation(P, 'O9.exodus_reader_multi_block', cap=280)
def o9(h):
    """the real read_exodus_mesh on multi-block files with SYMBOLIC element counts per block: the blocks partition range(total) in file order, every connectivity row of block b sits at
    offset_b + i with 0-based node ids (Tri6: native order), block_maps are the element-map slices, node / side sets become 0-based and lose no member, names of unnamed entities generated"""
    from .. import px
    from optimism import ReadExodusMesh as R
    h.encoded(R.read_exodus_mesh, R._read_blocks, R._read_block_conns, R._read_block_maps, R._read_coordinates, R._read_node_sets, R._read_side_sets, R._read_element_type, R._read_names_list)
    h.bounds('files with 1..4 element blocks (%s); element count of every block, node count: symbolic integers in [1, %d]; per block one generic connectivity row at a symbolic index '
             '(1-based symbolic node ids in range), one generic node, element map known at the generic element of every block, up to 2 node sets / side sets with 1..2 symbolic 1-based entries'
             % (', '.join(s[0] for s in EXO_SCENARIOS), NF_MAX))
    h.outside(*(t for t in OUTSIDE if 'read_exodus_mesh' not in t),
              'ReadMesh.read_json_mesh (JSON reader): set members on symbolic content in O10; the JSON text format itself is not encoded',
              'Exodus reader: the netCDF C library / file format, files whose blocks have different nodes-per-element or element types (the reader asserts), blocks or sets sharing a name, '
              'empty sets, masked (missing) data, read_exodus_mesh_element_properties; Tri6 vertex-node extraction on symbolic connectivity (needs concrete ids: covered by O5)')
    h.assume_note('PX: the real source of optimism/ReadExodusMesh.py is executed; module attributes replaced in the symbolic run: netCDF4 (in-memory stand-in exposing dimensions / variables), '
                  'np and onp (arange / vstack / column_stack / array on arrays with a symbolic number of rows), len (len(dimension) / len(array) may be a symbolic integer; the builtin insists '
                  'on a Python int), and for TRI6 _get_vertex_nodes_from_exodus_tri6_mesh (a Python set of concrete ids: O5)',
                  'arrays with a symbolic number of rows are known at generic rows (symbolic index, symbolic content); any other row is a fresh unknown; numpy slice clamping is modelled',
                  'replay: a REAL netCDF file (netCDF4 %s) with the model\'s sizes and values is written to /tmp and read by the real optimism.ReadExodusMesh.read_exodus_mesh'
                  % __import__('netCDF4').__version__)
    for name, spec in EXO_SCENARIOS:
        px.run_px(h, name, exodus_harness(spec), cap=30, order=('core',))


# ------------------------------------------------------------------------------------------ O6b: structured generator with elementOrder > 1
class StructElev(Elev):
    """construct_structured_mesh(Nx, Ny, xExtent, yExtent, elementOrder, useBubbleElement) with symbolic extents: same tables as Elev, traced function of the extents"""

    def __init__(self, h, Nx, Ny, order, bubble):
        M, I = _mods()
        self.label = 'structured %dx%d %s' % (Nx, Ny, ename(order, bubble))
        self.order, self.bubble, self.nv = order, bubble, Nx * Ny
        ho = M.construct_structured_mesh(Nx, Ny, [0., 1.], [0., 1.], elementOrder=order, useBubbleElement=bubble)
        base = M.construct_structured_mesh(Nx, Ny, [0., 1.], [0., 1.])
        self.conn = [[int(v) for v in row] for row in onp.asarray(base.conns)]
        self._tables(ho)
        conns0 = self.conns

        def fn(ext):
            with jax.ensure_compile_time_eval():
                m = M.construct_structured_mesh(Nx, Ny, [ext[0], ext[1]], [ext[2], ext[3]], elementOrder=order, useBubbleElement=bubble)
            if isinstance(m.conns, jax.core.Tracer) or [[int(v) for v in row] for row in onp.asarray(m.conns)] != conns0:
                raise RuntimeError('connectivity of the traced run differs from the concrete run')
            return m.coords
        self.fn = fn

    def mk_case(self, h):
        def smp(rng):
            x0, y0 = rng.uniform(-2, 1, size=2)
            return [onp.array([x0, x0 + rng.uniform(0.3, 2), y0, y0 + rng.uniform(0.3, 2)])]
        self.case = Case(h, self.fn, dict(ext=onp.array([0., 1., 0., 1.])), sampler=smp, label='construct_structured_mesh ' + self.label, validate=2)


@obligation(P, 'O6b.structured_mesh_elevated', cap=280)
def o6b(h):
    """Mesh.construct_structured_mesh with elementOrder >= 2 (with and without bubble) and SYMBOLIC extents: the connectivity facts of O4 (ground) and, for all extents, every node
    of every element at v2 + J xi_a of the element's own vertices (the grid nodes, themselves checked against the regular grid), vertex nodes first and unchanged"""
    M, I = _mods()
    common(h)
    h.encoded(M.construct_structured_mesh, M.create_structured_mesh_data)
    TOLG = 16 * EPS * BOX
    sizes = [(2, 2), (3, 2)] + ([(2, 3), (3, 3)] if h.thorough() else [])
    cfgs = [(2, False), (2, True), (3, True)] + ([(3, False), (4, True), (5, False)] if h.thorough() else [])
    h.bounds('grids %s x element types %s; extents x0, x1, y0, y1 free in [-%g,%g] with x1 - x0 >= %g, y1 - y0 >= %g; tolerances %.3g (grid), %.3g (affine images, relative to the grid nodes)'
             % (sizes, [ename(*c) for c in cfgs], BOX, BOX, L_MIN, L_MIN, TOLG, TOL_NODE))
    for Nx, Ny in sizes:
        for order, bubble in cfgs:
            E = StructElev(h, Nx, Ny, order, bubble)
            connectivity_facts(h, 'facts[%s]' % E.label, E)
            if not E.in_range:
                continue
            E.mk_case(h)

            def spec(i, o, E=E, Nx=Nx, Ny=Ny):
                ext, XS = i['ext'], o
                x0, x1, y0, y1 = [ext[k] for k in range(4)]
                Lx, Ly = v_sub(x1, x0), v_sub(y1, y0)
                Ex, Ey = Nx - 1, Ny - 1
                grid = []
                for ny in range(Ny):
                    for nx in range(Nx):
                        g = ny * Nx + nx
                        grid += [v_abs(v_sub(v_mul(float(Ex), v_sub(XS[g][0], x0)), v_mul(float(nx), Lx))), v_abs(v_sub(v_mul(float(Ey), v_sub(XS[g][1], y0)), v_mul(float(ny), Ly)))]
                lhs = []
                for e, c in enumerate(E.conn):
                    v, J, det = geom(XS, c)           # the element's own vertex nodes (rows 0 .. Nx*Ny-1 of the elevated coordinate array)
                    for a in range(E.npe):
                        pnt = affine_point(v, J, E.pc[a])
                        g = E.conns[e][a]
                        lhs += [v_abs(v_sub(XS[g][0], pnt[0])), v_abs(v_sub(XS[g][1], pnt[1]))]
                return box(ext) + [v_le(L_MIN, Lx), v_le(L_MIN, Ly)], [
                    Le(grid, TOLG * max(Ex, Ey), name='vertex_nodes_on_the_regular_grid', scale=SC),
                    Le(lhs, TOL_NODE, name='nodes_eq_v2_plus_J_xi', scale=SC)]
            E.case.prove('O6b[%s]' % E.label, spec, cap=40)


# ------------------------------------------------------------------------------------------ O10: JSON reader keeps every side-set / node-set member
@obligation(P, 'O10.json_reader_loses_no_set_member', cap=120)
def o10(h):
    """the real read_json_mesh on file CONTENT with symbolic side-set and node-set entries: the side set handed to the mesh constructor has one row per
    listed (element, side) pair, in file order, with exactly the listed values - also when two entries name the same element or the same side or are
    identical - and every node set keeps its entries in order (PX; json.load is the stub: it returns the parsed content)"""
    from .. import px
    from optimism import ReadMesh as R
    h.encoded(R.read_json_mesh)
    h.bounds('a file with one side set of 3 entries (element ids and side ids: symbolic integers, any values, equal or not) and one node set of 3 symbolic integer entries; '
             'coordinates / connectivity: a concrete two-triangle mesh (passed through)')
    h.outside('the JSON text format and json.load itself (stubbed: returns the parsed content); Mesh.construct_mesh_from_basic_data (stubbed: records its arguments; its tables are O4/O7)',
              'more than 3 entries per set, several side sets')
    h.assume_note('PX: the real source of optimism/ReadMesh.py runs with `json.load` returning the symbolic content, builtin open replaced by a no-op context, np replaced by NumPy on object arrays of proxies '
                  '(np.array(..., dtype=int) keeps the proxies), optimism.Mesh replaced by a recorder',
                  'replay: a REAL JSON file with the model values is written to /tmp and read by the real optimism.ReadMesh.read_json_mesh')
    NENT = 3

    def fn(ex):
        import contextlib
        els = [ex.int('elem_%d' % k) for k in range(NENT)]
        sds = [ex.int('side_%d' % k) for k in range(NENT)]
        nds = [ex.int('node_%d' % k) for k in range(NENT)]
        content = {'coordinates': [[0., 0.], [1., 0.], [0., 1.], [1., 1.]], 'connectivity': [[0, 1, 2], [1, 3, 2]],
                   'nodeSets': {'ns': list(nds)}, 'sideSets': {'ss': [list(els), list(sds)]}}
        U = px.unwrap
        if ex.symbolic:
            rec = {}

            def arr(v, dtype=None):
                a = onp.empty(onp.shape(onp.array(v, dtype=object)), dtype=object)
                a[...] = onp.array(v, dtype=object)
                return a
            npx = types.SimpleNamespace(array=arr, column_stack=onp.column_stack, asarray=arr)
            mesh_stub = types.SimpleNamespace(construct_mesh_from_basic_data=lambda c, cn, b, ns, ss: rec.update(ns=ns, ss=ss, blocks=b) or rec)
            json_stub = types.SimpleNamespace(load=lambda f: content)
            mod = px.load_module('optimism/ReadMesh.py', shims={'optimism.JaxConfig': px.jaxconfig_shim(extra=dict(np=npx)), 'optimism.Mesh': mesh_stub, 'optimism': types.SimpleNamespace(Mesh=mesh_stub), 'json': json_stub})
            mod.open = lambda *a, **k: contextlib.nullcontext()
            mod.json = json_stub
            mod.read_json_mesh('symbolic.json')
            ss, ns = rec['ss']['ss'], rec['ns']['ns']
        else:
            import json as _json
            path = '/tmp/c13_json_replay_%d.json' % os.getpid()
            with open(path, 'w') as f:
                _json.dump(content, f)
            try:
                mesh = R.read_json_mesh(path)
            finally:
                os.remove(path)
            ss, ns = onp.asarray(mesh.sideSets['ss']), onp.asarray(mesh.nodeSets['ns'])
        n_ss, n_ns = int(onp.shape(ss)[0]), int(onp.shape(ns)[0])
        ex.goal('side_set_keeps_one_row_per_listed_pair', Holds(n_ss == NENT and tuple(onp.shape(ss))[1:] == (2,)), info='side set shape %s for %d listed pairs' % (onp.shape(ss), NENT))
        ex.goal('node_set_keeps_every_entry', Holds(n_ns == NENT), info='node set shape %s' % (onp.shape(ns),))
        if n_ss == NENT and tuple(onp.shape(ss))[1:] == (2,):
            ex.goal('side_set_rows_are_the_listed_pairs_in_file_order', Eq([U(ss[k][j]) for k in range(NENT) for j in range(2)], [U(x) for k in range(NENT) for x in (els[k], sds[k])]))
        if n_ns == NENT:
            ex.goal('node_set_entries_in_file_order', Eq([U(ns[k]) for k in range(NENT)], [U(x) for x in nds]))
    px.run_px(h, 'read_json_mesh', fn, cap=20, order=('core',), expect_goals=['side_set_keeps_one_row_per_listed_pair', 'side_set_rows_are_the_listed_pairs_in_file_order', 'node_set_entries_in_file_order'])
