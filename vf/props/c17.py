"""C17 — safeguarded scalar root finder (ScalarRootFind.rtsafe_ / find_root): bracket contract, NaN protocol, IFT derivative.

Technique: JX in *nan-tracking* mode + 1-induction on the real `while` equation with an uninterpreted C1 function.

* `rtsafe_` is traced with `f = lambda x: jx.uf(x, 'f', 0)`; `value_and_grad(f)` shows up in the jaxpr as `vf_uf[f,0]`,
  `vf_uf[f,1]`: the value and the slope of f at each evaluation point are unrelated solver variables (only congruence:
  equal arguments give equal values), i.e. f is an arbitrary function with an arbitrary derivative.
* nan-tracking: a float value is a pair `NV(real term, non-finite flag)`. `nan` literals and division by a zero denominator
  set the flag (0/0 and x/0 are conflated: the code never relies on an infinity), arithmetic propagates it, every ordered
  comparison and `==` with a flagged operand is false, `!=` is true, `select`/`cond` pick the pair. Implemented in this
  module through `ctx.hooks` of the shared jaxpr interpreter (data movement, calls, bool/int ops stay with vf.jx).
* `cond_jaxpr` / `body_jaxpr` of the `while` equation are used as a transition relation on a fresh symbolic carry:
  O1 base (prologue establishes Inv), O2 step (Inv and loop condition => Inv after one real body), O3 exit (Inv and not
  loop condition => contract of the outputs), O4 whole-function facts that need no induction, O5 derivative rule,
  O6 a bounded unrolling of the real loop (no invariant involved) as an independent cross-check.
* replay: a concrete f is built as a Hermite interpolant through the finitely many (x, f, f') triples of the solver
  model; the *real* code is executed on it (O2: the real loop body re-traced from the source with that f; the others: the
  real rtsafe_/find_root end to end).
* O7 pins one real loop step as a FUNCTION of the carry (the bracket invariants of O1-O3 do not): it commutes with
  f -> -f (xl/xh are ordered by the sign of f, not by position), and the Newton point is taken exactly when it lies strictly
  between xl and xh in either order (DF != 0, |2F| <= |dxOld DF|), the midpoint only otherwise. O5 also covers roots lying
  exactly on a bracket end (returned, IFT derivative). reduce_min/max/sum, clamp, integer_pow have nan-tracking rules.
* tiers: quick = O1-O5, O7 + O6 with K=1; thorough adds O6 with K=2, 3 (K=4 does not finish, see DESIGNED_NOT_REGISTERED).
* history: before the upstream fix `| (DF == 0.0)` O2.step/iterate_stays_finite was violated (carry with F == 0 and DF == 0:
  Newton step -0/0 = NaN); O2.step/iterate_finite_unless_at_root_with_zero_slope is its complement.
"""
import functools
import math
import fractions

import numpy as onp
import z3
import jax
import jax.numpy as jnp

from ..core import obligation
from .. import jx, sym
from ..sym import isz, num, toz, tob, rat, Holds, v_and, v_or, v_not, v_lt, v_le, v_eq, v_min, v_max, v_abs, v_mul, v_sub, v_implies

P = 'C17'
CARRY = ('root', 'dx', 'dxOld', 'F', 'DF', 'xl', 'xh', 'converged', 'i')
DESIGNED_NOT_REGISTERED = [
    ('O6.bounded_unroll/K4.*', 'four real loop bodies unrolled: converged_result_is_finite_and_in_bracket is unknown at 300 s (nlsat 150 s + core 150 s); K <= 3 is registered (<= 8 s per query). The inductive O1-O3 cover every iteration count.'),
]


def _S():
    from optimism import ScalarRootFind as S
    return S


# =========================================================================================== nan-tracking values
class NV:
    """(real term | python number, non-finite flag: python bool | z3 Bool)"""
    __slots__ = ('r', 'n')

    def __init__(self, r, n):
        self.r, self.n = r, n

    def __repr__(self):
        return 'NV(%s, %s)' % (self.r, self.n)


def nv(x):
    if isinstance(x, NV):
        return x
    if isz(x):
        return NV(x, False)
    if isinstance(x, (float, onp.floating)) and not math.isfinite(x):
        return NV(0.0, True)
    return NV(x, False)


def _is_nvlike(x):
    return isinstance(x, NV) or (isinstance(x, (float, onp.floating)) and not math.isfinite(x))


def _has_nv(iv):
    for v in iv:
        if isinstance(v, onp.ndarray) and v.dtype == object:
            for x in v.ravel():
                if _is_nvlike(x):
                    return True
    return False


def b_or(*xs):
    r = False
    for x in xs:
        r = jx.s_or(r, x)
    return r


def b_and(*xs):
    r = True
    for x in xs:
        r = jx.s_and(r, x)
    return r


def _gb(ctx, b):
    """ground mode: reduce a ground z3 Bool to a python bool"""
    if ctx.ground and isz(b):
        s = z3.simplify(b)
        if z3.is_true(s):
            return True
        if z3.is_false(s):
            return False
        raise jx.JXError('nan-tracking ground run: condition did not reduce: %s' % s)
    return b


def _gr(ctx, r):
    if ctx.ground and isz(r):
        return z3.simplify(r)
    return r


def _mkNV(ctx, r, n):
    return NV(_gr(ctx, r), _gb(ctx, n))


def _arith(op):
    def f(ctx, P_, *a):
        a = [nv(x) for x in a]
        return _mkNV(ctx, op(*[x.r for x in a]), b_or(*[x.n for x in a]))
    return f


def _s_abs(a):
    return abs(a) if num(a) else z3.If(a >= 0, a, -a)


def _s_neg(a):
    return -a


def _nv_div(ctx, P_, a, b):
    a, b = nv(a), nv(b)
    if num(b.r):
        zero = (b.r == 0)
        if zero:
            r = 0.0
        elif num(a.r):
            r = fractions.Fraction(a.r) / fractions.Fraction(b.r) if ctx.ground else a.r / b.r
        else:
            r = toz(a.r) / toz(b.r)
    else:
        zero = (b.r == 0)
        r = toz(a.r) / b.r
    zero = _gb(ctx, zero)
    if zero is True:
        r = 0.0
    return _mkNV(ctx, r, b_or(a.n, b.n, zero))


def _cmp(op, negate=False):
    def f(ctx, P_, a, b):
        a, b = nv(a), nv(b)
        c = _gb(ctx, b_and(jx.s_not(a.n), jx.s_not(b.n), op(a.r, b.r)))
        return jx.s_not(c) if negate else c
    return f


def b_ite(c, a, b):
    if num(c):
        return a if c else b
    if num(a) and num(b) and bool(a) == bool(b):
        return bool(a)
    return z3.If(c, tob(a), tob(b))


def nv_ite(c, a, b):
    """c ? a : b on NV / plain values"""
    if num(c):
        return a if c else b
    if _is_nvlike(a) or _is_nvlike(b):
        a, b = nv(a), nv(b)
        return NV(sym.v_if(c, a.r, b.r), b_ite(c, a.n, b.n))
    if isinstance(a, (bool, onp.bool_)) or isinstance(b, (bool, onp.bool_)) or (isz(a) and z3.is_bool(a)) or (isz(b) and z3.is_bool(b)):
        return b_ite(c, a, b)
    return sym.v_if(c, a, b)


def _nv_select(ctx, P_, c, *cs):
    assert len(cs) == 2, 'select_n with %d cases' % len(cs)
    c = _gb(ctx, c)
    return nv_ite(c, cs[1], cs[0])


def _nv_convert(ctx, P_, a):
    nd = onp.dtype(P_['new_dtype'])
    if nd.kind != 'f':
        raise jx.JXError('nan-tracking: float -> %s conversion of a possibly non-finite value' % nd)
    return nv(a)


NVOPS = {
    'add': _arith(jx.s_add), 'add_any': _arith(jx.s_add), 'sub': _arith(jx.s_sub), 'mul': _arith(jx.s_mul),
    'neg': _arith(_s_neg), 'abs': _arith(_s_abs), 'max': _arith(jx.s_max), 'min': _arith(jx.s_min),
    'div': _nv_div,
    'lt': _cmp(jx.s_lt), 'le': _cmp(jx.s_le), 'gt': _cmp(lambda a, b: jx.s_lt(b, a)), 'ge': _cmp(lambda a, b: jx.s_le(b, a)),
    'eq': _cmp(jx.s_eq), 'ne': _cmp(jx.s_eq, negate=True),
    'select_n': _nv_select, 'convert_element_type': _nv_convert,
    'stop_gradient': lambda ctx, P_, a: a, 'copy': lambda ctx, P_, a: a, 'copy_p': lambda ctx, P_, a: a,
}


def _nv_clamp(ctx, P_, lo, x, hi):
    return NVOPS['min'](ctx, P_, NVOPS['max'](ctx, P_, x, lo), hi)


def _nv_ipow(ctx, P_, a):
    y = P_['y']
    if y < 0:
        raise jx.JXError('nan-tracking: negative integer_pow')
    r = 1.0
    for _ in range(y):
        r = NVOPS['mul'](ctx, P_, r, a)
    return nv(r)


NVOPS.update({'clamp': _nv_clamp, 'integer_pow': _nv_ipow, 'square': lambda ctx, P_, a: NVOPS['mul'](ctx, P_, a, a)})
# reductions (np.min / np.max / np.sum of a bracket array): the shared reduction loop with the nan-tracking binary op
NVRED = {'reduce_min': ('min', None), 'reduce_max': ('max', None), 'reduce_sum': ('add', 0.0)}
STRUCT = ('slice', 'squeeze', 'broadcast_in_dim', 'reshape', 'transpose', 'rev', 'expand_dims', 'concatenate')


def uf_term(ctx, name, order, x):
    """the solver variable standing for the order-th derivative of `name` at the (finite) real term x; hash-consed in
    ctx.ufs so that jx.ackermann(ctx) yields the congruence axioms"""
    key = ('uf', name, order, jx.term_key(x))
    if key not in ctx.ufs:
        v = ctx.fresh('%s%d' % (name, order))
        ctx.ufs[key] = (v, 'uf:%s:%d' % (name, order), [toz(x)])
    return ctx.ufs[key][0]


def _nv_uf(ctx, eqn, iv):
    name, order = eqn.params['name'], eqn.params['order']
    impl = getattr(ctx, 'uf_impl', {}).get((name, order))

    def f(a):
        a = nv(a)
        if a.n is True:
            return NV(0.0, True)
        if impl is not None:
            g = jx.ground_num(ctx, toz(a.r)) if isz(a.r) else a.r
            if g is None:
                raise jx.JXError('ground uf argument did not reduce')
            return NV(rat(impl(fractions.Fraction(g))), a.n)
        v = uf_term(ctx, name, order, a.r)
        ctx.uf_argflag = getattr(ctx, 'uf_argflag', {})
        ctx.uf_argflag[v.get_id()] = a.n
        return NV(v, a.n)     # f(non-finite) is non-finite; f, f' are finite at finite arguments (assumption)
    return jx.ew(f, iv[0])


def _nv_cond(ctx, eqn, iv):
    i = iv[0].reshape(-1)[0]
    if num(i):
        return NotImplemented
    brs = eqn.params['branches']
    if len(brs) != 2:
        raise jx.JXError('nan-tracking cond with %d branches' % len(brs))
    ops = iv[1:]
    c = z3.simplify(toz(i) == 1)
    outs = []
    for k, b in enumerate(brs):
        ctx.guards.append(c if k == 1 else z3.Not(c))
        try:
            outs.append(jx.eval_jaxpr(ctx, b.jaxpr, b.consts, *ops))
        finally:
            ctx.guards.pop()
    return [jx.ew(lambda a0, a1: nv_ite(c, a1, a0), o0, o1) for o0, o1 in zip(outs[0], outs[1])]


def _dispatch(p, ctx, eqn, iv):
    if p in ('while', 'scan') or p in jx.CALLS:
        return NotImplemented
    if p == 'cond':
        return _nv_cond(ctx, eqn, iv)
    if p == 'vf_uf':
        return _nv_uf(ctx, eqn, iv)
    if not _has_nv(iv):
        return NotImplemented
    f = NVOPS.get(p)
    if f is not None:
        return jx.ew(lambda *a: f(ctx, eqn.params, *a), *iv)
    if p in STRUCT:
        return jx.OTHER[p](ctx, eqn, iv)
    if p in NVRED:
        op, init = NVRED[p]
        return jx._reduce(lambda a, b: NVOPS[op](ctx, eqn.params, a, b), init)(ctx, eqn, iv)
    raise jx.JXError('C17 nan-tracking mode has no rule for primitive %s' % p)


class NVHooks(dict):
    """every primitive is offered to the nan-tracking dispatcher first"""

    def __contains__(self, p):
        return True

    def __getitem__(self, p):
        return functools.partial(_dispatch, p)


def nv_ctx(ground=False):
    ctx = jx.Ctx(ground=ground)
    ctx.hooks = NVHooks()
    return ctx


def box(x):
    a = onp.empty((), dtype=object)
    a[()] = x
    return a


def unbox(a):
    return a[()] if isinstance(a, onp.ndarray) else a


# =========================================================================================== traced programs
def _rt(f, x0, b0, b1, xtol, rtol, maxit):
    S = _S()
    return S.rtsafe_(f, x0, jnp.array([b0, b1]), S.Settings(maxit, xtol, rtol))


EX = (0.1, 0.0, 1.0, 1e-3, 1e-3)
INAMES = ('x0', 'b0', 'b1', 'xtol', 'rtol', 'maxit')


def trace_rtsafe(f=None):
    f = f or (lambda x: jx.uf(x, 'f', 0))
    return jax.make_jaxpr(lambda x0, b0, b1, xt, rt, mi: _rt(f, x0, b0, b1, xt, rt, mi))(*[jnp.float64(v) for v in EX], jnp.int64(5))


def top_while(cj):
    idx = [k for k, e in enumerate(cj.jaxpr.eqns) if e.primitive.name == 'while']
    if len(idx) != 1 or len(jx.find_eqns(cj.jaxpr, 'while')) != 1:
        raise jx.JXError('expected exactly one top-level while equation in rtsafe_, found %s' % idx)
    return idx[0], cj.jaxpr.eqns[idx[0]]


def fresh_like(ctx, eqn, prefix):
    """fresh symbolic carry of the while equation: floats -> NV(Real, Bool), bool -> Bool, int -> Int"""
    Pm = eqn.params
    n0 = Pm['cond_nconsts'] + Pm['body_nconsts']
    vs = eqn.invars[n0:]
    if len(vs) != len(CARRY):
        raise jx.JXError('carry layout of rtsafe_ changed: %d components' % len(vs))
    out = []
    for nm, v in zip(CARRY, vs):
        k = onp.dtype(v.aval.dtype).kind
        if v.aval.shape != ():
            raise jx.JXError('non-scalar carry component %s' % nm)
        if k == 'f':
            out.append(box(NV(z3.Real('%s%s' % (prefix, nm)), z3.Bool('%s%s_nan' % (prefix, nm)))))
        elif k == 'b':
            out.append(box(z3.Bool('%s%s' % (prefix, nm))))
        else:
            out.append(box(z3.Int('%s%s' % (prefix, nm))))
    kinds = ''.join(onp.dtype(v.aval.dtype).kind for v in vs)
    if kinds != 'fffffffbi':
        raise jx.JXError('carry dtypes of rtsafe_ changed: %s' % kinds)
    return out


class Enc:
    """symbolic encoding of rtsafe_ (nan-tracking) with the loop replaced according to `loop`:
       ('contract',)  result = init if the loop condition is false at entry, else a fresh EXIT carry
       ('unroll', K)  K real bodies (claim restricted to max_iters <= K by the caller)"""

    def __init__(self, loop=('contract',), tracer=None, extra_in=(), ctx=None, inp=None, tag='E_'):
        """ctx / inp: share the solver context (and so the applications of f) and the input terms with another encoding"""
        self.ctx = ctx or nv_ctx()
        self.cj = (tracer or trace_rtsafe)()
        self.loop = loop
        self.tag = tag
        self.inp = {}
        args = []
        names = tuple(extra_in) + INAMES
        for nm in names:
            if nm == 'maxit':
                v = inp[nm] if inp else z3.Int(nm)
                args.append(box(v))
            else:
                v = inp[nm] if inp else z3.Real(nm)
                args.append(box(NV(v, False)))
            self.inp[nm] = v
        saved_mode = self.ctx.while_mode.get('default')
        self.ctx.while_mode['default'] = ('hook', self._hook)
        self.states = []
        self.conds = []
        self.outs = jx.eval_jaxpr(self.ctx, self.cj.jaxpr, self.cj.consts, *args)
        if saved_mode is not None:
            self.ctx.while_mode['default'] = saved_mode

    def cond(self, carry):
        return tob(unbox(jx.eval_jaxpr(self.ctx, self.cj_cond.jaxpr, self.cj_cond.consts, *self.cc, *carry)[0]))

    def body(self, carry):
        return jx.eval_jaxpr(self.ctx, self.cj_body.jaxpr, self.cj_body.consts, *self.bc, *carry)

    def _hook(self, ctx, eqn, cc, bc, carry):
        Pm = eqn.params
        self.eqn, self.cc, self.bc, self.init = eqn, cc, bc, list(carry)
        self.cj_cond, self.cj_body = Pm['cond_jaxpr'], Pm['body_jaxpr']
        c0 = self.cond(carry)
        if self.loop[0] == 'contract':
            self.exit = fresh_like(ctx, eqn, self.tag)
            self.c0 = c0
            return [box(nv_ite(c0, unbox(e), unbox(i0))) for e, i0 in zip(self.exit, carry)]
        K = self.loop[1]
        states, conds = [list(carry)], [c0]
        for k in range(K):
            ctx.guards.append(conds[-1])
            try:
                states.append(self.body(states[-1]))
            finally:
                ctx.guards.pop()
            conds.append(self.cond(states[-1]))
        self.states, self.conds = states, conds
        res = states[K]
        for k in range(K - 1, -1, -1):
            res = [box(nv_ite(conds[k], unbox(r), unbox(s))) for r, s in zip(res, states[k])]
        return res

    # ---- naming
    def carry_dict(self, carry):
        return {nm: unbox(v) for nm, v in zip(CARRY, carry)}

    def model_inputs(self, carries=()):
        """name -> z3 term, for reading a model: inputs, the named carries and every application of f"""
        d = dict(self.inp)
        for pre, c in carries:
            for nm, v in zip(CARRY, c):
                v = unbox(v)
                if isinstance(v, NV):
                    d[pre + nm] = toz(v.r) if isz(v.r) else v.r
                    d[pre + nm + '_nan'] = v.n
                else:
                    d[pre + nm] = v
        for k, (var, name, a) in enumerate(self.ctx.ufs.values()):
            d['uf%02d_id' % k] = name
            d['uf%02d_x' % k] = a[0]
            d['uf%02d_y' % k] = var
            d['uf%02d_argnan' % k] = getattr(self.ctx, 'uf_argflag', {}).get(var.get_id(), False)
        return d

    def side(self):
        return self.ctx.all_side()


# =========================================================================================== dual-evaluation algebra
class SymEnv:
    """goal formulas over NV values / z3 terms"""
    concrete = False

    def __init__(self, ctx):
        self.ctx = ctx

    def R(self, v):
        return nv(v).r

    def N(self, v):
        return nv(v).n

    def f(self, x, order=0, name='f'):
        x = nv(x)
        return NV(uf_term(self.ctx, name, order, x.r), x.n)

    def eqg(self, a, b):
        return EQ(self, a, b)


class ConEnv:
    """the same formulas over python floats (nan = non-finite) with a concrete f"""
    concrete = True

    def __init__(self, fns):
        self.fns = fns     # (name, order) -> python callable float -> float

    def R(self, v):
        v = float(v)
        return v if math.isfinite(v) else 0.0

    def N(self, v):
        return not math.isfinite(float(v))

    def f(self, x, order=0, name='f'):
        x = float(x)
        if not math.isfinite(x):
            return float('nan')
        return float(self.fns[(name, order)](x))

    def eqg(self, a, b):
        """equality in a *goal*, evaluated in floats: tolerant in favour of the code under test"""
        if self.N(a) or self.N(b):
            return False
        a, b = float(a), float(b)
        return abs(a - b) <= 1e-9 * (abs(a) + abs(b)) + 1e-300


def FIN(E, *vs):
    return v_and(*[v_not(E.N(v)) for v in vs])


def LT(E, a, b):
    return v_and(v_not(E.N(a)), v_not(E.N(b)), v_lt(E.R(a), E.R(b)))


def LE(E, a, b):
    return v_and(v_not(E.N(a)), v_not(E.N(b)), v_le(E.R(a), E.R(b)))


def EQ(E, a, b):
    return v_and(v_not(E.N(a)), v_not(E.N(b)), v_eq(E.R(a), E.R(b)))


def ABS(E, a):
    if E.concrete:
        return abs(float(a))
    a = nv(a)
    return NV(v_abs(a.r), a.n)


def MUL(E, a, b):
    if E.concrete:
        return float(a) * float(b)
    a, b = nv(a), nv(b)
    return NV(v_mul(a.r, b.r), b_or(a.n, b.n))


def ADD(E, a, b):
    if E.concrete:
        return float(a) + float(b)
    a, b = nv(a), nv(b)
    return NV(sym.v_add(a.r, b.r), b_or(a.n, b.n))


def SUB(E, a, b):
    if E.concrete:
        return float(a) - float(b)
    a, b = nv(a), nv(b)
    return NV(v_sub(a.r, b.r), b_or(a.n, b.n))


def DIV(E, a, b):
    if E.concrete:
        a, b = float(a), float(b)
        return a / b if b != 0 else float('nan')
    a, b = nv(a), nv(b)
    return NV(toz(a.r) / toz(b.r), b_or(a.n, b.n, toz(b.r) == 0))


def MIN(E, a, b):
    if E.concrete:
        return min(float(a), float(b)) if not (E.N(a) or E.N(b)) else float('nan')
    a, b = nv(a), nv(b)
    return NV(v_min(a.r, b.r), b_or(a.n, b.n))


def MAX(E, a, b):
    if E.concrete:
        return max(float(a), float(b)) if not (E.N(a) or E.N(b)) else float('nan')
    a, b = nv(a), nv(b)
    return NV(v_max(a.r, b.r), b_or(a.n, b.n))


def BETWEEN(E, x, a, b):
    """min(a,b) <= x <= max(a,b)"""
    return v_and(LE(E, MIN(E, a, b), x), LE(E, x, MAX(E, a, b)))


def bracket_facts(E, I):
    fb0, fb1 = E.f(I['b0']), E.f(I['b1'])
    BR = LT(E, MUL(E, fb0, fb1), 0.0)                    # strict sign change over the bracket
    EP = v_or(EQ(E, fb0, 0.0), EQ(E, fb1, 0.0))          # an end point is a root
    return fb0, fb1, BR, EP


def inv(E, I, C):
    """the loop invariant as named conjuncts. I: inputs (b0, b1, xtol, rtol, maxit), C: carry dict"""
    fb0, fb1, BR, EP = bracket_facts(E, I)
    BE = v_or(BR, EP)
    lo, hi = MIN(E, I['b0'], I['b1']), MAX(E, I['b0'], I['b1'])
    root, dx, dxo, F, DF, xl, xh, conv, i = [C[k] for k in CARRY]
    NAN = v_and(E.N(root), E.N(F), E.N(DF), v_not(conv))
    EPC = v_and(conv, EQ(E, F, 0.0), v_or(EQ(E, root, I['b0']), EQ(E, root, I['b1'])))
    IN = v_and(BR, v_not(EP))     # the only states in which the loop runs: strict sign change, no end-point root
    why = v_or(LT(E, ABS(E, dx), I['xtol']), LT(E, ABS(E, F), I['rtol']), E.eqg(F, 0.0))
    return [
        ('counter_within_cap', v_and(v_le(0, i), v_le(i, v_max(I['maxit'], 0)))),
        ('unbracketed_state_is_nan_and_unconverged', IMP(v_not(BE), NAN)),
        ('bracketed_state_is_finite', IMP(BE, FIN(E, root, dx, dxo, F, DF, xl, xh))),
        ('carried_residual_is_f_and_slope_at_iterate', IMP(BE, v_and(E.eqg(F, E.f(root)), E.eqg(DF, E.f(root, 1))))),
        ('iterate_in_original_bracket', IMP(BE, v_and(LE(E, lo, root), LE(E, root, hi)))),
        ('endpoint_root_state_is_converged_at_that_end', IMP(EP, EPC)),
        ('f_negative_at_xl', IMP(IN, LT(E, E.f(xl), 0.0))),
        ('f_nonnegative_at_xh', IMP(IN, LE(E, 0.0, E.f(xh)))),
        ('iterate_between_xl_and_xh', IMP(IN, BETWEEN(E, root, xl, xh))),
        ('xl_xh_in_original_bracket', IMP(IN, v_and(LE(E, lo, xl), LE(E, xl, hi), LE(E, lo, xh), LE(E, xh, hi)))),
        ('converged_only_by_tolerance_or_exact_root', IMP(v_and(BE, conv), why)),
    ]


class IMP:
    """goal `h => c`; the hypothesis becomes the `when` of the query so that the vacuity twin covers it"""

    def __init__(self, h, c):
        self.h, self.c = h, c


def hyp_of(g):
    return g.h if isinstance(g, IMP) else True


def concl_of(g):
    return g.c if isinstance(g, IMP) else g


def as_bool(g):
    return v_implies(g.h, g.c) if isinstance(g, IMP) else g


def conj(named):
    return v_and(*[as_bool(c) for _, c in named])


def atom(n, g, when=True):
    return Holds(concl_of(g), when=v_and(when, hyp_of(g)), name=n)


# =========================================================================================== concrete side: Hermite f, real code
def hermite(nodes):
    """C1 piecewise-cubic Hermite interpolant through nodes [(x, y, dy|None)] (distinct x). Piece i is expanded about its
    left node x_i and used on [x_i, x_{i+1}), so that *every* node is reproduced exactly in floating point: value, and
    (through jax.grad) slope. Linear continuation outside the hull. Missing slopes are filled with secant slopes."""
    Fr = fractions.Fraction
    nd = sorted([(Fr(x), Fr(y), None if d is None else Fr(d)) for x, y, d in nodes], key=lambda t: t[0])
    n = len(nd)
    X = [t[0] for t in nd]
    Y = [t[1] for t in nd]
    D = []
    for i, (x, y, d) in enumerate(nd):
        if d is None:
            if n == 1:
                d = Fr(1)
            elif i == 0:
                d = (Y[1] - Y[0]) / (X[1] - X[0])
            elif i == n - 1:
                d = (Y[-1] - Y[-2]) / (X[-1] - X[-2])
            else:
                d = (Y[i + 1] - Y[i - 1]) / (X[i + 1] - X[i - 1])
        D.append(d)
    C2, C3 = [], []
    for i in range(n - 1):
        hh = X[i + 1] - X[i]
        dl = (Y[i + 1] - Y[i]) / hh
        C2.append((3 * dl - 2 * D[i] - D[i + 1]) / hh)
        C3.append((D[i] + D[i + 1] - 2 * dl) / (hh * hh))
    Xf, Yf, Df = [float(v) for v in X], [float(v) for v in Y], [float(v) for v in D]
    C2f, C3f = [float(v) for v in C2], [float(v) for v in C3]

    def f(x):
        r = Yf[0] + Df[0] * (x - Xf[0])
        for i in range(n):
            s_ = x - Xf[i]
            if i < n - 1:
                p_ = Yf[i] + s_ * (Df[i] + s_ * (C2f[i] + s_ * C3f[i]))
            else:
                p_ = Yf[i] + s_ * Df[i]
            r = jnp.where(x >= Xf[i], p_, r)
        return r
    f.nodes = [(Xf[i], Yf[i], Df[i]) for i in range(n)]
    return f


def triples_from_model(vals, name='f'):
    """(x, f, f') triples of the solver model for the uninterpreted function `name` (applications with a flagged, i.e.
    non-finite, argument are dropped; a node whose slope does not occur in the model gets None)"""
    by = {}
    k = 0
    while 'uf%02d_id' % k in vals:
        ident = vals['uf%02d_id' % k]
        x, y, fl = vals['uf%02d_x' % k], vals['uf%02d_y' % k], vals['uf%02d_argnan' % k]
        k += 1
        _, nm, order = ident.split(':')
        if nm != name or fl:
            continue
        x = float(x)
        e = by.setdefault(x, [None, None])
        if e[int(order)] is None:
            e[int(order)] = float(y)
    nodes = []
    for x, (y, d) in by.items():
        if y is None:
            y = 0.0          # only the slope occurs in the model: any value will do
        nodes.append((x, y, d))
    if not nodes:
        nodes = [(0.0, 1.0, None)]
    return nodes


class RealCode:
    """the real rtsafe_ re-traced from the source with a concrete f; its prologue / loop body / epilogue can be executed
    separately (jax.core.eval_jaxpr = the real primitives on floats), or the whole function end to end"""

    def __init__(self, f):
        self.f = f
        self.vg = jax.value_and_grad(f)
        self.cj = trace_rtsafe(f)
        self.idx, self.eqn = top_while(self.cj)
        Pm = self.eqn.params
        self.ncc, self.nbc = Pm['cond_nconsts'], Pm['body_nconsts']
        self.bj, self.cjc = Pm['body_jaxpr'], Pm['cond_jaxpr']

    @staticmethod
    def args(I):
        return [jnp.float64(I['x0']), jnp.float64(I['b0']), jnp.float64(I['b1']), jnp.float64(I['xtol']), jnp.float64(I['rtol']), jnp.int64(int(I['maxit']))]

    def prologue(self, I):
        j = self.cj.jaxpr
        sub = j.replace(outvars=list(self.eqn.invars), eqns=j.eqns[:self.idx])
        with jax.disable_jit():
            vals = jax.core.eval_jaxpr(sub, self.cj.consts, *self.args(I))
        return vals[:self.ncc], vals[self.ncc:self.ncc + self.nbc], vals[self.ncc + self.nbc:]

    def body(self, bc, carry):
        with jax.disable_jit():
            return jax.core.eval_jaxpr(self.bj.jaxpr, self.bj.consts, *bc, *carry)

    def loop_cond(self, cc, carry):
        with jax.disable_jit():
            return bool(jax.core.eval_jaxpr(self.cjc.jaxpr, self.cjc.consts, *cc, *carry)[0])

    def whole(self, I):
        with jax.disable_jit():
            x, info = _rt(self.f, *self.args(I))
        return dict(x=float(x), converged=bool(info.converged), iterations=int(info.iterations), function_calls=int(info.function_calls),
                    residual_norm=float(info.residual_norm), correction_norm=float(info.correction_norm))

    def find_root(self, x0, lo, hi, settings=None):
        S = _S()
        with jax.disable_jit():
            x, info = S.find_root(self.f, x0, jnp.array([lo, hi]), settings or S.get_settings())
        return float(x), info

    def env(self):
        g = jax.grad(self.f)
        return ConEnv({('f', 0): lambda x: float(self.f(jnp.float64(x))), ('f', 1): lambda x: float(g(jnp.float64(x)))})


def carry_floats(vals, pre):
    out = {}
    for nm in CARRY:
        v = vals[pre + nm]
        if nm == 'converged':
            out[nm] = bool(v)
        elif nm == 'i':
            out[nm] = int(v)
        else:
            out[nm] = float('nan') if vals.get(pre + nm + '_nan') else float(v)
    return out


def carry_to_jax(C):
    return [jnp.float64(C[k]) for k in CARRY[:7]] + [jnp.bool_(C['converged']), jnp.int64(C['i'])]


def carry_from_jax(vs):
    d = {}
    for nm, v in zip(CARRY, vs):
        d[nm] = bool(v) if nm == 'converged' else int(v) if nm == 'i' else float(v)
    return d


def inputs_floats(vals):
    I = {k: float(vals[k]) for k in INAMES[:5]}
    I['maxit'] = int(vals['maxit'])
    return I


# =========================================================================================== common harness parts
def common(h):
    S = _S()
    h.encoded(S.rtsafe_, S.find_root, S.bisection_step, S.newton_step)
    h.bounds('f: an arbitrary function with an arbitrary derivative (uninterpreted: f(x), f\'(x) are free reals at every evaluation point, equal arguments give equal values)',
             'bracket end points, initial guess, x_tol, r_tol: all finite reals (any order of the bracket, guess inside or outside, tolerances of any sign); max_iters: all integers')
    h.outside('convergence within max_iters (how many iterations are needed): the claim is "NaN only if the bracket has no strict sign change and no end-point root, or the iteration cap is exhausted"',
              'continuity of f is what turns "sign change inside the returned bracket" into "a root is inside": not encoded, f is uninterpreted',
              'the newtonDecreasingSlowly safeguard only affects speed and is not part of the contract; SolutionInfo.function_calls (the constant 3: loop evaluations are not counted) is not claimed',
              'non-finite inputs (guess, bracket, tolerances); overflow to infinity; rounding (the bisection/Newton `x == xl`/`x == temp` stagnation tests are encoded over the reals, where they mean dx == 0)')
    h.assume_note('nan-tracking mode: nan literals and division by a zero denominator set a non-finite flag (0/0 and x/0 conflated), arithmetic propagates it, ordered comparisons and == with a flagged operand are false, != true',
                  'f and f\' are finite at every finite argument and non-finite at a non-finite argument')


def structure_fact(h, enc):
    eq = enc.eqn
    h.fact('structure[while carry of rtsafe_ = (root, dx, dxOld, F, DF, xl, xh, converged, i)]', True,
           '%d carry components, %d cond consts, %d body consts; cond/body jaxprs of the real while equation are the transition relation'
           % (len(enc.init), eq.params['cond_nconsts'], eq.params['body_nconsts']), nontrivial=False)


_POLYS = [
    # (coefficients high->low as exact fractions, x0, b0, b1, xtol, rtol, maxit)
    ([1, 0, 0, fractions.Fraction(-3, 10)], 0.1, 0.0, 1.0, 1e-3, 0.0, 8),        # x^3 - 0.3, Newton + bisection
    ([1, 0, 0, fractions.Fraction(-3, 10)], 5.0, 1.0, 0.0, 1e-3, 0.0, 8),        # reversed bracket, guess outside
    ([1, 0, 0, 0], 0.0, -1.0, 1.0, 1e-3, 0.0, 6),                                # x^3 at its flat root: -0/0
    ([1, 0, fractions.Fraction(1, 2)], 0.3, -1.0, 1.0, 1e-3, 0.0, 4),            # x^2 + 1/2: not bracketed -> nan
    ([1, fractions.Fraction(-1, 2)], 0.9, 0.5, 2.0, 1e-3, 0.0, 5),               # left end point is the root
    ([1, fractions.Fraction(-2, 1)], 0.9, 0.5, 2.0, 1e-3, 0.0, 5),               # right end point is the root
    ([-1, 0, fractions.Fraction(1, 4)], 0.1, 0.0, 2.0, 1e-9, 1e-2, 3),           # decreasing, r_tol exit / cap exhausted
]


def _poly(cs):
    def f(x):
        r = fractions.Fraction(0)
        for c in cs:
            r = r * x + fractions.Fraction(c)
        return r

    def df(x):
        n = len(cs) - 1
        r = fractions.Fraction(0)
        for k, c in enumerate(cs[:-1]):
            r = r * x + fractions.Fraction(c) * (n - k)
        return r
    return f, df


def validate_translation(h, cj):
    """translator validation of the nan-tracking interpreter: the uf-traced jaxpr is run on ground NV values (exact
    rationals + flags, concrete polynomial f) and compared with the real rtsafe_ on the same polynomial"""
    worst = 0.0
    for cs, x0, b0, b1, xt, rt_, mi in _POLYS:
        f, df = _poly([fractions.Fraction(c) for c in cs])
        ctx = nv_ctx(ground=True)
        ctx.uf_impl = {('f', 0): f, ('f', 1): df}

        def hook(ctx_, eqn, cc, bc, carry):
            Pm = eqn.params
            cjc, cjb = Pm['cond_jaxpr'], Pm['body_jaxpr']
            for _ in range(1000):
                c = unbox(jx.eval_jaxpr(ctx_, cjc.jaxpr, cjc.consts, *cc, *carry)[0])
                c = _gb(ctx_, c) if isz(c) else bool(c)
                if not c:
                    return list(carry)
                carry = jx.eval_jaxpr(ctx_, cjb.jaxpr, cjb.consts, *bc, *carry)
            raise jx.JXError('ground loop did not terminate')
        ctx.while_mode['default'] = ('hook', hook)
        args = [box(NV(rat(v), False)) for v in (x0, b0, b1, xt, rt_)] + [box(mi)]
        outs = [unbox(o) for o in jx.eval_jaxpr(ctx, cj.jaxpr, cj.consts, *args)]
        fl = [float(c) for c in cs]
        real = RealCode(lambda x: functools.reduce(lambda r, c: r * x + c, fl[1:], 0 * x + fl[0])).whole(dict(x0=x0, b0=b0, b1=b1, xtol=xt, rtol=rt_, maxit=mi))
        got = []
        for o in outs:
            if isinstance(o, NV):
                got.append(float('nan') if o.n else float(jx.ground_num(ctx, toz(o.r)) if isz(o.r) else o.r))
            else:
                g = jx.ground_num(ctx, o) if isz(o) else o
                got.append(g)
        exp = [real['x'], real['converged'], real['iterations'], real['function_calls'], real['residual_norm'], real['correction_norm']]
        for g, e in zip(got, exp):
            if isinstance(e, bool):
                ok = bool(g) == e
            elif isinstance(e, int):
                ok = int(g) == e
            elif math.isnan(e) or (isinstance(g, float) and math.isnan(g)):
                ok = math.isnan(e) and isinstance(g, float) and math.isnan(g)
            else:
                err = abs(float(g) - e) / (1.0 + abs(e))
                worst = max(worst, err)
                ok = err <= 1e-9
            if not ok:
                raise jx.JXError('translator validation failed (nan-tracking): JX %r vs real %r for case %r' % (got, exp, (cs, x0, b0, b1)))
    h.fact('translator_validation[rtsafe_ nan-tracking]', True,
           'max rel err %.2e on %d ground runs (Newton+bisection, reversed bracket, clipped guess, -0/0, unbracketed nan, end-point roots, cap exhausted)' % (worst, len(_POLYS)), nontrivial=False)


def prove_all(h, group, assumes, named, inputs, concrete_named, cap=60, when=True, order=('core', 'nlsat')):
    """one query per named goal. concrete_named(vals) -> (assumptions_hold, [(name, bool)...], when_bool, info)"""
    for k, (n, c) in enumerate(named):
        def concrete(vals, k=k):
            ok, cn, cw, info = concrete_named(vals)
            return ok, atom(cn[k][0], cn[k][1], when=cw), info
        h.prove(group + n, assumes, atom(n, c, when=when), inputs=inputs, concrete=concrete, cap=cap, order=order)


def finite_inputs_note(h):
    h.assume_note('inputs are finite reals (flags of x0, bracket, tolerances are false)')


# =========================================================================================== O1 base
@obligation(P, 'O1.base', cap=200)
def o1(h):
    """after the prologue the carry satisfies the invariant, for every f, bracket (either order), guess and settings"""
    common(h)
    finite_inputs_note(h)
    enc = Enc()
    structure_fact(h, enc)
    validate_translation(h, enc.cj)
    E = SymEnv(enc.ctx)
    I = {k: (NV(v, False) if k != 'maxit' else v) for k, v in enc.inp.items()}
    C0 = enc.carry_dict(enc.init)
    named = list(inv(E, I, C0))
    # extras that only hold at the start

    def extras(E, I, C0):
        fb0, fb1, BR, EP = bracket_facts(E, I)
        root, xl, xh, conv, i = C0['root'], C0['xl'], C0['xh'], C0['converged'], C0['i']
        ordered = LE(E, I['b0'], I['b1'])
        inner = v_and(BR, v_not(EP))
        return [
            ('iterate_is_nan_iff_no_sign_change_and_no_endpoint_root', v_eq(E.N(root), v_not(v_or(BR, EP)))),
            ('strict_signs_and_bracket_is_the_input_bracket', IMP(inner, v_and(
                LT(E, E.f(xl), 0.0), LT(E, 0.0, E.f(xh)), v_not(conv),
                v_or(v_and(EQ(E, xl, I['b0']), EQ(E, xh, I['b1'])), v_and(EQ(E, xl, I['b1']), EQ(E, xh, I['b0'])))))),
            ('guess_inside_is_kept', IMP(v_and(inner, LE(E, I['b0'], I['x0']), LE(E, I['x0'], I['b1'])), EQ(E, root, I['x0']))),
            ('guess_below_is_clipped_to_lower_end', IMP(v_and(inner, ordered, LT(E, I['x0'], I['b0'])), EQ(E, root, I['b0']))),
            ('guess_above_is_clipped_to_upper_end', IMP(v_and(inner, ordered, LT(E, I['b1'], I['x0'])), EQ(E, root, I['b1']))),
            ('reversed_bracket_guess_lands_on_an_end_point', IMP(v_and(inner, LT(E, I['b1'], I['b0'])), v_or(EQ(E, root, I['b0']), EQ(E, root, I['b1'])))),
            ('endpoint_root_is_start_and_converged', IMP(EP, v_and(conv, v_or(v_and(EQ(E, fb1, 0.0), EQ(E, root, I['b1'])),
                                                                                 v_and(v_not(EQ(E, fb1, 0.0)), EQ(E, root, I['b0'])))))),
            ('counter_starts_at_zero', v_eq(i, 0)),
        ]
    named += extras(E, I, C0)
    inputs = enc.model_inputs()

    def concrete_named(vals):
        Iv = inputs_floats(vals)
        rc = RealCode(hermite(triples_from_model(vals)))
        cc, bc, c0 = rc.prologue(Iv)
        Cr = carry_from_jax(c0)
        Ec = rc.env()
        cn = list(inv(Ec, Iv, Cr)) + extras(Ec, Iv, Cr)
        return True, cn, True, dict(inputs=Iv, f_nodes=rc.f.nodes, real_initial_carry=Cr, how='real prologue of rtsafe_ executed on the Hermite interpolant of the model')
    prove_all(h, '', enc.side(), named, inputs, concrete_named)


# =========================================================================================== O2 step
def step_setup(h):
    enc = Enc()
    E = SymEnv(enc.ctx)
    I = {k: (NV(v, False) if k != 'maxit' else v) for k, v in enc.inp.items()}
    C = fresh_like(enc.ctx, enc.eqn, '')
    Cn = enc.body(C)
    Cd, Cnd = enc.carry_dict(C), enc.carry_dict(Cn)
    return enc, E, I, C, Cn, Cd, Cnd


def step_goals(E, I, Cd, Cnd):
    fb0, fb1, BR, EP = bracket_facts(E, I)
    BE = v_or(BR, EP)
    finite_next = IMP(BE, FIN(E, Cnd['root'], Cnd['dx']))
    inside = IMP(BE, BETWEEN(E, Cnd['root'], Cd['xl'], Cd['xh']))
    # the conjunct "end-point root => converged there" has an unreachable hypothesis while the loop runs (it would be a
    # vacuous query): it is replaced by the stronger "no end point is a root while the loop runs"
    others = [('inv.' + n, c) for n, c in inv(E, I, Cnd) if n != 'endpoint_root_state_is_converged_at_that_end']
    others += [
        ('inv.no_endpoint_root_while_looping', v_not(EP)),
        ('new_bracket_nested_in_old', IMP(BE, v_and(BETWEEN(E, Cnd['xl'], Cd['xl'], Cd['xh']), BETWEEN(E, Cnd['xh'], Cd['xl'], Cd['xh'])))),
        ('new_iterate_is_an_end_of_new_bracket', IMP(BE, v_or(EQ(E, Cnd['root'], Cnd['xl']), EQ(E, Cnd['root'], Cnd['xh'])))),
        ('one_end_point_kept', IMP(BE, v_or(EQ(E, Cnd['xl'], Cd['xl']), EQ(E, Cnd['xh'], Cd['xh'])))),
        ('new_iterate_is_newton_point_or_midpoint', IMP(BE, v_or(
            EQ(E, Cnd['root'], ADD(E, Cd['xl'], MUL(E, 0.5, SUB(E, Cd['xh'], Cd['xl'])))),
            EQ(E, Cnd['root'], ADD(E, Cd['root'], DIV(E, SUB(E, 0.0, Cd['F']), Cd['DF'])))))),
        ('counter_incremented', v_eq(Cnd['i'], v_sub(Cd['i'], -1))),
        ('previous_step_recorded', IMP(BE, EQ(E, Cnd['dxOld'], Cd['dx']))),
    ]
    return finite_next, inside, others


def step_concrete(vals, pre=''):
    """replay of a step counterexample: the real loop body (re-traced from the source with the Hermite f of the model) is
    executed on the model's carry; additionally the real find_root is called end to end from (x0 = iterate, bracket = (xl, xh))"""
    Iv = inputs_floats(vals)
    Cm = carry_floats(vals, pre)
    rc = RealCode(hermite(triples_from_model(vals)))
    Ec = rc.env()
    Cr = dict(Cm)
    if math.isfinite(Cm['root']):
        Fv, DFv = rc.vg(jnp.float64(Cm['root']))     # exactly what the code carries: F, DF = f_and_fprime(root)
        Cr['F'], Cr['DF'] = float(Fv), float(DFv)
    bc = [jnp.float64(Iv['xtol']), jnp.float64(Iv['rtol'])]
    cc = [jnp.int64(Iv['maxit'])]
    assumptions = bool(conj(inv(Ec, Iv, Cr))) and rc.loop_cond(cc, carry_to_jax(Cr))
    Cn = carry_from_jax(rc.body(bc, carry_to_jax(Cr)))
    info = dict(settings=dict(x_tol=Iv['xtol'], r_tol=Iv['rtol'], max_iters=Iv['maxit']), original_bracket=[Iv['b0'], Iv['b1']],
                f_nodes_x_f_df=rc.f.nodes, carry=Cr, carry_after_real_body=Cn,
                how='real loop body of rtsafe_ (jaxpr re-traced from the source with f = Hermite interpolant of the model) executed on the carry')
    try:
        if math.isfinite(Cr['root']):
            # the carry (root, f(root), f'(root)) is what the prologue produces for x0 = root on the original bracket
            lo, hi = Iv['b0'], Iv['b1']
            x, inf = rc.find_root(Cr['root'], lo, hi)
            info['end_to_end'] = dict(call='ScalarRootFind.find_root(f, x0=%r, bracket=[%r, %r], get_settings())' % (Cr['root'], lo, hi),
                                      f_lo=Ec.f(lo), f_hi=Ec.f(hi), f_x0=Ec.f(Cr['root']), df_x0=Ec.f(Cr['root'], 1),
                                      result=x, converged=bool(inf.converged), iterations=int(inf.iterations))
    except Exception as e:  # pragma: no cover
        info['end_to_end'] = 'failed: %s' % e
    return Iv, Cr, Cn, Ec, assumptions, info


@obligation(P, 'O2.step', cap=240)
def o2(h):
    """Inv and the loop condition imply Inv after one execution of the real loop body, for any value/slope of f at the new
    iterate. The finiteness of the new iterate is its own query; the other conjuncts are proved given that lemma."""
    common(h)
    finite_inputs_note(h)
    enc, E, I, C, Cn, Cd, Cnd = step_setup(h)
    structure_fact(h, enc)
    finite_next, inside, others = step_goals(E, I, Cd, Cnd)
    hyp = [conj(inv(E, I, Cd)), enc.cond(C)]
    assumes = enc.side() + hyp      # side(): congruence of f over every application, computed after all terms exist
    inputs = enc.model_inputs([('', C)])

    def conc_finite(vals):
        Iv, Cr, Cn_, Ec, ok, info = step_concrete(vals)
        fn, _, _ = step_goals(Ec, Iv, Cr, Cn_)
        return ok, atom('iterate_stays_finite', fn), info
    h.prove('iterate_stays_finite', assumes, atom('iterate_stays_finite', finite_next), inputs=inputs, concrete=conc_finite, cap=60,
            note='bracketed carry => the new iterate and the step are finite (no 0/0 in the Newton step)')

    # the complement, so that the gap above is known to be exactly "iterate at a root with zero slope" and any OTHER way of
    # producing a non-finite iterate is still caught once the query above is a known finding
    flat = v_and(EQ(E, Cd['F'], 0.0), EQ(E, Cd['DF'], 0.0))

    def conc_finite2(vals):
        Iv, Cr, Cn_, Ec, ok, info = step_concrete(vals)
        fn, _, _ = step_goals(Ec, Iv, Cr, Cn_)
        return ok, atom('iterate_finite_unless_at_root_with_zero_slope', fn, when=not (Cr['F'] == 0.0 and Cr['DF'] == 0.0)), info
    h.prove('iterate_finite_unless_at_root_with_zero_slope', assumes, atom('iterate_finite_unless_at_root_with_zero_slope', finite_next, when=v_not(flat)),
            inputs=inputs, concrete=conc_finite2, cap=60)

    def conc_inside(vals):
        Iv, Cr, Cn_, Ec, ok, info = step_concrete(vals)
        fn, ins, _ = step_goals(Ec, Iv, Cr, Cn_)
        return ok, atom('new_iterate_inside_old_bracket', ins, when=bool(as_bool(fn))), info
    h.prove('new_iterate_inside_old_bracket', assumes, atom('new_iterate_inside_old_bracket', inside, when=as_bool(finite_next)), inputs=inputs, concrete=conc_inside,
            cap=60, order=('nlsat', 'core'), note='Newton accepted only if it lands in the current bracket (the newtonOutOfRange product test), else bisection')

    def concrete_named(vals):
        Iv, Cr, Cn_, Ec, ok, info = step_concrete(vals)
        fn, ins, oth = step_goals(Ec, Iv, Cr, Cn_)
        return ok, oth, bool(as_bool(fn)) and bool(as_bool(ins)), info
    h.assume_note('cut lemmas: O2 goals other than iterate_stays_finite are proved under the lemma "the new iterate is finite" (exactly the goal of O2.step/iterate_stays_finite); '
                  'the goals after new_iterate_inside_old_bracket additionally use that goal as a lemma')
    prove_all(h, '', assumes, others, inputs, concrete_named, when=v_and(as_bool(finite_next), as_bool(inside)))


# =========================================================================================== O3 exit / O4 whole function
def out_dict(outs):
    x, conv, iters, ncalls, res, cor = [unbox(o) for o in outs]
    return dict(x=x, converged=conv, iterations=iters, function_calls=ncalls, residual_norm=res, correction_norm=cor)


def exit_goals(E, I, O, finite_claim=True):
    fb0, fb1, BR, EP = bracket_facts(E, I)
    BE = v_or(BR, EP)
    lo, hi = MIN(E, I['b0'], I['b1']), MAX(E, I['b0'], I['b1'])
    x, conv, it, res, cor = O['x'], O['converged'], O['iterations'], O['residual_norm'], O['correction_norm']
    g = [
        ('converged_result_is_finite_and_in_bracket', IMP(conv, v_and(LE(E, lo, x), LE(E, x, hi)))),
        ('converged_meets_tolerance_or_exact_root', IMP(conv, v_or(LT(E, cor, I['xtol']), LT(E, res, I['rtol']), E.eqg(res, 0.0)))),
        ('reported_residual_is_abs_f_at_result', IMP(conv, E.eqg(res, ABS(E, E.f(x))))),
        ('converged_implies_bracketed', IMP(conv, BE)),
        ('not_converged_returns_nan', IMP(v_not(conv), E.N(x))),
        ('unbracketed_returns_nan', IMP(v_not(BE), v_and(E.N(x), v_not(conv)))),
        ('iterations_within_cap', v_and(v_le(0, it), v_le(it, v_max(I['maxit'], 0)))),
    ]
    if finite_claim:
        g.append(('nan_only_if_unbracketed_or_cap_exhausted', IMP(E.N(x), v_or(v_not(BE), v_and(v_not(conv), v_le(I['maxit'], it))))))
    return g


def whole_concrete(vals, goals, **kw):
    Iv = inputs_floats(vals)
    rc = RealCode(hermite(triples_from_model(vals)))
    O = rc.whole(Iv)
    return True, goals(rc.env(), Iv, O, **kw), True, dict(inputs=Iv, f_nodes_x_f_df=rc.f.nodes, real_outputs=O, how='real rtsafe_ executed end to end on the Hermite interpolant of the model')


@obligation(P, 'O3.exit', cap=200)
def o3(h):
    """Inv and a false loop condition imply the output contract (the real epilogue applied to an arbitrary exit carry)"""
    common(h)
    finite_inputs_note(h)
    enc = Enc(('contract',))
    structure_fact(h, enc)
    E = SymEnv(enc.ctx)
    I = {k: (NV(v, False) if k != 'maxit' else v) for k, v in enc.inp.items()}
    Cx = enc.carry_dict(enc.exit)
    O = out_dict(enc.outs)
    h.assume_note('exit obligations take the invariant for granted at loop exit; its inductiveness is O1 + O2, whose only open goal is O2.step/iterate_stays_finite')
    named = exit_goals(E, I, O)
    hyp = [z3.Implies(enc.c0, z3.And(tob(conj(inv(E, I, Cx))), z3.Not(enc.cond(enc.exit))))]
    assumes = enc.side() + hyp
    inputs = enc.model_inputs([('E_', enc.exit)])
    prove_all(h, '', assumes, named, inputs, lambda vals: whole_concrete(vals, exit_goals))


def endpoint_goals(E, I, O):
    fb0, fb1, BR, EP = bracket_facts(E, I)
    x, conv, it = O['x'], O['converged'], O['iterations']
    z0, z1 = EQ(E, fb0, 0.0), EQ(E, fb1, 0.0)
    return [
        ('right_endpoint_root_returned_exactly', IMP(z1, v_and(EQ(E, x, I['b1']), conv, v_eq(it, 0)))),
        ('left_endpoint_root_returned_exactly', IMP(v_and(z0, v_not(z1)), v_and(EQ(E, x, I['b0']), conv, v_eq(it, 0)))),
        ('endpoint_root_reports_zero_residual', IMP(v_or(z0, z1), EQ(E, O['residual_norm'], 0.0))),
        ('no_sign_change_no_endpoint_root_is_nan_for_any_guess_and_settings', IMP(v_not(v_or(BR, EP)), v_and(E.N(x), v_not(conv)))),
        ('zero_iteration_cap_returns_nan_unless_endpoint_root', IMP(v_and(v_le(I['maxit'], 0), v_not(EP)), v_and(E.N(x), v_not(conv), v_eq(it, 0)))),
    ]


@obligation(P, 'O4.endpoints_reversed_clip', cap=200)
def o4(h):
    """end-point roots are returned exactly without iterating (either bracket order, any guess); nothing else converges at
    entry; the loop is an arbitrary state transformer here except for the NaN claim which uses the invariant"""
    common(h)
    finite_inputs_note(h)
    enc = Enc(('contract',))
    E = SymEnv(enc.ctx)
    I = {k: (NV(v, False) if k != 'maxit' else v) for k, v in enc.inp.items()}
    Cx = enc.carry_dict(enc.exit)
    O = out_dict(enc.outs)
    h.assume_note('the unbracketed-NaN goal of O4 uses the invariant at loop exit (conjunct unbracketed_state_is_nan_and_unconverged, proved inductive in O1/O2); the other O4 goals hold for an arbitrary loop')
    named = endpoint_goals(E, I, O)
    hyp = [z3.Implies(enc.c0, z3.And(tob(conj(inv(E, I, Cx))), z3.Not(enc.cond(enc.exit))))]
    assumes = enc.side() + hyp
    inputs = enc.model_inputs([('E_', enc.exit)])
    prove_all(h, '', assumes, named, inputs, lambda vals: whole_concrete(vals, endpoint_goals))


# =========================================================================================== O6 bounded unrolling (cross-check without invariant)
def _unroll(h, K, cap):
    enc = Enc(('unroll', K))
    E = SymEnv(enc.ctx)
    I = {k: (NV(v, False) if k != 'maxit' else v) for k, v in enc.inp.items()}
    O = out_dict(enc.outs)
    named = [(n, c) for n, c in exit_goals(E, I, O, finite_claim=False) + endpoint_goals(E, I, O)]
    assumes = enc.side() + [enc.inp['maxit'] <= K]
    inputs = enc.model_inputs()

    def both(E_, I_, O_):
        return exit_goals(E_, I_, O_, finite_claim=False) + endpoint_goals(E_, I_, O_)
    prove_all(h, 'K%d.' % K, assumes, named, inputs, lambda vals: whole_concrete(vals, both), cap=cap, order=('nlsat', 'core'))


@obligation(P, 'O6.bounded_unroll', cap=300)
def o6(h):
    """the real loop unrolled K times (max_iters <= K), no invariant: output contract end to end"""
    common(h)
    finite_inputs_note(h)
    h.bounds('O6: max_iters <= 1 (quick), <= 2 and <= 3 (thorough); everything else as above')
    h.outside('O6 does not claim finiteness of the result for a bracketed start (that is the claim isolated in O2.step/iterate_stays_finite)')
    _unroll(h, 1, 40)
    if h.thorough():
        _unroll(h, 2, 120)
        _unroll(h, 3, 120)


# =========================================================================================== O5 derivative (implicit function theorem)
FAMILIES = {
    # name -> (f(x, theta) built from uninterpreted functions, uf names with their argument: 'x' | 't' | 'xt')
    'separable': (lambda x, t: jx.uf(x, 'g', 0) * jx.uf(t, 'h', 0) + jx.uf(t, 'k', 0), 'f = g(x) h(theta) + k(theta)'),
    'composite': (lambda x, t: jx.uf(x * t, 'u', 0) + jx.uf(x, 'm', 0), 'f = u(x theta) + m(x)'),
}


def _partials(E, fam, x, t):
    """(f, f_x, f_theta) at (x, theta) in terms of the uninterpreted functions' values and slopes"""
    if fam == 'separable':
        g0, g1 = E.f(x, 0, 'g'), E.f(x, 1, 'g')
        h0, h1, k0, k1 = E.f(t, 0, 'h'), E.f(t, 1, 'h'), E.f(t, 0, 'k'), E.f(t, 1, 'k')
        return ADD(E, MUL(E, g0, h0), k0), MUL(E, g1, h0), ADD(E, MUL(E, g0, h1), k1)
    xt = MUL(E, x, t)
    u0, u1, m0, m1 = E.f(xt, 0, 'u'), E.f(xt, 1, 'u'), E.f(x, 0, 'm'), E.f(x, 1, 'm')
    return ADD(E, u0, m0), ADD(E, MUL(E, u1, t), m1), MUL(E, u1, x)


def _grad_fn(fam_f):
    S = _S()

    def fn(theta, x0, b0, b1, xt, rt, mi):
        x, info = S.find_root(lambda x: fam_f(x, theta), x0, jnp.array([b0, b1]), S.Settings(mi, xt, rt))
        return x
    return fn


def ift_goals(E, fam, theta, x, d):
    f, fx, ft = _partials(E, fam, x, theta)
    ok = v_and(FIN(E, x), v_not(EQ(E, fx, 0.0)))
    # d * f_x == -f_theta  (no division in the oracle)
    if E.concrete:
        lhs, rhs = float(d) * float(fx), -float(ft)
        eq = (not E.N(d)) and abs(lhs - rhs) <= 1e-7 * (abs(lhs) + abs(rhs)) + 1e-12
    else:
        eq = EQ(E, MUL(E, d, fx), SUB(E, 0.0, ft))
    return ok, [('derivative_finite', IMP(ok, FIN(E, d))), ('derivative_equals_minus_f_theta_over_f_x', IMP(ok, eq)),
                ('nan_root_has_nan_derivative', IMP(E.N(x), E.N(d)))]


def endpoint_ift_goals(E, fam, theta, x, d, b0, b1):
    """an end point of the bracket is an exact root of f(., theta): it is returned and the derivative is still the IFT value"""
    z0 = EQ(E, _partials(E, fam, b0, theta)[0], 0.0)
    z1 = EQ(E, _partials(E, fam, b1, theta)[0], 0.0)
    ok, g = ift_goals(E, fam, theta, x, d)
    fin_, eq_ = concl_of(g[0][1]), concl_of(g[1][1])
    right, left = z1, v_and(z0, v_not(z1))
    return [
        ('right_end_root.returned', IMP(right, E.eqg(x, b1))),
        ('right_end_root.derivative_is_ift_value', IMP(v_and(right, ok), v_and(fin_, eq_))),
        ('left_end_root.returned', IMP(left, E.eqg(x, b0))),
        ('left_end_root.derivative_is_ift_value', IMP(v_and(left, ok), v_and(fin_, eq_))),
    ]


def _slope_at(nodes, x):
    for x_, y_, d_ in nodes:
        if x_ == x:
            return d_
    return None


def o5_realise(vals, fam, endpoint):
    """concrete g, h, k (resp. u, m) realising the decisive quantities of the solver model on a problem the REAL solver
    returns a root of: the model's values/slopes of the uninterpreted functions at theta, at the returned root r and at the
    clipped initial guess are kept (so f_x(r), f_x(guess), f_theta(r) are the model's), and
      * r is made an exact root in floating point: k(theta) := -fl(g(r) h(theta)), resp. m(r) := -u(r theta)
        (end-point queries: r = the end the model has the root at; interior queries: r = the model's loop result; there the
        model's exit carry is a contract value, so f(r) = 0 is imposed here and NOT taken from the model);
      * interior queries only: the VALUES at the other nodes (bracket ends, clipped guess; slopes untouched) are replaced
        by -+M on the two sides of r, so that r is the only sign change of the interpolant on the bracket.
    Returns (fns, description)."""
    th = float(vals['theta'])
    b0, b1, x0 = float(vals['b0']), float(vals['b1']), float(vals['x0'])
    names = {'separable': ('g', 'h', 'k'), 'composite': ('u', 'm')}[fam]
    nodes = {n: triples_from_model(vals, name=n) for n in names}
    fns = {n: hermite(nodes[n]) for n in names}
    x0c = min(b1, max(b0, x0))          # np.clip(x0, b0, b1) as the code computes it

    def other(x):       # the part of f(x, theta) that is not the adjustable constant: g(x)h(theta), resp. u(x theta)
        if fam == 'separable':
            return float(fns['g'](x)) * float(fns['h'](th))
        return float(fns['u'](x * th))

    def rest(x):
        return float(fns['k'](th)) if fam == 'separable' else float(fns['m'](x))
    r = None
    if endpoint:
        cand = []
        for b in (b1, b0):
            a_, c_ = other(b), rest(b)
            cand.append((abs(a_ + c_) / (abs(a_) + abs(c_) + 1e-30), b))
        cand.sort(key=lambda t: t[0])
        if cand[0][0] < 1e-6:
            r = cand[0][1]
    elif not vals.get('E_root_nan') and math.isfinite(float(vals['E_root'])) and int(vals['maxit']) >= 1:
        r = float(vals['E_root'])
    desc = dict(root_realised=r, clipped_guess=x0c)
    if r is None:
        return fns, desc
    adj = 'k' if fam == 'separable' else 'm'
    at = th if fam == 'separable' else r
    zero_val = -other(r)
    nodes[adj] = [(x_, (zero_val if x_ == at else y_), d_) for x_, y_, d_ in nodes[adj]]
    if not any(x_ == at for x_, _, _ in nodes[adj]):
        nodes[adj].append((at, zero_val, None))
    fns[adj] = hermite(nodes[adj])
    desc['exact_root'] = dict(function=adj, at=at, value=zero_val)
    if not endpoint and min(b0, b1) < r < max(b0, b1):
        # slope of f in x at r and at the guess, from the model
        if fam == 'separable':
            hth = float(fns['h'](th))
            sl = lambda x: (_slope_at(nodes['g'], x) or 0.0) * hth
            umax = 0.0
        else:
            sl = lambda x: th * (_slope_at(nodes['u'], x * th) or 0.0) + (_slope_at(nodes['m'], x) or 0.0)
            umax = max([abs(y_) for _, y_, _ in fns['u'].nodes] + [abs(d_ * th) * (abs(b1 - b0) + 1.0) for _, _, d_ in fns['u'].nodes])
        sgn = 1.0 if sl(r) >= 0 else -1.0
        span = abs(b1 - b0) + abs(x0c - r) + 1.0
        M = 10.0 * (1.0 + abs(sl(r)) + abs(sl(x0c))) * span + 10.0 * umax
        others = sorted({x for x in (b0, b1, x0c) if x != r})
        tgt = {x: sgn * (1.0 if x > r else -1.0) * M for x in others}
        fn_name = 'g' if fam == 'separable' else 'm'
        keep = {r: (float(fns[fn_name](r)), _slope_at(nodes[fn_name], r))}
        new = [(r,) + keep[r]]
        for x in others:
            if fam == 'separable':
                v = (tgt[x] - float(fns['k'](th))) / hth
            else:
                v = tgt[x] - float(fns['u'](x * th))
            new.append((x, v, _slope_at(nodes[fn_name], x) if x == x0c else None))
        nodes[fn_name] = new
        fns[fn_name] = hermite(new)
        desc['steered_values'] = dict(function=fn_name, M=M, nodes=new)
    return fns, desc


def o5_concrete(vals, fam, fam_f, text, goals, endpoint=False):
    """jax.grad through the REAL find_root, called with the real settings constructor on the MODEL's x_tol, r_tol (and
    max_iters), on the family's formula with the uninterpreted functions replaced by the interpolants of o5_realise"""
    S = _S()
    th = float(vals['theta'])
    b0, b1, x0 = float(vals['b0']), float(vals['b1']), float(vals['x0'])
    xtol, rtol, maxit = float(vals['xtol']), float(vals['rtol']), int(vals['maxit'])
    names = {'separable': ('g', 'h', 'k'), 'composite': ('u', 'm')}[fam]
    fns, desc = o5_realise(vals, fam, endpoint)
    # end-point roots converge before the loop: the model's cap is used as is. Interior: the derivative rule does not read
    # max_iters; the cap is raised (never lowered) so that the forward solve returns a root for the model's tolerances
    cap = maxit if endpoint or desc.get('root_realised') in (b0, b1) else max(maxit, 200)

    def conc_uf(x, name='f', order=0):
        assert order == 0
        return fns[name](x)
    real_uf = jx.uf
    jx.uf = conc_uf
    try:
        f2 = lambda x, t: fam_f(x, t)
        sett = S.get_settings(max_iters=cap, x_tol=xtol, r_tol=rtol)

        def root_of(t):
            return S.find_root(lambda x: f2(x, t), x0, jnp.array([b0, b1]), sett)[0]
        xr, dr = jax.value_and_grad(root_of)(jnp.float64(th))
        xr, dr = float(xr), float(dr)
        cfn = {}
        for n in names:
            cfn[(n, 0)] = (lambda n: lambda v: float(fns[n](jnp.float64(v))))(n)
            cfn[(n, 1)] = (lambda n: lambda v: float(jax.grad(fns[n])(jnp.float64(v))))(n)
        Ec = ConEnv(cfn)
        cn = goals(Ec, th, xr, dr, b0, b1)
        fin = math.isfinite(xr)
        fx = float(jax.grad(f2, 0)(jnp.float64(xr), jnp.float64(th))) if fin else float('nan')
        ft = float(jax.grad(f2, 1)(jnp.float64(xr), jnp.float64(th))) if fin else float('nan')
        x0c = desc['clipped_guess']
        fx_guess = float(jax.grad(f2, 0)(jnp.float64(x0c), jnp.float64(th)))
    finally:
        jx.uf = real_uf
    return True, cn, True, dict(theta=th, x0=x0, bracket=[b0, b1], settings=dict(max_iters=cap, x_tol=xtol, r_tol=rtol, model_max_iters=maxit),
                                real_root=xr, real_grad=dr, f_x_at_root=fx, f_theta_at_root=ft, f_x_at_clipped_guess=fx_guess, ift=(-ft / fx if fx else None),
                                nodes={n: fns[n].nodes for n in names}, realisation=desc,
                                how='jax.grad through the real find_root(f, x0, bracket, get_settings(max_iters, x_tol, r_tol)) on %s with interpolants realising the model' % text)


@obligation(P, 'O5.derivative', cap=200)
def o5(h):
    """jax.grad through find_root (custom_root tangent solve y/g(1.0)) equals -f_theta/f_x at the returned point; the
    forward loop is an arbitrary state transformer (fresh exit carry inside the bracket), so the identity holds for
    whatever is returned; separately: an end point that is an exact root is returned and has the IFT derivative"""
    common(h)
    finite_inputs_note(h)
    h.bounds('O5: two families of functions of (x, theta) built from uninterpreted C1 functions: g(x)h(theta)+k(theta) and u(x theta)+m(x); all values and slopes are free reals; f_x != 0 at the returned point',
             'O5 interior queries: bracket ordered with a strict sign change of f(., theta) (only so that a counterexample can be replayed on a run that returns a root); the loop result is any point of the bracket (invariant conjunct iterate_in_original_bracket) or NaN',
             'O5 end-point queries: f(b, theta) == 0 exactly at an end b of the bracket (either end, either bracket order, any guess and settings); no loop contract is involved (the loop does not run)')
    h.bounds('O5: x_tol, r_tol, max_iters are symbolic inputs of the traced grad(find_root) (a derivative rule that reads the settings is encoded as such); a counterexample is replayed by calling the real '
             'find_root with get_settings(max_iters, x_tol, r_tol) built from the model\'s values (interior roots: the cap is raised to >= 200, never lowered, so that the forward solve returns a root) on interpolants '
             'that keep the model\'s values and slopes of the uninterpreted functions at theta, at the returned root and at the clipped initial guess')
    h.outside('O5: second and higher derivatives; vector-valued parameters (theta is one real; linearity of the rule in the direction is JAX\'s)')
    for fam, (fam_f, text) in FAMILIES.items():
        fn = _grad_fn(fam_f)
        tracer = lambda fn=fn: jax.make_jaxpr(jax.value_and_grad(fn))(jnp.float64(0.3), *[jnp.float64(v) for v in EX], jnp.int64(5))
        enc = Enc(('contract',), tracer=tracer, extra_in=('theta',))
        E = SymEnv(enc.ctx)
        x, d = unbox(enc.outs[0]), unbox(enc.outs[1])
        theta = NV(enc.inp['theta'], False)
        b0, b1 = NV(enc.inp['b0'], False), NV(enc.inp['b1'], False)
        ok, named = ift_goals(E, fam, theta, x, d)
        named_end = endpoint_ift_goals(E, fam, theta, x, d, b0, b1)
        # replayability: the problem is bracketed (strict sign change, ordered bracket), so that the real run returns a root
        br = v_and(LT(E, MUL(E, _partials(E, fam, b0, theta)[0], _partials(E, fam, b1, theta)[0]), 0.0), LT(E, b0, b1))
        er = nv(unbox(enc.exit[0]))
        in_bracket = z3.Implies(enc.c0, tob(v_or(er.n, BETWEEN(E, er, b0, b1))))
        inputs = enc.model_inputs([('E_', enc.exit)])
        side = enc.side()
        prove_all(h, fam + '.', side + [br, in_bracket], named, inputs,
                  lambda vals, fam=fam, fam_f=fam_f, text=text: o5_concrete(vals, fam, fam_f, text, lambda Ec, th, xr, dr, b0_, b1_: ift_goals(Ec, fam, th, xr, dr)[1]),
                  order=('nlsat', 'core'))
        prove_all(h, fam + '.', side, named_end, inputs,
                  lambda vals, fam=fam, fam_f=fam_f, text=text: o5_concrete(vals, fam, fam_f, text, lambda Ec, th, xr, dr, b0_, b1_: endpoint_ift_goals(Ec, fam, th, xr, dr, b0_, b1_), endpoint=True),
                  order=('nlsat', 'core'))


# =========================================================================================== O7 orientation symmetry, Newton acceptance
def _negf(x):
    return -jx.uf(x, 'f', 0)


def SAME(E, a, b):
    return v_or(v_and(E.N(a), E.N(b)), E.eqg(a, b))


def NEG(E, a):
    if E.concrete:
        return -float(a)
    a = nv(a)
    return NV(-toz(a.r) if isz(a.r) else -a.r, a.n)


def mirror(E, C):
    """the same state seen with -f: residual and slope negated, the ends of the sign-oriented bracket swapped"""
    M = dict(C)
    M['F'], M['DF'], M['xl'], M['xh'] = NEG(E, C['F']), NEG(E, C['DF']), C['xh'], C['xl']
    return M


def beq(a, b):
    if num(a) and num(b):
        return bool(a) == bool(b)
    return tob(a) == tob(b)


def prologue_symmetry_goals(E, I, C, Cm, Cr):
    """C: start carry for (f, [b0,b1]); Cm: for (-f, [b0,b1]); Cr: for (f, [b1,b0])"""
    fb0, fb1, BR, EP = bracket_facts(E, I)
    nz = v_and(FIN(E, fb0), v_not(EQ(E, fb0, 0.0)))
    IN = v_and(BR, v_not(EP))
    return [
        ('prologue.negated_function_same_start', IMP(nz, v_and(SAME(E, C['root'], Cm['root']), SAME(E, C['dx'], Cm['dx']), SAME(E, C['dxOld'], Cm['dxOld']),
                                                                 beq(C['converged'], Cm['converged']), v_eq(C['i'], Cm['i'])))),
        ('prologue.negated_function_mirrors_residual', IMP(nz, v_and(SAME(E, C['F'], NEG(E, Cm['F'])), SAME(E, C['DF'], NEG(E, Cm['DF']))))),
        ('prologue.negated_function_swaps_bracket_ends', IMP(nz, v_and(EQ(E, C['xl'], Cm['xh']), EQ(E, C['xh'], Cm['xl'])))),
        ('prologue.reversed_bracket_same_oriented_bracket', IMP(IN, v_and(EQ(E, C['xl'], Cr['xl']), EQ(E, C['xh'], Cr['xh']), EQ(E, C['dx'], Cr['dx']),
                                                                         EQ(E, C['dxOld'], Cr['dxOld']), beq(C['converged'], Cr['converged'])))),
    ]


def step_function_goals(E, C, Cn, Cmn):
    """C: any finite carry; Cn: after one real body with f; Cmn: after one real body with -f from mirror(C)"""
    fin = FIN(E, *[C[k] for k in CARRY[:7]])
    root, F, DF, xl, xh, dxo = C['root'], C['F'], C['DF'], C['xl'], C['xh'], C['dxOld']
    dfnz = v_not(EQ(E, DF, 0.0))
    step = DIV(E, NEG(E, F), DF)
    xN = ADD(E, root, step)
    lo, hi = MIN(E, xl, xh), MAX(E, xl, xh)
    strictly_inside = v_and(LT(E, lo, xN), LT(E, xN, hi))
    outside = v_or(LT(E, xN, lo), LT(E, hi, xN))
    slow = LT(E, ABS(E, MUL(E, dxo, DF)), ABS(E, MUL(E, 2.0, F)))
    half = MUL(E, 0.5, SUB(E, xh, xl))
    mid = ADD(E, xl, half)
    fnz = v_not(EQ(E, Cn['F'], 0.0))
    return [
        ('step.mirror_same_new_iterate', IMP(fin, E.eqg(Cn['root'], Cmn['root']))),
        ('step.mirror_same_step_size_and_flags', IMP(fin, v_and(E.eqg(ABS(E, Cn['dx']), ABS(E, Cmn['dx'])), E.eqg(Cn['dxOld'], Cmn['dxOld']),
                                                                  beq(Cn['converged'], Cmn['converged']), v_eq(Cn['i'], Cmn['i'])))),
        ('step.mirror_negated_residual', IMP(fin, v_and(E.eqg(Cn['F'], NEG(E, Cmn['F'])), E.eqg(Cn['DF'], NEG(E, Cmn['DF']))))),
        ('step.mirror_new_bracket_is_the_swap', IMP(v_and(fin, fnz), v_and(E.eqg(Cn['xl'], Cmn['xh']), E.eqg(Cn['xh'], Cmn['xl'])))),
        ('step.newton_taken_when_strictly_inside_either_order_and_fast', IMP(v_and(fin, dfnz, strictly_inside, v_not(slow)),
                                                                               v_and(E.eqg(Cn['root'], xN), E.eqg(Cn['dx'], step)))),
        ('step.bisection_taken_only_otherwise', IMP(v_and(fin, v_or(v_not(dfnz), outside, slow)), v_and(E.eqg(Cn['root'], mid), E.eqg(Cn['dx'], half)))),
    ]


@obligation(P, 'O7.orientation_symmetry_newton_acceptance', cap=240)
def o7(h):
    """one real loop step, pinned as a function of the carry: (i) it commutes with f -> -f (residual/slope negated, ends of
    the sign-oriented bracket swapped): same new iterate, |dx|, flags, swapped new bracket; same at the prologue, and
    the reversed input bracket gives the same oriented bracket; (ii) the Newton point is taken exactly when it lies
    strictly between xl and xh IN EITHER ORDER with DF != 0 and |2F| <= |dxOld DF|, the midpoint only otherwise"""
    common(h)
    finite_inputs_note(h)
    h.bounds('O7 step queries: ANY finite carry (root, dx, dxOld, F, DF, xl, xh of any order, converged, i) - the invariant is not assumed; the value/slope of f at the new iterate are free',
             'O7 prologue queries: all finite inputs; f(bracket[0]) != 0 for the f -> -f queries (at an end-point root both runs converge with the same unswapped bracket), strict sign change without end-point root for the reversed bracket')
    h.outside('O7: a Newton point exactly on an end of the bracket (product test == 0: accepted by the code, left open by the acceptance goals); '
              'the swap of the new bracket when the new residual is exactly 0 (the tie F == 0 goes to xh for f and for -f)')
    enc = Enc()
    encm = Enc(tracer=lambda: trace_rtsafe(_negf), ctx=enc.ctx, inp=enc.inp, tag='M_')
    encr = Enc(ctx=enc.ctx, inp=dict(enc.inp, b0=enc.inp['b1'], b1=enc.inp['b0']), tag='R_')
    E = SymEnv(enc.ctx)
    I = {k: (NV(v, False) if k != 'maxit' else v) for k, v in enc.inp.items()}
    named = prologue_symmetry_goals(E, I, enc.carry_dict(enc.init), encm.carry_dict(encm.init), encr.carry_dict(encr.init))
    inputs = enc.model_inputs()

    def conc_prologue(vals):
        Iv = inputs_floats(vals)
        f = hermite(triples_from_model(vals))
        rc, rcm = RealCode(f), RealCode(lambda x: -f(x))
        C0 = carry_from_jax(rc.prologue(Iv)[2])
        Cm0 = carry_from_jax(rcm.prologue(Iv)[2])
        Cr0 = carry_from_jax(rc.prologue(dict(Iv, b0=Iv['b1'], b1=Iv['b0']))[2])
        return True, prologue_symmetry_goals(rc.env(), Iv, C0, Cm0, Cr0), True, dict(inputs=Iv, f_nodes_x_f_df=f.nodes, start_f=C0, start_minus_f=Cm0, start_reversed_bracket=Cr0,
                                                                                        how='real prologue of rtsafe_ with f, with -f, and with the reversed bracket (f = Hermite interpolant of the model)')
    prove_all(h, '', enc.side(), named, inputs, conc_prologue)

    # ---- one step from an arbitrary carry
    C = fresh_like(enc.ctx, enc.eqn, '')
    Cd = enc.carry_dict(C)
    Md = mirror(E, Cd)
    M = [box(Md[k]) for k in CARRY]
    Cn, Cmn = enc.carry_dict(enc.body(C)), encm.carry_dict(encm.body(M))
    named = step_function_goals(E, Cd, Cn, Cmn)
    inputs = enc.model_inputs([('', C)])

    def conc_step(vals):
        Iv = inputs_floats(vals)
        Cf = carry_floats(vals, '')
        f = hermite(triples_from_model(vals))
        rc, rcm = RealCode(f), RealCode(lambda x: -f(x))
        Ec = rc.env()
        bc = [jnp.float64(Iv['xtol']), jnp.float64(Iv['rtol'])]
        Cn_ = carry_from_jax(rc.body(bc, carry_to_jax(Cf)))
        Mf = mirror(Ec, Cf)
        Cmn_ = carry_from_jax(rcm.body(bc, carry_to_jax(Mf)))
        return True, step_function_goals(Ec, Cf, Cn_, Cmn_), True, dict(settings=dict(x_tol=Iv['xtol'], r_tol=Iv['rtol']), f_nodes_x_f_df=f.nodes, carry=Cf, after_real_body_with_f=Cn_,
                                                                          mirrored_carry=Mf, after_real_body_with_minus_f=Cmn_,
                                                                          how='real loop body of rtsafe_ re-traced with f and with -f (f = Hermite interpolant of the model) executed on the carry and on its mirror image')
    prove_all(h, '', enc.side(), named, inputs, conc_step, order=('nlsat', 'core'))


# =========================================================================================== O8 settings constructor passes the tolerances through
@obligation(P, 'O8.get_settings_passes_tolerances_through', cap=60)
def o8(h):
    """"every tolerance setting": the public settings constructor is part of how a tolerance is requested. The REAL
    `get_settings` is run on symbolic numbers whose truth value is their real Python truth value (x != 0, so `a or b`,
    `if a:` fork instead of taking the proxy for true): the three fields of the returned Settings are the three arguments,
    in particular r_tol = 0 (residual test off) stays 0 and is not replaced by another tolerance (PX)"""
    from .. import px
    S = _S()
    h.encoded(S.get_settings)
    h.bounds('max_iters any integer, x_tol and r_tol any reals (including 0 and negative values); one call')

    class TruthReal(px.SymReal):
        def __bool__(self):
            return px.cur().branch(self.z != 0)

    def fn(ex):
        def tr(v):
            return TruthReal(v.z) if px.is_sym(v) else v
        mi, xt, rt = tr(ex.int('max_iters')), tr(ex.real('x_tol')), tr(ex.real('r_tol'))
        st = S.get_settings(mi, xt, rt)
        U = px.unwrap
        from ..sym import Eq
        ex.goal('max_iters_field_is_argument', Eq(U(st.max_iters), U(mi)))
        ex.goal('x_tol_field_is_argument', Eq(U(st.x_tol), U(xt)))
        ex.goal('r_tol_field_is_argument', Eq(U(st.r_tol), U(rt)))
        st2 = S.get_settings(x_tol=xt, r_tol=rt)
        ex.goal('keyword_call_r_tol_field_is_argument', Eq(U(st2.r_tol), U(rt)))
        ex.goal('keyword_call_x_tol_field_is_argument', Eq(U(st2.x_tol), U(xt)))
    px.run_px(h, 'get_settings', fn, cap=20, expect_goals=['max_iters_field_is_argument', 'x_tol_field_is_argument', 'r_tol_field_is_argument'])
    d = S.get_settings()
    h.fact('defaults_are_50_1e-13_0', (d.max_iters, d.x_tol, d.r_tol) == (50, 1e-13, 0), detail=repr(tuple(d)))
