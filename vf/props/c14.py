"""C14 — degree-of-freedom bookkeeping is a lossless partition for every BC set (PX on the REAL DofManager source,
padded-array model of NumPy boolean-mask indexing).

Symbolic run: the source text of optimism/FunctionSpace.py is executed (px.load_module) and, in the loaded namespace only,
`onp` (numpy) and `np` (jax.numpy) are replaced by the shims `ONP` / `JNP` below whose arrays are `PA` objects: arrays of
fixed *capacity* whose entries are z3 terms (Bool / Int / Real) and whose extents may be symbolic integers.  No statement
of DofManager is rewritten; every method runs as written: `a[mask]` is a compress by prefix counts, `a[idx] = v` a
guarded scatter, `tile/.T/ravel` act on symbolic n x n blocks, `a[b:e] = v` is a slice assignment with symbolic offsets,
`x.at[mask].set(v)` the jax functional update.  Every condition under which numpy/jax would raise (length agreement of a
masked/sliced/scattered assignment, index bounds) is a goal (`numpy_operations_defined`) and is then assumed.
Node-set membership of every essential BC is a vector of free Booleans, so `isBc` is a fully symbolic mask (empty, full,
overlapping and repeated node sets included; O1/O2 additionally take node sets as index arrays of symbolic length with
arbitrary — repeated, unordered — entries); field values are free reals.  The run has a single path (the code never
branches on a mask entry); z3 decides every goal for ALL masks.
Replay: the same harness builds real node sets from the model's Booleans and runs the real `FunctionSpace.DofManager`
(real numpy, real jax) — the goals are re-evaluated on its arrays.
O0 validates the padded-array model against the real DofManager on every concrete mask of the bounded mesh (ground facts:
that enumeration validates the MODEL, it is not the check).
"""
import hashlib
import itertools
import os
import types

import numpy as onp
import z3

from ..core import obligation
from .. import px, sym
from ..px import Unsupported
from ..sym import isz, Holds, Eq

P = 'C14'
REL = 'optimism/FunctionSpace.py'
DEFINED = 'numpy_operations_defined'

DESIGNED_NOT_REGISTERED = []


# ------------------------------------------------------------------------------------------ dual scalar helpers
# every helper works on symbolic values and on python numbers (ground validation of the model / constant folding).
# Symbolic INTEGERS (indices, counts, offsets) are one-hot: `OH.d` maps each possible value to the z3 Bool "has this value"
# (conditions mutually exclusive and exhaustive by construction) — index arithmetic then is purely propositional in the mask
# Booleans (measured: the COO goals are `unknown` at 60 s with z3 Int or bit-vector terms and take seconds one-hot).
class OH:
    __slots__ = ('d',)

    def __init__(self, d):
        self.d = d

    def __repr__(self):
        return 'OH{%s}' % ','.join(str(k) for k in sorted(self.d))


def num(x):
    return not isinstance(x, (z3.ExprRef, OH))


def _B(x):
    return x if isz(x) else z3.BoolVal(bool(x))


# direct constructors (z3.And / z3.Or / z3.Not spend most of their time coercing arguments; every argument here is a BoolRef of
# the main context already)
_CTX = z3.main_ctx()


def _mk_and(args):
    n = len(args)
    return z3.BoolRef(z3.Z3_mk_and(_CTX.ref(), n, (z3.Ast * n)(*[a.ast for a in args])), _CTX)


def _mk_or(args):
    n = len(args)
    return z3.BoolRef(z3.Z3_mk_or(_CTX.ref(), n, (z3.Ast * n)(*[a.ast for a in args])), _CTX)


def _mk_not(a):
    return z3.BoolRef(z3.Z3_mk_not(_CTX.ref(), a.ast), _CTX)


def b_and(*xs):
    out = []
    for x in xs:
        if not isz(x):
            if not x:
                return False
            continue
        out.append(x)
    if not out:
        return True
    return out[0] if len(out) == 1 else _mk_and(out)


def b_or(*xs):
    out = []
    for x in xs:
        if not isz(x):
            if x:
                return True
            continue
        out.append(x)
    if not out:
        return False
    return out[0] if len(out) == 1 else _mk_or(out)


def b_not(x):
    if not isz(x):
        return not bool(x)
    return _mk_not(x)


def b_implies(a, b):
    return b_or(b_not(a), b)


def b_iff(a, b):
    if not isz(a) and not isz(b):
        return bool(a) == bool(b)
    return _B(a) == _B(b)


def _oh(pairs):
    """one-hot integer from (value, condition) pairs (conditions exclusive and exhaustive): merged, pruned; an integer that
    can take one value only is returned as a python int"""
    d = {}
    for k, c in pairs:
        if not isz(c) and not c:
            continue
        d.setdefault(int(k), []).append(c)
    if len(d) == 1:
        return next(iter(d))
    if not d:
        raise Unsupported('integer with an empty set of values')
    return OH({k: b_or(*cs) for k, cs in d.items()})


def _items(a):
    return a.d.items() if isinstance(a, OH) else ((int(a), True),)


def i_add(a, b):
    if num(a) and num(b):
        return int(a) + int(b)
    if num(b):
        a, b = b, a
    if num(a):
        return b if a == 0 else OH({k + int(a): c for k, c in b.d.items()})
    return _oh([(i + j, b_and(ci, cj)) for i, ci in a.d.items() for j, cj in b.d.items()])


def i_neg(a):
    return -int(a) if num(a) else OH({-k: c for k, c in a.d.items()})


def i_sub(a, b):
    return i_add(a, i_neg(b))


def i_mulc(c, a):
    """python int c times a"""
    c = int(c)
    if num(a):
        return c * int(a)
    if c == 0:
        return 0
    return OH({c * k: cd for k, cd in a.d.items()})


def i_eq(a, b):
    if num(a) and num(b):
        return int(a) == int(b)
    if a is b:
        return True
    if num(b):
        a, b = b, a
    if num(a):
        return b.d.get(int(a), False)
    return b_or(*[b_and(c, b.d[k]) for k, c in a.d.items() if k in b.d])


def i_lt(a, b):
    if num(a) and num(b):
        return int(a) < int(b)
    if num(b):
        return b_or(*[c for k, c in a.d.items() if k < int(b)])
    if num(a):
        return b_or(*[c for k, c in b.d.items() if int(a) < k])
    return b_or(*[b_and(ci, cj) for i, ci in a.d.items() for j, cj in b.d.items() if i < j])


def i_le(a, b):
    return i_lt(a, i_add(b, 1))


def _same(a, b):
    if isz(a) and isz(b):
        return a.eq(b)
    if isinstance(a, OH) or isinstance(b, OH):
        return a is b
    if num(a) and num(b):
        return type(a) is type(b) and a == b
    return False


def ite(c, a, b, kind):
    if not isz(c):
        return a if c else b
    if _same(a, b):
        return a
    if kind == 'b':
        return z3.If(c, _B(a), _B(b))
    if kind == 'i':
        nc = _mk_not(c)
        return _oh([(k, b_and(c, x)) for k, x in _items(a)] + [(k, b_and(nc, x)) for k, x in _items(b)])
    return z3.If(c, sym.toz(a), sym.toz(b))


def select(cases, default, kind):
    """value of the first (and, by the caller's construction, ONLY) case whose condition holds, else default.
    cases: list of (condition, value) with mutually exclusive conditions"""
    cases = [(c, v) for c, v in cases if isz(c) or c]
    for c, v in cases:
        if not isz(c):          # a condition that is literally True: exclusive => it is the value
            return v
    if kind != 'i':
        r = default
        for c, v in reversed(cases):
            r = ite(c, v, r, kind)
        return r
    if not cases:
        return default
    none = b_not(b_or(*[c for c, _ in cases]))
    pairs = [(k, b_and(none, x)) for k, x in _items(default)]
    for c, v in cases:
        pairs += [(k, b_and(c, x)) for k, x in _items(v)]
    return _oh(pairs)


def i_min(a, b):
    return ite(i_le(a, b), a, b, 'i')


def i_max(a, b):
    return ite(i_le(a, b), b, a, 'i')


def count(flags):
    c = 0
    for f in flags:
        c = i_add(c, ite(f, 1, 0, 'i'))
    return c


def prefix_counts(flags):
    pre, c = [], 0
    for f in flags:
        pre.append(c)
        c = i_add(c, ite(f, 1, 0, 'i'))
    return pre, c


def table_mul(a, cap_a, b):
    """a*b by cases over the values of both factors"""
    if num(a):
        return i_mulc(a, b)
    if num(b):
        return i_mulc(b, a)
    if a is b:
        return OH({k * k: c for k, c in a.d.items()})
    return _oh([(i * j, b_and(ci, cj)) for i, ci in a.d.items() for j, cj in b.d.items()])


def _require(cond, what, exc=ValueError):
    """numpy / jax raise unless `cond`: concrete -> raise; symbolic -> a goal decided for all masks, then assumed"""
    if num(cond):
        if not cond:
            raise exc(what)
        return
    ex = px.cur()
    if ex is None:
        raise Unsupported('symbolic definedness condition outside an exploration: %s' % what)
    # decided on the spot when cheap (a VALID condition need not be carried as an assumption: the path condition stays small);
    # otherwise recorded as an ordinary goal and assumed
    s = z3.Solver()
    s.set('timeout', 10000)
    s.add(*ex.pc)
    s.add(z3.Not(cond))
    if s.check() == z3.unsat:
        ex._defproved[DEFINED] = ex._defproved.get(DEFINED, 0) + 1
        ex._defkeep.append((cond, what))
        return
    ex.goal(DEFINED, Holds(cond), info=what)
    ex.assume(cond)


KIND_DEFAULT = {'b': False, 'i': 0, 'f': 0.0}


def _kind_of_dtype(dtype):
    if isinstance(dtype, type) and issubclass(dtype, int) and dtype is not bool:
        dtype = int
    k = onp.dtype(dtype if dtype is not None else float).kind
    return {'b': 'b', 'i': 'i', 'u': 'i', 'f': 'f'}[k]


# ------------------------------------------------------------------------------------------ symbolic sizes
class SInt:
    """a non-negative integer (z3 Int term or python int) with a static upper bound `cap` (what `a.size`, `onp.sum(mask)`
    return when the length is symbolic)"""
    __array_ufunc__ = None

    def __hash__(self):
        """sizes used as dictionary keys: hash of the VALUE (equal to the hash of the python int); a symbolic size forks the
        exploration over its values first, so that hashing and the following == are exact"""
        return hash(int(self))

    def __init__(self, z, cap):
        self.z, self.cap = z, int(cap)

    @staticmethod
    def parts(o):
        if isinstance(o, SInt):
            return o.z, o.cap
        if isinstance(o, (int, onp.integer)) and not isinstance(o, bool):
            return int(o), max(int(o), 0)
        raise Unsupported('symbolic size combined with %r' % (o,))

    def __add__(self, o):
        z, c = SInt.parts(o)
        return SInt(i_add(self.z, z), self.cap + c)
    __radd__ = __add__
    __iadd__ = __add__

    def __sub__(self, o):
        z, c = SInt.parts(o)
        return SInt(i_sub(self.z, z), self.cap)

    def __rsub__(self, o):
        z, c = SInt.parts(o)
        return SInt(i_sub(z, self.z), c)

    def __mul__(self, o):
        z, c = SInt.parts(o)
        if num(z):
            return SInt(i_mulc(z, self.z), self.cap * c)
        return SInt(table_mul(self.z, self.cap, z), self.cap * c)
    __rmul__ = __mul__

    def item(self):
        return self

    def __int__(self):
        """a python int is demanded (range(), int() through C code): fork the exploration over the possible values"""
        if num(self.z):
            return int(self.z)
        ex = px.cur()
        if ex is None or not ex.symbolic:
            raise Unsupported('int() of a symbolic size outside an exploration')
        keys = sorted(self.z.d)
        for k in keys[:-1]:
            if ex.branch(self.z.d[k]):
                return k
        return keys[-1]
    __index__ = __int__

    def _cmp(self, o, f):
        z, _ = SInt.parts(o)
        r = f(self.z, z)
        return px.SymBool(r) if isz(r) else bool(r)

    def __eq__(self, o):
        return self._cmp(o, i_eq)

    def __ne__(self, o):
        return self._cmp(o, lambda a, b: b_not(i_eq(a, b)))

    def __lt__(self, o):
        return self._cmp(o, i_lt)

    def __le__(self, o):
        return self._cmp(o, i_le)

    def __gt__(self, o):
        return self._cmp(o, lambda a, b: i_lt(b, a))

    def __ge__(self, o):
        return self._cmp(o, lambda a, b: i_le(b, a))

    def __bool__(self):
        r = self != 0
        return bool(r)

    def __repr__(self):
        return 'SInt(%s <= %d)' % (self.z, self.cap)


def raw(x):
    """SInt / python int -> z3 term or python int"""
    return x.z if isinstance(x, SInt) else x


# ------------------------------------------------------------------------------------------ padded arrays
def _objarr(shape, fill):
    a = onp.empty(shape, dtype=object)
    a.fill(fill)
    return a


def _as_obj(a):
    o = onp.empty(onp.shape(a), dtype=object)
    of, af = o.reshape(-1), onp.asarray(a).reshape(-1)
    for i in range(af.size):
        v = af[i]
        of[i] = v.item() if hasattr(v, 'item') else v
    return o


class PA:
    """array of fixed capacity `data.shape` (object array of z3 terms / python values) whose extent along an axis is either
    the capacity (`ext[k] is None`, a dense axis) or a symbolic integer `ext[k]` in 0..capacity (entries beyond it are
    padding and carry no meaning). kind: 'b' bool, 'i' int, 'f' real.
    VIEWS: `data` is a numpy object array, and reshape / ravel / .T / basic indexing hand numpy's own result on (a view of the
    same buffer whenever numpy returns a view, a copy when numpy copies); every assignment writes INTO `data`, so a write
    through a view is seen by the base array exactly as in numpy."""
    __array_ufunc__ = None
    __array_priority__ = 1000
    __hash__ = None

    def __init__(self, data, kind, ext=None, ecap=None, meta=None):
        self.data = data
        self.kind = kind
        self.ext = tuple(ext) if ext is not None else (None,) * data.ndim
        # [static upper bound of the (non-negative) integer entries where known, entries were assigned from sizes (scalar reads
        # give an SInt again)] — shared between an array and its views
        self._m = meta if meta is not None else [ecap, False, None]
        self.lit = False              # wraps a concrete numpy array handed in by the caller (connectivity): usable as a plain index

    ecap = property(lambda self: self._m[0], lambda self, v: self._m.__setitem__(0, v))
    sizes = property(lambda self: self._m[1], lambda self, v: self._m.__setitem__(1, v))
    # numpy integer type the array was allocated with, when it is not the default int: stores wrap modulo its width as numpy's
    # array assignment does
    itype = property(lambda self: self._m[2], lambda self, v: self._m.__setitem__(2, v))

    def _view(self, data, ext=None):
        r = PA(data, self.kind, ext, meta=self._m)
        r.lit = self.lit
        return r

    # -- shape
    @property
    def dense(self):
        return all(e is None for e in self.ext)

    @property
    def ndim(self):
        return self.data.ndim

    def length(self, ax=0):
        """raw extent along axis ax (python int or z3 term)"""
        return self.data.shape[ax] if self.ext[ax] is None else self.ext[ax]

    @property
    def shape(self):
        return tuple(self.data.shape[k] if self.ext[k] is None else SInt(self.ext[k], self.data.shape[k]) for k in range(self.ndim))

    @property
    def size(self):
        r = 1
        for d in self.shape:
            r = d * r
        return r

    @property
    def dtype(self):
        if self.kind == 'i' and self.itype is not None:
            return self.itype
        return onp.dtype({'b': bool, 'i': int, 'f': float}[self.kind])

    def _stored(self):
        """after a store: entries of an array of a narrow integer type wrap like numpy's casting assignment"""
        if self.kind != 'i' or self.itype is None:
            return
        info = onp.iinfo(self.itype)
        lo, span = int(info.min), int(info.max) - int(info.min) + 1
        flat = self.data.reshape(-1) if self.data.flags['C_CONTIGUOUS'] else None
        it = onp.ndindex(*self.data.shape)
        for I in it:
            v = self.data[I]
            if isinstance(v, OH):
                if all(lo <= k < lo + span for k in v.d):
                    continue
                self.data[I] = _oh([((k - lo) % span + lo, c) for k, c in v.d.items()])
            elif not isz(v):
                w = (int(v) - lo) % span + lo
                if w != v:
                    self.data[I] = w

    def __len__(self):
        if self.ext[0] is not None:
            raise Unsupported('len() of an array with a symbolic extent')
        return self.data.shape[0]

    def __iter__(self):
        if self.ext[0] is None:
            return iter([self[i] for i in range(self.data.shape[0])])
        if self.ndim != 1:
            if any(e is not None for e in self.ext[1:]):
                raise Unsupported('iteration over an array with symbolic extents along trailing axes')

            def rows():
                # the loop runs `length` times: the exploration forks on "one more row"
                L = self.length()
                for p in range(self.data.shape[0]):
                    c = i_lt(p, L)
                    if isz(c):
                        c = bool(px.SymBool(c))
                    if not c:
                        return
                    yield self._view(self.data[p], (None,) * (self.ndim - 1))
            return rows()

        def gen():
            # the loop runs `length` times: the exploration forks on "one more entry"
            L = self.length()
            for p in range(self.data.shape[0]):
                c = i_lt(p, L)
                if isz(c):
                    c = bool(px.SymBool(c))
                if not c:
                    return
                yield self._scalar(self.data[p])
        return gen()

    def __repr__(self):
        return 'PA(%s, cap=%s, ext=%s)' % (self.kind, self.data.shape, self.ext)

    def _need_dense(self, what):
        if not self.dense:
            raise Unsupported('%s of an array with a symbolic extent' % what)

    def copy(self):
        r = PA(self.data.copy(), self.kind, self.ext, self.ecap)
        r.sizes = self.sizes
        r.itype = self.itype
        return r

    def to_numpy(self):
        self._need_dense('conversion to numpy')
        return onp.array(self.data.tolist(), dtype=self.dtype).reshape(self.data.shape)

    def item(self):
        self._need_dense('item()')
        if self.data.size != 1:
            raise ValueError('can only convert an array of size 1 to a Python scalar')
        return self._scalar(self.data.reshape(-1)[0])

    def _scalar(self, v):
        if self.kind == 'i' and (not num(v) or self.sizes):
            if self.ecap is None:
                raise Unsupported('integer entry without a known bound read as a scalar')
            return SInt(v, self.ecap)
        return v

    def reshape(self, *shape):
        if len(shape) == 1 and isinstance(shape[0], (tuple, list)):
            shape = tuple(shape[0])
        shape = tuple(int(x) for x in shape)
        if self.dense:
            return self._view(self.data.reshape(shape))
        if self.ext[0] is not None and all(e is None for e in self.ext[1:]) and shape and shape[0] in (-1, self.data.shape[0]) and -1 not in shape[1:]:
            # the axis of symbolic extent is kept, trailing dense axes are regrouped
            return self._view(self.data.reshape((self.data.shape[0],) + shape[1:]), (self.ext[0],) + (None,) * (len(shape) - 1))
        raise Unsupported('reshape %s -> %s of an array with a symbolic extent' % (self.data.shape, shape))

    def ravel(self):
        if self.dense or self.ndim == 1:
            return self._view(self.data.ravel(), self.ext if self.ndim == 1 else None)
        if self.ndim == 2:
            return _block_ravel(self)
        raise Unsupported('ravel of a %d-d array with symbolic extents' % self.ndim)

    @property
    def T(self):
        return self._view(self.data.T, tuple(reversed(self.ext)))

    def __invert__(self):
        if self.kind != 'b':
            raise Unsupported('~ of a non-boolean array')
        o = onp.empty(self.data.shape, dtype=object)
        of, xf = o.reshape(-1), self.data.reshape(-1)
        for i in range(xf.size):
            of[i] = b_not(xf[i])
        return PA(o, 'b', self.ext)

    def __mul__(self, c):
        if self.kind != 'i' or not isinstance(c, (int, onp.integer)) or isinstance(c, bool):
            raise Unsupported('array product other than integer array times python int')
        o = onp.empty(self.data.shape, dtype=object)
        of, xf = o.reshape(-1), self.data.reshape(-1)
        for i in range(xf.size):
            of[i] = i_mulc(c, xf[i])
        return PA(o, 'i', self.ext, None if (self.ecap is None or c < 0) else self.ecap * int(c))
    __rmul__ = __mul__

    # -- elementwise integer arithmetic / comparisons with numpy broadcasting
    def __add__(self, o):
        return _ew2(self, o, i_add, 'i', lambda x, y: None if (x is None or y is None) else x + y)
    __radd__ = __add__

    def __sub__(self, o):
        return _ew2(self, o, i_sub, 'i', lambda x, y: x)

    def __rsub__(self, o):
        return _ew2(o, self, i_sub, 'i', lambda x, y: x)

    def _real(self, o):
        return self.kind == 'f' or isinstance(o, float) or (isinstance(o, PA) and o.kind == 'f')

    def __lt__(self, o):
        return _ew2(self, o, sym.v_lt if self._real(o) else i_lt, 'b')

    def __le__(self, o):
        return _ew2(self, o, sym.v_le if self._real(o) else i_le, 'b')

    def __gt__(self, o):
        return _ew2(o, self, sym.v_lt if self._real(o) else i_lt, 'b')

    def __ge__(self, o):
        return _ew2(o, self, sym.v_le if self._real(o) else i_le, 'b')

    def __and__(self, o):
        if self.kind != 'b':
            raise Unsupported('& of a non-boolean array')
        return _ew2(self, o, lambda x, y: b_and(x, y), 'b')
    __rand__ = __and__

    def __or__(self, o):
        if self.kind != 'b':
            raise Unsupported('| of a non-boolean array')
        return _ew2(self, o, lambda x, y: b_or(x, y), 'b')
    __ror__ = __or__

    def __xor__(self, o):
        if self.kind != 'b':
            raise Unsupported('^ of a non-boolean array')
        return _ew2(self, o, lambda x, y: b_not(b_iff(x, y)), 'b')
    __rxor__ = __xor__

    def __eq__(self, o):
        return _ew2(self, o, b_iff if self.kind == 'b' else i_eq, 'b')

    def __ne__(self, o):
        return ~(self == o)

    def any(self, axis=None):
        return ONP().any(self, axis)

    def all(self, axis=None):
        return ONP().all(self, axis)

    def sum(self, axis=None):
        return ONP().sum(self, axis)

    def sort(self):
        r = _sort(self)
        self.data[...] = r.data

    def flatten(self):
        r = self.ravel()
        return r.copy()

    def tobytes(self, order='C'):
        """a hashable stand-in for the byte string of the array (used as a dict key by callers): see PAKey"""
        return PAKey(self)

    def astype(self, dtype):
        k = _kind_of_dtype(dtype)
        if k == self.kind:
            return self.copy()
        raise Unsupported('astype from %s to %s' % (self.kind, k))

    def __bool__(self):
        raise ValueError('The truth value of an array with more than one element is ambiguous. Use a.any() or a.all()')

    # -- functional update of jax arrays
    @property
    def at(self):
        return _At(self)

    # -- indexing
    def __getitem__(self, key):
        key = _norm_key(key)
        if isinstance(key, PA):
            if key.kind == 'b':
                if key.ndim == 1 and self.ndim > 1:
                    return _compress_rows(self, key)
                return _compress(self, key)
            if key.kind == 'i':
                if self.ndim == 1 and key.ndim == 1:
                    return _gather(self, key)
                return _gather_nd(self, key)
            raise IndexError('arrays used as indices must be of integer (or boolean) type')
        if isinstance(key, tuple) and any(isinstance(k, PA) for k in key):
            pas = [i for i, k in enumerate(key) if isinstance(k, PA)]
            rest = tuple(k for k in key if not isinstance(k, PA))
            full = lambda k: isinstance(k, slice) and k == slice(None)
            if pas == [0] and key[0].kind == 'i' and rest and all(isinstance(k, (int, onp.integer)) for k in rest):
                self._need_dense('advanced indexing')
                col = self.data[(slice(None),) + tuple(int(k) for k in rest)]
                return _gather(PA(col.copy(), self.kind, None, self.ecap), key[0]) if key[0].ndim == 1 else _gather_nd(PA(col.copy(), self.kind, None, self.ecap), key[0])
            if pas == [0] and key[0].kind == 'i' and all(full(k) for k in rest):
                return _gather_nd(self, key[0])
            if pas == [0] and key[0].kind == 'b' and key[0].ndim == 1 and all(k is None or full(k) for k in rest):
                r = _compress_rows(self, key[0]) if self.ndim > 1 else _compress(self, key[0])
                d = r.data[(slice(None),) + rest]
                return PA(d, r.kind, (r.ext[0],) + (None,) * (d.ndim - 1), r.ecap)
            raise Unsupported('indexing with key %r' % (key,))
        if isinstance(key, slice) and self.ndim == 1 and (not self.dense or isinstance(key.start, SInt) or isinstance(key.stop, SInt)):
            return _slice_get(self, key)
        key = _concrete_key(key)
        self._need_dense('basic/fancy indexing')
        r = self.data[key]
        if isinstance(r, onp.ndarray):
            return self._view(r)                  # numpy's result: a view for basic indexing, a copy for fancy indexing
        return self._scalar(r)

    def __setitem__(self, key, value):
        key = _norm_key(key)
        if isinstance(key, PA):
            if key.kind == 'i':
                if self.ndim != 1:
                    raise Unsupported('index-array assignment on a %d-d array' % self.ndim)
                _scatter(self.data, key, value, self, self.length())
                self._stored()
                return
            if key.kind == 'b' and key.ndim == 1 and self.ndim > 1:
                self._need_dense('masked assignment target')
                _masked_axis_set(self, (key,), 0, value)
                self._stored()
                return
            if key.kind == 'b':
                r = _masked_set(self, key, value)
                self.data[...] = r.data
                self._stored()
                return
        if isinstance(key, slice) and self.ndim == 1 and (isinstance(key.start, SInt) or isinstance(key.stop, SInt) or not self.dense):
            _slice_assign(self, key, value)
            self._stored()
            return
        if isinstance(key, tuple):
            pas = [k for k in key if isinstance(k, PA)]
            if len(pas) == 1:
                ax = [i for i, k in enumerate(key) if isinstance(k, PA)][0]
                self._need_dense('advanced assignment target')
                if pas[0].kind == 'i':
                    rest = key[:ax] + key[ax + 1:]
                    if ax != 0 or not all(isinstance(k, (int, onp.integer)) for k in rest):
                        raise Unsupported('index-array assignment with key %r' % (key,))
                    view = self.data[(slice(None),) + tuple(int(k) for k in rest)]     # numpy view: writes go through
                    _scatter(view, pas[0], value, self)
                    self._stored()
                    return
                _masked_axis_set(self, key, ax, value)
                self._stored()
                return
            if pas:
                raise Unsupported('assignment with more than one symbolic index array')
        key = _concrete_key(key)
        self._need_dense('assignment target')
        if isinstance(value, PA):
            value._need_dense('assigned value')
            self.data[key] = value.data
            if self.kind == 'i':
                self.ecap = None if (self.ecap is None or value.ecap is None) else max(self.ecap, value.ecap)
        else:
            if isinstance(value, SInt):
                if self.kind == 'i':
                    self.ecap = None if self.ecap is None else max(self.ecap, value.cap)
                    self.sizes = True
                value = value.z
            elif self.kind == 'i' and isinstance(value, (int, onp.integer)) and self.ecap is not None:
                self.ecap = max(self.ecap, int(value)) if value >= 0 else None
            self.data[key] = value
        self._stored()


def _norm_key(key):
    """index components that are concrete by construction become plain numpy / python indices: a `lit` array (the caller's
    connectivity), a symbolic size used as an integer index (the exploration forks over its values)"""
    def one(k):
        if isinstance(k, PA) and k.dense and (k.lit or (k.kind == 'i' and all(num(v) for v in k.data.reshape(-1)))):
            return k.to_numpy()        # (boolean masks stay on the model path: they are what the model is about)
        if isinstance(k, SInt):
            return int(k)
        return k
    if isinstance(key, tuple):
        return tuple(one(k) for k in key)
    return one(key)


def _operand(x):
    if isinstance(x, PA):
        return x.data, x.ext, x.ecap
    if isinstance(x, SInt):
        d = onp.empty((), dtype=object)
        d[()] = x.z
        return d, (), x.cap
    if isinstance(x, (bool, onp.bool_)):
        d = onp.empty((), dtype=object)
        d[()] = bool(x)
        return d, (), None
    if isinstance(x, (int, onp.integer)):
        d = onp.empty((), dtype=object)
        d[()] = int(x)
        return d, (), (int(x) if x >= 0 else None)
    if isinstance(x, (float, onp.floating)):
        d = onp.empty((), dtype=object)
        d[()] = float(x)
        return d, (), None
    if isinstance(x, px.SymReal):
        d = onp.empty((), dtype=object)
        d[()] = x.z
        return d, (), None
    a = onp.asarray(x)
    if a.dtype == object or a.dtype.kind not in 'iub':
        raise Unsupported('elementwise operation with %r' % (x,))
    return _as_obj(a), (None,) * a.ndim, (int(a.max()) if (a.size and a.min() >= 0) else None)


def _ew2(a, b, f, kind, ecapf=None):
    """elementwise f(a, b) with numpy broadcasting; an axis of symbolic extent keeps its extent"""
    da, ea, ca = _operand(a)
    db, eb, cb = _operand(b)
    A, B = onp.broadcast_arrays(da, db)
    out = onp.empty(A.shape, dtype=object)
    of, af, bf = out.reshape(-1), A.reshape(-1), B.reshape(-1)
    for i in range(of.size):
        of[i] = f(af[i], bf[i])
    nd = out.ndim
    ext = []
    for k in range(nd):
        cands = []
        for d, e in ((da, ea), (db, eb)):
            j = k - (nd - d.ndim)
            if j >= 0 and e[j] is not None:
                if d.shape[j] != out.shape[k]:
                    raise Unsupported('broadcasting along an axis of symbolic extent')
                cands.append(e[j])
        if len(cands) == 2 and not (cands[0] is cands[1] or _same(cands[0], cands[1])):
            _require(i_eq(cands[0], cands[1]), 'operands could not be broadcast together (extents of axis %d)' % k)
        ext.append(cands[0] if cands else None)
    return PA(out, kind, ext, ecapf(ca, cb) if (ecapf and kind == 'i') else None)


def _term_id(x):
    if isz(x):
        return ('z', x.get_id())
    if isinstance(x, OH):
        return ('oh', tuple(sorted((k, (c.get_id() if isz(c) else c)) for k, c in x.d.items())))
    return ('c', type(x).__name__, x)


class PAKey:
    """what `a.tobytes()` returns for a padded array. Two keys are equal iff the arrays have the same kind, size and contents.
    Structurally identical contents (z3 terms are hash-consed) are equal outright; otherwise equality of the contents is a
    symbolic condition and `==` FORKS the exploration on it (exact for every assignment). The hash depends on size and kind only."""

    def __init__(self, a):
        a._need_dense('tobytes')
        self.kind = a.kind
        self.vals = list(a.data.reshape(-1))            # keeps the terms alive (z3 AST ids are reused after garbage collection)
        self.ids = tuple(_term_id(v) for v in self.vals)

    def __hash__(self):
        return hash(('PAKey', len(self.vals), self.kind))

    def __eq__(self, o):
        if not isinstance(o, PAKey):
            return False
        if self.kind != o.kind or len(self.vals) != len(o.vals):
            return False
        if self.ids == o.ids:
            return True
        eq = {'b': b_iff, 'i': i_eq, 'f': lambda x, y: (x == y) if (num(x) and num(y)) else (sym.toz(x) == sym.toz(y))}[self.kind]
        c = b_and(*[eq(x, y) for x, y in zip(self.vals, o.vals)])
        return bool(px.SymBool(c)) if isz(c) else bool(c)

    def __ne__(self, o):
        return not self.__eq__(o)

    def __repr__(self):
        return 'PAKey(%s, %d)' % (self.kind, len(self.vals))


def _concrete_key(key):
    def one(k):
        if isinstance(k, (SInt, PA)):
            raise Unsupported('symbolic index component %r in a concrete key' % (k,))
        if isinstance(k, slice):
            if any(isinstance(x, SInt) for x in (k.start, k.stop, k.step)):
                raise Unsupported('slice with symbolic bounds on this array')
            return k
        if isinstance(k, (int, onp.integer)) or k is None or k is Ellipsis:
            return k
        a = onp.asarray(k)
        if a.dtype.kind not in 'iub':
            raise IndexError('arrays used as indices must be of integer (or boolean) type')
        return a
    if isinstance(key, tuple):
        return tuple(one(k) for k in key)
    return one(key)


def _compress(a, m):
    """a[m] for a boolean mask of a's shape: C-order compress; position of element i = number of True before i"""
    a._need_dense('boolean-mask indexing')
    m._need_dense('boolean mask')
    if a.data.shape != m.data.shape:
        raise IndexError('boolean index did not match indexed array: %s vs %s' % (a.data.shape, m.data.shape))
    af, mf = list(a.data.reshape(-1)), list(m.data.reshape(-1))
    n = len(af)
    pre, total = prefix_counts(mf)
    dflt = KIND_DEFAULT[a.kind]
    out = onp.empty((n,), dtype=object)
    for p in range(n):
        out[p] = select([(b_and(mf[i], i_eq(pre[i], p)), af[i]) for i in range(p, n)], dflt, a.kind)
    return PA(out, a.kind, (total,), a.ecap)


def _eff_index(idx, n):
    """numpy index semantics: negative indices count from the end"""
    if num(idx):
        return int(idx) if int(idx) >= 0 else i_add(int(idx), n)
    return ite(i_lt(idx, 0), i_add(idx, n), idx, 'i')


def _gather(s, idx):
    """s[idx] for a 1-d integer index array (possibly of symbolic length) on a 1-d array"""
    if s.ndim != 1 or idx.ndim != 1:
        raise Unsupported('index-array gather on a %d-d array with a %d-d index' % (s.ndim, idx.ndim))
    ns, ni = s.data.shape[0], idx.data.shape[0]
    Ls, L = s.length(), idx.length()
    dflt = KIND_DEFAULT[s.kind]
    out = onp.empty((ni,), dtype=object)
    effs = [_eff_index(idx.data[p], Ls) for p in range(ni)]
    _require(b_and(*[b_implies(i_lt(p, L), b_and(i_le(0, effs[p]), i_lt(effs[p], Ls))) for p in range(ni)]),
             'every index of a gather lies within the indexed array', IndexError)
    for p in range(ni):
        out[p] = select([(i_eq(effs[p], d), s.data[d]) for d in range(ns)], dflt, s.kind)
    return PA(out, s.kind, (idx.ext[0],), s.ecap)


def _value_at(value, p, L, kind):
    """entry p of the right-hand side of an assignment to L selected positions (numpy broadcasting of a scalar or a length-1
    array); returns (term, length-agreement condition)"""
    if isinstance(value, PA):
        if value.ndim != 1:
            raise Unsupported('assigned value of dimension %d' % value.ndim)
        Lv = value.length()
        if p >= value.data.shape[0]:
            return (value.data[0] if value.data.shape[0] else KIND_DEFAULT[kind]), None
        one = i_eq(Lv, 1)
        return ite(one, value.data[0], value.data[p], kind), None
    if isinstance(value, SInt):
        return value.z, None
    if isinstance(value, px.SymReal):
        return value.z, None
    if isinstance(value, px.SymBool):
        return value.z, None
    if isinstance(value, onp.ndarray) or (hasattr(value, 'shape') and getattr(value, 'shape', ()) != ()):
        raise Unsupported('concrete array assigned through a symbolic index')
    return (value.item() if hasattr(value, 'item') else value), None


def _len_ok(value, L, what):
    if isinstance(value, PA):
        Lv = value.length()
        _require(b_or(i_eq(Lv, L), i_eq(Lv, 1)), what)


def _scatter(view, idx, value, owner, Ltarget=None):
    """view[idx] = value (1-d view; integer index array of any dimension whose leading axis may have a symbolic extent): later
    entries (C order) win, as in numpy. Ltarget: valid length of the target (default: its capacity)."""
    n = view.shape[0]
    Lt = n if Ltarget is None else Ltarget
    if idx.ndim == 1:
        ni = idx.data.shape[0]
        L = idx.length()
        _len_ok(value, L, 'shape mismatch: value array could not be broadcast to the indexing result')
        valid = [i_lt(p, L) for p in range(ni)]
        raws = list(idx.data)
        vals = [_value_at(value, p, L, owner.kind)[0] for p in range(ni)]
    else:
        if any(e is not None for e in idx.ext[1:]):
            raise Unsupported('index array with a symbolic extent along a trailing axis')
        rows = idx.data.shape[0]
        per = int(onp.prod(idx.data.shape[1:]))
        L = idx.length()
        valid = [i_lt(r, L) for r in range(rows) for _ in range(per)]
        raws = list(idx.data.reshape(-1))
        if isinstance(value, PA):
            if value.data.shape[1:] != idx.data.shape[1:] or value.ndim != idx.ndim or any(e is not None for e in value.ext[1:]):
                raise ValueError('shape mismatch: value array of shape %s could not be broadcast to indexing result of shape %s' % (value.data.shape, idx.data.shape))
            if not _same(value.length(), L):
                _require(i_eq(value.length(), L), 'shape mismatch: value array could not be broadcast to the indexing result')
            vr = value.data.shape[0]
            vflat = value.data.reshape(vr, per) if vr else None
            vals = [(vflat[r, k] if r < vr else KIND_DEFAULT[owner.kind]) for r in range(rows) for k in range(per)]
        else:
            v0 = _value_at(value, 0, L, owner.kind)[0]
            vals = [v0] * (rows * per)
    effs = [_eff_index(x, Lt) for x in raws]
    _require(b_and(*[b_implies(valid[p], b_and(i_le(0, effs[p]), i_lt(effs[p], Lt))) for p in range(len(raws))]),
             'every index of a scatter lies within the target array', IndexError)
    for d in range(n):
        v = view[d]
        for p in range(len(raws)):
            v = ite(b_and(valid[p], i_eq(effs[p], d)), vals[p], v, owner.kind)
        view[d] = v
    if owner.kind == 'i':
        vc = value.ecap if isinstance(value, PA) else (value.cap if isinstance(value, SInt) else (int(value) if isinstance(value, (int, onp.integer)) and value >= 0 else None))
        owner.ecap = None if (owner.ecap is None or vc is None) else max(owner.ecap, vc)


def _compress_rows(a, m):
    """a[m] for a 1-d boolean mask over the first axis of an array with more axes: the selected rows, in order"""
    a._need_dense('boolean-mask indexing')
    m._need_dense('boolean mask')
    n = a.data.shape[0]
    if m.data.shape != (n,):
        raise IndexError('boolean index did not match indexed array along dimension 0')
    mf = list(m.data)
    pre, total = prefix_counts(mf)
    tail = a.data.shape[1:]
    flat = a.data.reshape(n, -1)
    out = onp.empty(flat.shape, dtype=object)
    dflt = KIND_DEFAULT[a.kind]
    for r in range(n):
        conds = [b_and(mf[i], i_eq(pre[i], r)) for i in range(r, n)]
        for t in range(flat.shape[1]):
            out[r, t] = select([(conds[i - r], flat[i, t]) for i in range(r, n)], dflt, a.kind)
    return PA(out.reshape((n,) + tail), a.kind, (total,) + (None,) * len(tail), a.ecap)


def _gather_nd(s, idx):
    """s[idx] / s[idx, :, ...]: rows of a dense array selected by an integer index array of any dimension (leading axis of
    possibly symbolic extent)"""
    s._need_dense('indexed array')
    if any(e is not None for e in idx.ext[1:]):
        raise Unsupported('index array with a symbolic extent along a trailing axis')
    n = s.data.shape[0]
    tail = s.data.shape[1:]
    sflat = s.data.reshape(n, -1)
    L = idx.length()
    rows = idx.data.shape[0] if idx.ndim else 1
    iflat = idx.data.reshape(-1)
    per = iflat.size // rows if rows else 0
    effs = [_eff_index(x, n) for x in iflat]
    _require(b_and(*[b_implies(i_lt(p // per, L), b_and(i_le(0, effs[p]), i_lt(effs[p], n))) for p in range(len(effs))]) if per else True,
             'every index of a gather lies within the indexed array', IndexError)
    out = onp.empty((iflat.size, sflat.shape[1]), dtype=object)
    dflt = KIND_DEFAULT[s.kind]
    for p in range(iflat.size):
        conds = [i_eq(effs[p], d) for d in range(n)]
        for t in range(sflat.shape[1]):
            out[p, t] = select([(conds[d], sflat[d, t]) for d in range(n)], dflt, s.kind)
    return PA(out.reshape(idx.data.shape + tail), s.kind, idx.ext + (None,) * len(tail), s.ecap)


def _masked_set(a, m, value):
    """functional a[m] = value / a.at[m].set(value) for a boolean mask of a's shape"""
    a._need_dense('masked assignment target')
    m._need_dense('boolean mask')
    if a.data.shape != m.data.shape:
        raise IndexError('boolean index did not match indexed array: %s vs %s' % (a.data.shape, m.data.shape))
    af, mf = list(a.data.reshape(-1)), list(m.data.reshape(-1))
    n = len(af)
    pre, total = prefix_counts(mf)
    out = onp.empty((n,), dtype=object)
    if isinstance(value, PA):
        if value.ndim != 1:
            raise Unsupported('masked assignment of a %d-d value' % value.ndim)
        _len_ok(value, total, 'masked assignment: number of values equals the number of True entries of the mask')
        nv = value.data.shape[0]
        one = i_eq(value.length(), 1)
        for i in range(n):
            v = af[i]
            sel = select([(b_and(i_eq(pre[i], p), b_not(one)), value.data[p]) for p in range(min(i, nv - 1) + 1)],
                         value.data[0] if nv else KIND_DEFAULT[a.kind], a.kind)
            out[i] = ite(mf[i], sel, v, a.kind)
    else:
        val = _value_at(value, 0, total, a.kind)[0]
        for i in range(n):
            out[i] = ite(mf[i], val, af[i], a.kind)
    return PA(out.reshape(a.data.shape), a.kind, None, a.ecap)


class _At:
    def __init__(self, a):
        self.a = a

    def __getitem__(self, key):
        return _AtKey(self.a, key)


class _AtKey:
    def __init__(self, a, key):
        self.a, self.key = a, key

    def set(self, value):
        if isinstance(self.key, PA) and self.key.kind == 'b':
            return _masked_set(self.a, self.key, value)
        r = self.a.copy()
        r[self.key] = value
        return r


def _masked_axis_set(a, key, ax, value):
    """a[..., mask, ...] = scalar with one 1-d boolean mask along axis `ax` and ints / slices elsewhere"""
    m = key[ax]
    m._need_dense('boolean mask')
    if m.ndim != 1:
        raise Unsupported('%d-d boolean mask inside a tuple key' % m.ndim)
    if isinstance(value, PA):
        raise Unsupported('array value in a masked assignment along one axis')
    key = key + (slice(None),) * (a.ndim - len(key))
    if m.data.shape[0] != a.data.shape[ax]:
        raise IndexError('boolean index did not match indexed array along dimension %d' % ax)
    k2 = _concrete_key(tuple(slice(None) if i == ax else k for i, k in enumerate(key)))
    pos = onp.arange(a.data.size).reshape(a.data.shape)[k2].reshape(-1)
    coord = onp.indices(a.data.shape)[ax][k2].reshape(-1)
    val = _value_at(value, 0, 0, a.kind)[0]
    flat = a.data.reshape(-1)
    new = flat.copy()
    for q, c in zip(pos, coord):
        new[q] = ite(m.data[c], val, flat[q], a.kind)
    a.data[...] = new.reshape(a.data.shape)


def _slice_assign(a, key, value):
    """a[b:e] = value on a 1-d array, b / e / len(a) possibly symbolic"""
    if key.step not in (None, 1):
        raise Unsupported('strided slice assignment')
    n = a.data.shape[0]
    L = a.length()
    b = 0 if key.start is None else raw(key.start)
    e = L if key.stop is None else raw(key.stop)
    _require(b_and(i_le(0, b), i_le(0, e)), 'slice bounds are non-negative (negative bounds count from the end: not modelled)')
    start, stop = i_min(b, L), i_min(e, L)
    cnt = i_max(i_sub(stop, start), 0)
    if isinstance(value, PA):
        if value.ndim != 1:
            raise Unsupported('slice assignment of a %d-d value' % value.ndim)
        _len_ok(value, cnt, 'slice assignment: could not broadcast the input array into the addressed slice')
        nv = value.data.shape[0]
        one = i_eq(value.length(), 1)
    new = onp.empty((n,), dtype=object)
    for q in range(n):
        v = a.data[q]
        inside = b_and(i_le(start, q), i_lt(q, stop))
        if isinstance(value, PA):
            sel = select([(b_and(i_eq(i_add(start, p), q), b_not(one)), value.data[p]) for p in range(min(q, nv - 1) + 1)],
                         value.data[0] if nv else KIND_DEFAULT[a.kind], a.kind)
        else:
            sel = _value_at(value, 0, cnt, a.kind)[0]
        new[q] = ite(inside, sel, v, a.kind)
    a.data[...] = new
    if a.kind == 'i' and isinstance(value, PA):
        a.ecap = None if (a.ecap is None or value.ecap is None) else max(a.ecap, value.ecap)


def _slice_get(a, key):
    """a[b:e] of a 1-d array of symbolic length (b, e python ints or symbolic sizes; negative python bounds count from the end)"""
    if key.step not in (None, 1):
        raise Unsupported('strided slice of an array with a symbolic extent')
    n, L = a.data.shape[0], a.length()

    def bound(v, dflt):
        if v is None:
            return dflt
        v = raw(v)
        if num(v) and int(v) < 0:
            return i_max(i_add(L, int(v)), 0)
        return i_min(v, L)
    start, stop = bound(key.start, 0), bound(key.stop, L)
    cnt = i_max(i_sub(stop, start), 0)
    out = onp.empty((n,), dtype=object)
    dflt = KIND_DEFAULT[a.kind]
    for q in range(n):
        out[q] = select([(i_eq(i_add(start, q), p), a.data[p]) for p in range(q, n)], dflt, a.kind)
    return PA(out, a.kind, (cnt,), a.ecap)


def _as_pa1(x):
    if isinstance(x, PA):
        if x.ndim != 1:
            raise Unsupported('%d-d array where a 1-d array is modelled' % x.ndim)
        return x
    a = onp.asarray(x)
    if a.ndim != 1:
        raise Unsupported('%d-d array where a 1-d array is modelled' % a.ndim)
    return PA(_as_obj(a), _kind_of_dtype(a.dtype), None, (int(a.max()) if (a.size and a.dtype.kind in 'iu' and a.min() >= 0) else (0 if not a.size else None)))


def _concatenate(arrs):
    """concatenation of 1-d arrays of possibly symbolic lengths: entry p of array k sits at offset_k + p"""
    arrs = [_as_pa1(a) for a in arrs]
    kinds = {a.kind for a in arrs if a.data.shape[0]}
    kind = 'f' if 'f' in kinds else ('i' if 'i' in kinds else (arrs[0].kind if not kinds else kinds.pop()))
    cap = sum(a.data.shape[0] for a in arrs)
    offs, off = [], 0
    for a in arrs:
        offs.append(off)
        off = i_add(off, a.length())
    total = off
    symbolic = any(not a.dense for a in arrs)
    out = onp.empty((cap,), dtype=object)
    dflt = KIND_DEFAULT[kind]
    for q in range(cap):
        cases = []
        for a, o in zip(arrs, offs):
            for p in range(min(q, a.data.shape[0] - 1) + 1):
                cases.append((b_and(i_lt(p, a.length()), i_eq(i_add(o, p), q)), a.data[p]))
        out[q] = select(cases, dflt, kind)
    ecaps = [a.ecap for a in arrs if a.data.shape[0]]
    return PA(out, kind, (total,) if symbolic else None, None if any(e is None for e in ecaps) else max(ecaps + [0]))


def _sort(a):
    """ascending sort of a 1-d integer array of symbolic length: the entry of (stable) rank r goes to position r"""
    a = _as_pa1(a)
    if a.kind != 'i':
        raise Unsupported('sort of a %s array' % a.kind)
    n, L = a.data.shape[0], a.length()
    valid = [i_lt(p, L) for p in range(n)]
    ranks = []
    for p in range(n):
        before = []
        for q in range(n):
            if q == p:
                continue
            lt = i_lt(a.data[q], a.data[p]) if q > p else i_le(a.data[q], a.data[p])
            before.append(b_and(valid[q], lt))
        ranks.append(count(before))
    out = onp.empty((n,), dtype=object)
    for r in range(n):
        out[r] = select([(b_and(valid[p], i_eq(ranks[p], r)), a.data[p]) for p in range(n)], 0, 'i')
    return PA(out, 'i', a.ext, a.ecap)


def _argsort(a, kind=None):
    """argsort of a dense 1-d boolean / integer array as the STABLE permutation. numpy's default quicksort is an introsort
    that finishes partitions of <= 16 entries by insertion sort, i.e. it is stable for arrays of at most 16 entries and NOT
    beyond that: longer arrays are refused unless a stable kind is requested (the real numpy sort decides those cases on
    concrete flags)."""
    a = _as_pa1(a)
    a._need_dense('argsort')
    n = a.data.shape[0]
    if n > 16 and kind not in ('stable', 'mergesort'):
        raise Unsupported('argsort of %d symbolic entries with numpy\'s default (unstable for more than 16 entries) sort' % n)
    if a.kind == 'b':
        lt = lambda x, y: b_and(b_not(x), y)
        le = lambda x, y: b_or(b_not(x), y)
    elif a.kind == 'i':
        lt, le = i_lt, i_le
    else:
        raise Unsupported('argsort of a %s array' % a.kind)
    ranks = []
    for p in range(n):
        ranks.append(count([(lt(a.data[q], a.data[p]) if q > p else le(a.data[q], a.data[p])) for q in range(n) if q != p]))
    out = onp.empty((n,), dtype=object)
    for r in range(n):
        out[r] = select([(i_eq(ranks[p], r), p) for p in range(n)], 0, 'i')
    return PA(out, 'i', None, max(n - 1, 0))


def _truth(a):
    """list of (valid, nonzero) per entry of an array"""
    if not isinstance(a, PA):
        raise Unsupported('truth values of %r' % (a,))
    if a.ndim == 1:
        ents, valid = list(a.data), [i_lt(p, a.length()) for p in range(a.data.shape[0])]
    else:
        a._need_dense('reduction')
        ents = list(a.data.reshape(-1))
        valid = [True] * len(ents)
    if a.kind == 'b':
        nz = ents
    elif a.kind == 'i':
        nz = [b_not(i_eq(x, 0)) for x in ents]
    else:
        nz = [(x != 0) for x in ents]
    return valid, nz


def _wrap_bool(r):
    return px.SymBool(r) if isz(r) else bool(r)


def _block_ravel(a):
    """C-order ravel of a 2-d block of symbolic shape (m, n): flat position of (r, c) is r*n + c"""
    cm, cn = a.data.shape
    m, n = a.length(0), a.length(1)
    total = table_mul(m, cm, n)
    dflt = KIND_DEFAULT[a.kind]
    out = onp.empty((cm * cn,), dtype=object)
    rn = [i_mulc(r, n) for r in range(cm)]
    rowok = [i_lt(r, m) for r in range(cm)]
    colok = [i_lt(c, n) for c in range(cn)]
    for q in range(cm * cn):
        cases = []
        for r in range(cm):
            for c in range(cn):
                if c > q or r * cn + c < q:
                    continue
                cases.append((b_and(rowok[r], colok[c], i_eq(rn[r], q - c)), a.data[r, c]))
        out[q] = select(cases, dflt, a.kind)
    return PA(out, a.kind, (total,), a.ecap)


# ------------------------------------------------------------------------------------------ the numpy / jax.numpy shims
def _shape_tuple(shape):
    return tuple(shape) if isinstance(shape, (tuple, list)) else (shape,)


def _new_1d(n, kind, fill, ecap):
    """1-d array of length n (python int -> dense; SInt -> capacity n.cap with symbolic extent)"""
    if isinstance(n, SInt):
        d = onp.empty((n.cap,), dtype=object)
        for i in range(n.cap):
            d[i] = fill(i)
        return PA(d, kind, (n.z,), ecap)
    d = onp.empty((int(n),), dtype=object)
    for i in range(int(n)):
        d[i] = fill(i)
    return PA(d, kind, None, ecap)


class ONP:
    """`onp` (numpy) as the module under test sees it in the symbolic run: the constructors and reductions DofManager uses
    are modelled on PA; any other attribute is real numpy"""

    def __getattr__(self, name):
        return getattr(onp, name)

    def full(self, shape, fill_value, dtype=None):
        shape = _shape_tuple(shape)
        kind = _kind_of_dtype(dtype if dtype is not None else type(fill_value))
        itype = None
        if kind == 'i' and dtype is not None and not (isinstance(dtype, type) and issubclass(dtype, int)) and onp.dtype(dtype) != onp.dtype(int):
            itype = onp.dtype(dtype)
        if any(isinstance(s, SInt) for s in shape):
            if len(shape) != 1:
                raise Unsupported('full() with a symbolic extent in a %d-d shape' % len(shape))
            r = _new_1d(shape[0], kind, lambda i: fill_value, fill_value if (kind == 'i' and fill_value >= 0) else None)
        else:
            r = PA(_objarr(tuple(int(s) for s in shape), fill_value), kind, None, fill_value if (kind == 'i' and fill_value >= 0) else None)
        r.itype = itype
        r._stored()
        return r

    def zeros(self, shape, dtype=float):
        kind = _kind_of_dtype(dtype)
        return self.full(shape, KIND_DEFAULT[kind], dtype=dtype)

    def ones(self, shape, dtype=float):
        kind = _kind_of_dtype(dtype)
        return self.full(shape, {'b': True, 'i': 1, 'f': 1.0}[kind], dtype=dtype)

    def arange(self, n, *a, **k):
        if a or k:
            raise Unsupported('arange with more than one argument')
        cap = n.cap if isinstance(n, SInt) else int(n)
        return _new_1d(n, 'i', lambda i: i, max(cap - 1, 0))

    @staticmethod
    def _lit(v, dtype):
        """a concrete integer / boolean array handed in by the caller (the connectivity) as a PA that may be indexed by
        symbolic masks; used as an index itself it behaves as the plain numpy array"""
        if isinstance(v, (list, tuple)) and any(isinstance(x, (PA, SInt)) for x in v):
            raise Unsupported('array() of a list holding symbolic entries')
        if isinstance(dtype, type) and issubclass(dtype, int) and dtype is not bool:
            dtype = int            # the builtin-int shim of the loaded namespace
        a = onp.asarray(v, dtype=dtype)
        if a.dtype == object or a.dtype.kind not in 'iub' or a.ndim == 0:
            return a
        r = PA(_as_obj(a), _kind_of_dtype(a.dtype), None, (int(a.max()) if (a.size and a.dtype.kind != 'b' and a.min() >= 0) else None))
        r.lit = True
        return r

    def array(self, v, dtype=None, **k):
        if isinstance(v, PA):
            return v.copy()
        return self._lit(v, dtype)

    def asarray(self, v, dtype=None, **k):
        if isinstance(v, PA):
            return v
        return self._lit(v, dtype)

    def atleast_1d(self, v):
        if isinstance(v, PA):
            if v.ndim == 0:
                raise Unsupported('atleast_1d of a 0-d array')
            return v
        return onp.atleast_1d(v)

    def flatnonzero(self, a):
        if not isinstance(a, PA):
            return onp.flatnonzero(a)
        a = a.ravel()
        if a.kind != 'b':
            a = ~(a == 0)
        return self.arange(a.data.shape[0])[a]

    def cumsum(self, a, axis=None):
        if not isinstance(a, PA):
            return onp.cumsum(a, axis=axis)
        if a.ndim != 1 or not a.dense or a.kind != 'i':
            raise Unsupported('cumsum of this array')
        out, c = onp.empty(a.data.shape, dtype=object), 0
        for i in range(a.data.shape[0]):
            c = i_add(c, a.data[i])
            out[i] = c
        r = PA(out, 'i', None, None if a.ecap is None else a.ecap * max(a.data.shape[0], 1))
        r.sizes = a.sizes
        return r

    def repeat(self, a, n, axis=None):
        if not isinstance(a, PA):
            return onp.repeat(a, n, axis=axis)
        if not isinstance(n, (int, onp.integer)):
            raise Unsupported('repeat with a symbolic or array count')
        if axis is None:
            a, axis = a.ravel(), 0
        if a.ext[axis] is not None:
            raise Unsupported('repeat along an axis of symbolic extent')
        return PA(onp.repeat(a.data, int(n), axis=axis), a.kind, a.ext, a.ecap)

    @staticmethod
    def _along(a, axis, fn, kind, ecap=None, sizes=False):
        """reduction of a dense array along one axis by fn(list of entries)"""
        a._need_dense('reduction along an axis')
        axis = axis % a.ndim
        moved = onp.moveaxis(a.data, axis, -1)
        out = onp.empty(moved.shape[:-1], dtype=object)
        for I in onp.ndindex(*moved.shape[:-1]):
            out[I] = fn(list(moved[I]))
        r = PA(out, kind, None, ecap)
        r.sizes = sizes
        return r

    def sum(self, a, axis=None):
        if not isinstance(a, PA):
            return onp.sum(a, axis=axis)
        if axis is not None and a.ndim > 1:
            n = a.data.shape[axis % a.ndim]
            if a.kind == 'b':
                return self._along(a, axis, count, 'i', n, True)
            if a.kind == 'i' and a.ecap is not None:
                def add(xs):
                    t = 0
                    for x in xs:
                        t = i_add(t, x)
                    return t
                return self._along(a, axis, add, 'i', a.ecap * n, True)
            raise Unsupported('sum of a %s array along an axis' % a.kind)
        a._need_dense('sum')
        flat = list(a.data.reshape(-1))
        if a.kind == 'b':
            return SInt(count(flat), len(flat))
        if a.kind == 'i' and a.ecap is not None:
            s = 0
            for x in flat:
                s = i_add(s, x)
            return SInt(s, a.ecap * len(flat))
        raise Unsupported('sum of a %s array' % a.kind)

    def concatenate(self, arrs, axis=0):
        arrs = list(arrs)
        if not any(isinstance(a, PA) for a in arrs):
            return onp.concatenate(arrs, axis=axis)
        if axis != 0:
            raise Unsupported('concatenate along axis %r' % (axis,))
        return _concatenate(arrs)

    def hstack(self, arrs):
        return self.concatenate(arrs)

    def append(self, a, b, axis=None):
        return self.concatenate([a, onp.atleast_1d(b) if not isinstance(b, PA) else b])

    def sort(self, a, axis=-1, **k):
        if not isinstance(a, PA):
            return onp.sort(a, axis=axis, **k)
        return _sort(a)

    def intersect1d(self, a, b, assume_unique=False, return_indices=False):
        """sorted unique common elements. Modelled for one concrete and one (possibly padded, symbolic) integer array"""
        if not isinstance(a, PA) and not isinstance(b, PA):
            return onp.intersect1d(a, b, assume_unique=assume_unique, return_indices=return_indices)
        if return_indices:
            raise Unsupported('intersect1d(return_indices=True)')
        conc = lambda x: (not isinstance(x, PA)) or (x.dense and all(num(v) for v in x.data.reshape(-1)))
        if conc(a) and conc(b):
            f = lambda x: x.to_numpy() if isinstance(x, PA) else onp.asarray(x)
            return self._lit(onp.intersect1d(f(a), f(b)), None)
        if conc(b):
            a, b = b, a
        if not conc(a):
            raise Unsupported('intersect1d of two symbolic arrays')
        cand = sorted({int(v) for v in (a.to_numpy() if isinstance(a, PA) else onp.asarray(a)).reshape(-1)})
        b = _as_pa1(b.ravel() if isinstance(b, PA) else b)
        Lb = b.length()
        member = [b_or(*[b_and(i_lt(p, Lb), i_eq(b.data[p], d)) for p in range(b.data.shape[0])]) for d in cand]
        vals = PA(_as_obj(onp.asarray(cand, dtype=int)), 'i', None, max(cand + [0]))
        return _compress(vals, dense_pa(member, 'b'))

    def argsort(self, a, axis=-1, kind=None, **k):
        if not isinstance(a, PA):
            return onp.argsort(a, axis=axis, kind=kind, **k)
        return _argsort(a, kind)

    def any(self, a, axis=None):
        if not isinstance(a, PA):
            return onp.any(a, axis=axis)
        if axis is not None and a.ndim > 1:
            nzf = (lambda x: x) if a.kind == 'b' else (lambda x: b_not(i_eq(x, 0)))
            return self._along(a, axis, lambda xs: b_or(*[nzf(x) for x in xs]), 'b')
        valid, nz = _truth(a)
        return _wrap_bool(b_or(*[b_and(v, x) for v, x in zip(valid, nz)]))

    def all(self, a, axis=None):
        if not isinstance(a, PA):
            return onp.all(a, axis=axis)
        if axis is not None and a.ndim > 1:
            nzf = (lambda x: x) if a.kind == 'b' else (lambda x: b_not(i_eq(x, 0)))
            return self._along(a, axis, lambda xs: b_and(*[nzf(x) for x in xs]), 'b')
        valid, nz = _truth(a)
        return _wrap_bool(b_and(*[b_implies(v, x) for v, x in zip(valid, nz)]))

    def count_nonzero(self, a, axis=None):
        if not isinstance(a, PA):
            return onp.count_nonzero(a, axis=axis)
        valid, nz = _truth(a)
        return SInt(count([b_and(v, x) for v, x in zip(valid, nz)]), len(nz))

    def size(self, a, axis=None):
        return a.size if isinstance(a, PA) else onp.size(a, axis)

    def shape(self, a):
        return a.shape if isinstance(a, PA) else onp.shape(a)

    def ravel(self, a):
        return a.ravel() if isinstance(a, PA) else onp.ravel(a)

    def invert(self, a):
        return ~a

    logical_not = invert

    def where(self, c, a=None, b=None):
        if not any(isinstance(x, PA) for x in (c, a, b)):
            return onp.where(c) if a is None else onp.where(c, a, b)
        if a is None or not isinstance(c, PA) or c.kind != 'b':
            raise Unsupported('where() of this form')
        kind = 'f' if any((isinstance(x, PA) and x.kind == 'f') or isinstance(x, float) for x in (a, b)) else ('b' if all(isinstance(x, PA) and x.kind == 'b' for x in (a, b)) else 'i')
        t = _ew2(c, a, lambda cc, x: (cc, x), 'f')           # pairs, broadcast
        r = _ew2(t, b, lambda cx, y: ite(cx[0], cx[1], y, kind), kind)
        r.kind = kind
        return r

    def square(self, x):
        if isinstance(x, SInt):
            return SInt(table_mul(x.z, x.cap, x.z), x.cap * x.cap)
        if isinstance(x, PA):
            if x.kind != 'i':
                raise Unsupported('square of a %s array' % x.kind)
            o = onp.empty(x.data.shape, dtype=object)
            of, xf = o.reshape(-1), x.data.reshape(-1)
            for i in range(xf.size):
                of[i] = table_mul(xf[i], x.ecap, xf[i])
            r = PA(o, 'i', x.ext, None if x.ecap is None else x.ecap * x.ecap)
            r.sizes = x.sizes
            return r
        return onp.square(x)

    def tile(self, a, reps):
        if not isinstance(a, PA) and not any(isinstance(r, SInt) for r in _shape_tuple(reps)):
            return onp.tile(a, reps)
        if not isinstance(a, PA):
            a = PA(_as_obj(onp.asarray(a)), _kind_of_dtype(onp.asarray(a).dtype))
        reps = _shape_tuple(reps)
        if all(isinstance(r, (int, onp.integer)) for r in reps) and not (a.ndim == 1 and len(reps) == 2 and int(reps[1]) == 1):
            # concrete repetition counts: numpy's tile on the entries; an axis of symbolic extent must not be repeated
            ext = (None,) * max(len(reps) - a.ndim, 0) + a.ext
            full = (1,) * max(len(ext) - len(reps), 0) + tuple(int(r) for r in reps)
            if any(e is not None and r != 1 for e, r in zip(ext, full)):
                raise Unsupported('tile along an axis of symbolic extent')
            return PA(onp.tile(a.data, reps), a.kind, ext, a.ecap)
        if a.ndim != 1 or len(reps) != 2 or not (isinstance(reps[1], (int, onp.integer)) and int(reps[1]) == 1):
            raise Unsupported('tile of a %d-d array with reps %r' % (a.ndim, reps))
        m = reps[0]
        cm = m.cap if isinstance(m, SInt) else int(m)
        d = onp.empty((cm, a.data.shape[0]), dtype=object)
        for r in range(cm):
            d[r, :] = a.data
        return PA(d, a.kind, (raw(m) if isinstance(m, SInt) else None, a.ext[0]), a.ecap)


class JNP:
    """`np` (jax.numpy) as DofManager's methods see it in the symbolic run"""

    def __getattr__(self, name):
        import jax.numpy as jnp
        return getattr(jnp, name)

    def zeros(self, shape, dtype=float):
        return ONP().zeros(shape, dtype=dtype)

    def sum(self, a, axis=None):
        if isinstance(a, PA):
            return ONP().sum(a, axis=axis)
        import jax.numpy as jnp
        return jnp.sum(a, axis=axis)

    def any(self, a, axis=None):
        return ONP().any(a, axis)

    def all(self, a, axis=None):
        return ONP().all(a, axis)

    def count_nonzero(self, a, axis=None):
        return ONP().count_nonzero(a, axis)

    def asarray(self, v, dtype=None, **k):
        return ONP().asarray(v, dtype=dtype, **k)

    def array(self, v, dtype=None, **k):
        return ONP().array(v, dtype=dtype, **k)


def load_function_space_module():
    """the REAL source of optimism/FunctionSpace.py executed in a fresh namespace; only the names `onp` and `np` of that
    namespace are re-bound (to the shims) — DofManager's statements are the repository's"""
    mod = px.load_module(REL)
    mod.onp = ONP()
    mod.np = JNP()
    install_builtin_shims(mod)
    return mod


class IntShim(int):
    """the builtin `int` as the executed source sees it: int(symbolic size) is the size itself; everything else (including
    `dtype=int`, isinstance checks) is the real int"""

    def __new__(cls, x=0, *a):
        if isinstance(x, SInt):
            return x
        return int(x, *a)


def _len_shim(x):
    if isinstance(x, PA) and x.ext[0] is not None:
        return SInt(x.ext[0], x.data.shape[0])
    return len(x)


def install_builtin_shims(mod):
    b = mod.__dict__['__builtins__']
    b['int'] = IntShim
    b['len'] = _len_shim


# ------------------------------------------------------------------------------------------ views of results (symbolic or real)
def dense_pa(values, kind, shape=None):
    d = onp.empty((len(values),), dtype=object)
    for i, v in enumerate(values):
        d[i] = px.unwrap(v)
    if shape is not None:
        d = d.reshape(shape)
    return PA(d, kind)


def padded_pa(values, length, kind):
    d = onp.empty((len(values),), dtype=object)
    for i, v in enumerate(values):
        d[i] = px.unwrap(v)
    return PA(d, kind, (raw(length),))


class View:
    """flat entries + length of a result, from a PA (symbolic run) or a real numpy / jax array (replay); at(p) beyond the
    stored entries returns a dummy (always guarded by p < length in the goals)"""

    def __init__(self, x):
        if isinstance(x, PA):
            if x.ndim == 1:
                self.vals, self.n = list(x.data), x.length()
            else:
                x._need_dense('view')
                self.vals, self.n = list(x.data.reshape(-1)), x.data.size
            self.shape = x.data.shape
        else:
            a = onp.asarray(x)
            self.vals = [v.item() for v in a.reshape(-1)]
            self.n = len(self.vals)
            self.shape = a.shape

    def at(self, p):
        return self.vals[p] if p < len(self.vals) else 0


def sz(x):
    """a size returned by the code (SInt in the symbolic run, python int in a replay)"""
    if isinstance(x, SInt):
        return x.z
    return x


# ------------------------------------------------------------------------------------------ bounded meshes and BC lists
class Cfg:
    def __init__(self, name, coords, conns, dim, extra=True, blocks=None, negative=False):
        self.name, self.coords, self.conns, self.dim = name, coords, conns, dim
        self.blocks = blocks           # ordered ((name, element ids), ...) -> mesh.blocks dict in this order; None: no blocks
        self.nN, self.nEl = len(coords), len(conns)
        self.ndof = self.nN * dim
        self.nD = len(conns[0]) * dim          # dofs per element (3 nodes for the P1 meshes)
        # one independent node set per component (=> isBc is an arbitrary mask), an overlapping set on component 0, the set of
        # component 0 re-used on the last component, and the first BC repeated verbatim
        self.bcs = [('A%d' % c, c) for c in range(dim)]
        if extra:
            self.bcs += [('X', 0), ('A0', dim - 1), ('A0', 0)]
        if negative:
            # EssentialBC records with NEGATIVE components (numpy indexing: -1 is the last field, -dim the first): the whole
            # accepted range -dim..dim-1 occurs
            self.bcs = [(s_, c - dim) for s_, c in self.bcs[:dim]] + self.bcs[dim:] + [('X', -1)]
        self.sets = sorted({s for s, _ in self.bcs})

    def describe(self):
        return ('' if self.blocks is None else 'mesh.blocks = %s (dict order); ' % (dict(self.blocks),)) + '%s: %d triangle(s) %s, %d nodes, %d field(s) per node (%d dofs); essential BCs (nodeSet, component) = %s' % (
            self.name, self.nEl, self.conns, self.nN, self.dim, self.ndof, self.bcs)


TRI1 = ([[0.0, 0.0], [1.0, 0.0], [0.0, 1.0]], [[0, 1, 2]])
TRI2 = ([[0.0, 0.0], [1.0, 0.0], [1.0, 1.0], [0.0, 1.0]], [[0, 1, 2], [0, 2, 3]])
TRI2B = ([[1.0, 1.0], [0.0, 0.0], [0.0, 1.0], [1.0, 0.0]], [[3, 0, 1], [2, 1, 0]])       # another numbering of the same two triangles


TRI1GAP = ([[0.0, 0.0], [1.0, 0.0], [0.5, 0.5], [0.0, 1.0]], [[0, 1, 3]])          # node 2 (middle of the node list) belongs to no element
STRIP4 = ([[0.0, 0.0], [1.0, 0.0], [2.0, 0.0], [0.0, 1.0], [1.0, 1.0], [2.0, 1.0]], [[0, 1, 4], [0, 4, 3], [1, 2, 5], [1, 5, 4]])


def block_cfgs():
    """meshes WITH element blocks whose concatenation in dictionary order is not 0..nEl-1 (DofManager must not depend on it)"""
    return [Cfg('tri2_f1_blocks_b1_a0', *TRI2, 1, blocks=(('b', (1,)), ('a', (0,)))),
            Cfg('tri2_f2_blocks_b1_a0', *TRI2, 2, extra=False, blocks=(('b', (1,)), ('a', (0,)))),
            Cfg('strip4_f1_blocks_interleaved', *STRIP4, 1, extra=False, blocks=(('x', (0, 2)), ('y', (1, 3))))]


def cfgs(tier_thorough):
    out = [Cfg('tri1_f1', *TRI1, 1), Cfg('tri1_f2', *TRI1, 2), Cfg('tri2_f1', *TRI2, 1), Cfg('tri2_f2', *TRI2, 2), Cfg('tri2b_f2', *TRI2B, 2),
           Cfg('tri1gap_f2', *TRI1GAP, 2, extra=False), Cfg('tri2_f2_negative_components', *TRI2, 2, extra=False, negative=True),
           Cfg('tri1_f1_negative_component', *TRI1, 1, extra=False, negative=True)]
    if tier_thorough:
        out += [Cfg('tri1_f3', *TRI1, 3), Cfg('tri2_f3', *TRI2, 3)]
    return out


class IndexSet:
    """a node set given as an index array of symbolic length whose entries are arbitrary node ids (repeated entries and any order
    allowed)"""

    def __init__(self, entries, length):
        self.entries, self.length = entries, length


def int_from_bits(bits):
    """integer with the given binary digits (free Booleans) -> one-hot"""
    if all(num(b) for b in bits):
        return sum((1 << k) for k, b in enumerate(bits) if b)
    return _oh([(val, b_and(*[(b if (val >> k) & 1 else b_not(b)) for k, b in enumerate(bits)])) for val in range(2 ** len(bits))])


def draw_index_sets(ex, cfg, L):
    """every node set is an index array of length 0..L (symbolic) with entries in 0..nN-1 (symbolic, repeats and any order)"""
    nb_len, nb_ent = max(1, int(L).bit_length()), max(1, int(cfg.nN - 1).bit_length())
    out = {}
    for s in cfg.sets:
        ln = int_from_bits([px.unwrap(ex.bool('len_%s_bit%d' % (s, k))) for k in range(nb_len)])
        ex.assume(i_le(ln, L))
        ents = []
        for p in range(L):
            v = int_from_bits([px.unwrap(ex.bool('idx_%s_%d_bit%d' % (s, p, k))) for k in range(nb_ent)])
            ex.assume(i_lt(v, cfg.nN))
            ents.append(v)
        out[s] = IndexSet(ents, ln)
    return out


class Oracle:
    """what the BC list means, written independently of DofManager from the membership flags: dof d = node*dim + component is
    constrained iff some essential BC names (a set containing the node, the component)"""

    def __init__(self, cfg, member):
        self.cfg = cfg
        self.bc = []
        for n in range(cfg.nN):
            for c in range(cfg.dim):
                self.bc.append(b_or(*[self._has(member[s], n) for s, cc in cfg.bcs if cc % cfg.dim == c]))
        self.free = [b_not(x) for x in self.bc]
        self.rank_free, self.nfree = prefix_counts(self.free)
        self.rank_bc, self.nbc = prefix_counts(self.bc)

    @staticmethod
    def _has(ns, n):
        """node n belongs to node set ns: membership flags, or IndexSet (entries idx[p], p < length)"""
        if isinstance(ns, IndexSet):
            return b_or(*[b_and(i_lt(p, ns.length), i_eq(ns.entries[p], n)) for p in range(len(ns.entries))])
        return ns[n]

    def eldof(self, e, i):
        cfg = self.cfg
        return cfg.conns[e][i // cfg.dim] * cfg.dim + i % cfg.dim

    def efree(self, e, i):
        return self.free[self.eldof(e, i)]

    def unk(self, e, i):
        return self.rank_free[self.eldof(e, i)]


def real_function_space(cfg, nodeSets, mode2D='cartesian'):
    import jax.numpy as jnp
    from optimism import FunctionSpace, Mesh, Interpolants, QuadratureRule
    pe, pe1 = Interpolants.make_parent_elements(1)
    blocks = {'block_0': jnp.arange(cfg.nEl)} if cfg.blocks is None else {k: jnp.array(v) for k, v in cfg.blocks}
    mesh = Mesh.Mesh(jnp.array(cfg.coords), jnp.array(cfg.conns), None, pe, pe1, blocks, nodeSets, None)
    return FunctionSpace.construct_function_space(mesh, QuadratureRule.create_quadrature_rule_on_triangle(1), mode2D)


def build_dof_manager(cfg, member, symbolic, mod=None):
    """member: dict set name -> list of raw Booleans (z3 / python). symbolic: run the real source on padded arrays; else the real
    library class on real arrays"""
    if symbolic:
        from optimism import Mesh
        mod = mod or load_function_space_module()
        ar = ONP().arange(cfg.nN)
        nodeSets = {}
        for s in cfg.sets:
            if isinstance(member[s], IndexSet):
                d = onp.empty((len(member[s].entries),), dtype=object)
                d[:] = member[s].entries
                nodeSets[s] = PA(d, 'i', (member[s].length,), cfg.nN - 1)
            else:
                nodeSets[s] = ar[dense_pa(member[s], 'b')]            # index array of symbolic length
        blocks = None if cfg.blocks is None else {k: onp.asarray(v) for k, v in cfg.blocks}
        mesh = Mesh.Mesh(onp.asarray(cfg.coords), onp.asarray(cfg.conns), None, None, None, blocks, nodeSets, None)
        fs = types.SimpleNamespace(mesh=mesh)
        FS = mod
    else:
        import jax.numpy as jnp
        from optimism import FunctionSpace as FS
        nodeSets = {s: (jnp.array([int(v) for v in member[s].entries[:int(member[s].length)]], dtype=int) if isinstance(member[s], IndexSet)
                        else jnp.array([j for j in range(cfg.nN) if member[s][j]], dtype=int)) for s in cfg.sets}
        fs = real_function_space(cfg, nodeSets)
    ebcs = [FS.EssentialBC(nodeSet=s, component=c) for s, c in cfg.bcs]
    return FS.DofManager(fs, cfg.dim, ebcs), fs


def draw_member(ex, cfg):
    member = {}
    for s in cfg.sets:
        member[s] = [px.unwrap(ex.bool('in_%s_node%d' % (s, j))) for j in range(cfg.nN)]
    return member


def field_in(ex, name, shape, symbolic):
    """a field of free reals: PA (symbolic) or jax array (replay); also the flat list of raw values"""
    n = int(onp.prod(shape))
    vals = [px.unwrap(ex.real('%s_%d' % (name, i))) for i in range(n)]
    if symbolic:
        return dense_pa(vals, 'f', shape), vals
    import jax.numpy as jnp
    return jnp.array(onp.asarray(vals, dtype=float).reshape(shape)), vals


def padded_in(ex, name, cap, length, symbolic):
    """a vector of `length` (<= cap) free reals"""
    vals = [px.unwrap(ex.real('%s_%d' % (name, i))) for i in range(cap)]
    if symbolic:
        return padded_pa(vals, length, 'f'), vals
    import jax.numpy as jnp
    return jnp.array(onp.asarray(vals[:int(length)], dtype=float)), vals


def v_eq(a, b):
    if num(a) and num(b):
        return a == b
    return sym.toz(a) == sym.toz(b)


# ------------------------------------------------------------------------------------------ goals
def goals_partition(G, cfg, orc, dm):
    nd = cfg.ndof
    isBc, isUn = View(dm.isBc), View(dm.isUnknown)
    G('isBc_is_the_union_of_the_essential_bc_sets', [b_iff(isBc.at(d), orc.bc[d]) for d in range(nd)] + [b_iff(isUn.at(d), orc.free[d]) for d in range(nd)])
    uI, bI = View(dm.unknownIndices), View(dm.bcIndices)
    G('unknown_indices_increasing', [b_implies(i_lt(p + 1, uI.n), i_lt(uI.at(p), uI.at(p + 1))) for p in range(nd - 1)])
    G('bc_indices_increasing', [b_implies(i_lt(p + 1, bI.n), i_lt(bI.at(p), bI.at(p + 1))) for p in range(nd - 1)])
    G('indices_are_dof_ids', [b_implies(i_lt(p, v.n), b_and(i_le(0, v.at(p)), i_lt(v.at(p), nd))) for v in (uI, bI) for p in range(nd)] +
      [b_and(i_le(0, v.n), i_le(v.n, nd)) for v in (uI, bI)])
    G('unknown_and_bc_indices_disjoint', [b_implies(b_and(i_lt(p, uI.n), i_lt(q, bI.n)), b_not(i_eq(uI.at(p), bI.at(q)))) for p in range(nd) for q in range(nd)])
    G('union_of_unknown_and_bc_indices_is_all_dofs', [b_or(*([b_and(i_lt(p, uI.n), i_eq(uI.at(p), d)) for p in range(nd)] + [b_and(i_lt(p, bI.n), i_eq(bI.at(p), d)) for p in range(nd)]))
                                                      for d in range(nd)] + [i_eq(i_add(uI.n, bI.n), nd)])
    G('bc_indices_are_exactly_the_dofs_named_by_an_essential_bc', [b_implies(b_and(i_lt(q, bI.n), i_eq(bI.at(q), d)), orc.bc[d]) for q in range(nd) for d in range(nd)] +
      [b_implies(b_and(i_lt(p, uI.n), i_eq(uI.at(p), d)), orc.free[d]) for p in range(nd) for d in range(nd)])
    G('unknown_index_p_is_the_pth_unconstrained_dof', [i_eq(uI.n, orc.nfree)] + [b_implies(b_and(orc.free[d], i_eq(orc.rank_free[d], p)), i_eq(uI.at(p), d)) for d in range(nd) for p in range(d + 1)])
    G('bc_index_p_is_the_pth_constrained_dof', [i_eq(bI.n, orc.nbc)] + [b_implies(b_and(orc.bc[d], i_eq(orc.rank_bc[d], p)), i_eq(bI.at(p), d)) for d in range(nd) for p in range(d + 1)])
    d2u = View(dm.dofToUnknown)
    G('dofToUnknown_is_the_rank_among_unknowns_or_minus_one', [i_eq(d2u.at(d), ite(orc.free[d], orc.rank_free[d], -1, 'i')) for d in range(nd)] + [i_eq(d2u.n, nd)])
    ids = View(dm.ids)
    G('ids_is_node_times_fields_plus_component', [i_eq(ids.at(d), d) for d in range(nd)] + [ids.shape == (cfg.nN, cfg.dim)])


def goals_sizes(G, cfg, orc, dm):
    nb, nu = sz(dm.get_bc_size()), sz(dm.get_unknown_size())
    G('bc_size_is_the_number_of_constrained_dofs', [i_eq(nb, orc.nbc)])
    G('unknown_size_is_the_number_of_unconstrained_dofs', [i_eq(nu, orc.nfree)])
    G('sizes_add_up_to_all_dofs', [i_eq(i_add(nb, nu), cfg.ndof)])
    G('sizes_are_the_lengths_of_the_index_arrays', [i_eq(nu, View(dm.unknownIndices).n), i_eq(nb, View(dm.bcIndices).n), i_eq(sz(dm.unknownIndices.size), nu)])


def goals_roundtrip(G, cfg, orc, dm, ex):
    nd, symbolic = cfg.ndof, ex.symbolic
    U, Uv = field_in(ex, 'U', (cfg.nN, cfg.dim), symbolic)
    Uu = dm.get_unknown_values(U)
    Ub = dm.get_bc_values(U)
    vu, vb = View(Uu), View(Ub)
    G('unknown_values_are_the_unconstrained_entries_in_dof_order', [i_eq(vu.n, orc.nfree)] +
      [b_implies(b_and(orc.free[d], i_eq(orc.rank_free[d], p)), v_eq(vu.at(p), Uv[d])) for d in range(nd) for p in range(d + 1)])
    G('bc_values_are_the_constrained_entries_in_dof_order', [i_eq(vb.n, orc.nbc)] +
      [b_implies(b_and(orc.bc[d], i_eq(orc.rank_bc[d], p)), v_eq(vb.at(p), Uv[d])) for d in range(nd) for p in range(d + 1)])
    U2 = View(dm.create_field(Uu, Ub))
    G('split_then_recombine_returns_the_field', [v_eq(U2.at(d), Uv[d]) for d in range(nd)] + [U2.shape == (cfg.nN, cfg.dim)])
    # converse: recombine arbitrary unknown / bc vectors of the right lengths, then split
    Wu, Wuv = padded_in(ex, 'Wu', nd, orc.nfree, symbolic)
    Wb, Wbv = padded_in(ex, 'Wb', nd, orc.nbc, symbolic)
    F = dm.create_field(Wu, Wb)
    fu, fb, fv = View(dm.get_unknown_values(F)), View(dm.get_bc_values(F)), View(F)
    G('recombine_then_split_returns_the_unknown_values', [i_eq(fu.n, orc.nfree)] + [b_implies(i_lt(p, orc.nfree), v_eq(fu.at(p), Wuv[p])) for p in range(nd)])
    G('recombine_then_split_returns_the_bc_values', [i_eq(fb.n, orc.nbc)] + [b_implies(i_lt(p, orc.nbc), v_eq(fb.at(p), Wbv[p])) for p in range(nd)])
    G('created_field_holds_unknown_p_at_the_pth_unconstrained_dof', [b_implies(b_and(orc.free[d], i_eq(orc.rank_free[d], p)), v_eq(fv.at(d), Wuv[p])) for d in range(nd) for p in range(d + 1)] +
      [b_implies(b_and(orc.bc[d], i_eq(orc.rank_bc[d], p)), v_eq(fv.at(d), Wbv[p])) for d in range(nd) for p in range(d + 1)])
    F0 = View(dm.create_field(Wu))
    G('created_field_default_bc_value_is_zero', [v_eq(F0.at(d), ite(orc.bc[d], 0.0, fv.at(d), 'f')) for d in range(nd)])


def goals_slice(G, cfg, orc, dm, ex):
    """HISTORY of calls on one DofManager: every component is sliced, then every component is sliced again (so each call is
    preceded by calls for the same and for the other components); every result must be the unconstrained entries of its
    component, and the calls must leave the manager's own arrays as they were"""
    nd, symbolic = cfg.ndof, ex.symbolic
    Wu, Wuv = padded_in(ex, 'Wu', nd, orc.nfree, symbolic)
    for rnd, gname in ((0, 'component_slice_is_the_unconstrained_entries_of_the_component_in_node_order'),
                       (1, 'repeated_component_slice_is_the_unconstrained_entries_of_the_component_in_node_order')):
        for k in range(cfg.dim):
            r = View(dm.slice_unknowns_with_dof_indices(Wu, (slice(None), k)))
            fk = [orc.free[n * cfg.dim + k] for n in range(cfg.nN)]
            rk, nk = prefix_counts(fk)
            conds = [i_eq(r.n, nk)]
            for n in range(cfg.nN):
                d = n * cfg.dim + k
                for p in range(n + 1):
                    for u in range(d + 1):
                        conds.append(b_implies(b_and(fk[n], i_eq(rk[n], p), i_eq(orc.rank_free[d], u)), v_eq(r.at(p), Wuv[u])))
            G(gname, conds)
    # node index ARRAYS instead of "all nodes": descending, and with a repeated node — the result follows the given array
    for label, arr in (('descending', list(range(cfg.nN - 1, -1, -1))), ('repeated', [0, cfg.nN - 1, cfg.nN - 1, 0] + list(range(cfg.nN)))):
        for k in range(cfg.dim):
            if symbolic:
                key = (onp.asarray(arr, dtype=int), k)
            else:
                import jax.numpy as jnp
                key = (onp.asarray(arr, dtype=int), k)
            r = View(dm.slice_unknowns_with_dof_indices(Wu, key))
            fk = [orc.free[n * cfg.dim + k] for n in arr]
            rk, nk = prefix_counts(fk)
            conds = [i_eq(r.n, nk)]
            for q, n in enumerate(arr):
                d = n * cfg.dim + k
                for p in range(q + 1):
                    for u in range(d + 1):
                        conds.append(b_implies(b_and(fk[q], i_eq(rk[q], p), i_eq(orc.rank_free[d], u)), v_eq(r.at(p), Wuv[u])))
            G('component_slice_by_node_array_follows_the_order_and_repeats_of_the_array', conds)
    d2u, isUn, isBc, uI = View(dm.dofToUnknown), View(dm.isUnknown), View(dm.isBc), View(dm.unknownIndices)
    G('slicing_leaves_the_dof_manager_unchanged',
      [i_eq(d2u.at(d), ite(orc.free[d], orc.rank_free[d], -1, 'i')) for d in range(nd)] + [i_eq(d2u.n, nd)] +
      [b_iff(isUn.at(d), orc.free[d]) for d in range(nd)] + [b_iff(isBc.at(d), orc.bc[d]) for d in range(nd)] +
      [i_eq(uI.n, orc.nfree)] + [b_implies(b_and(orc.free[d], i_eq(orc.rank_free[d], p)), i_eq(uI.at(p), d)) for d in range(nd) for p in range(d + 1)])


def coo_oracle(cfg, orc):
    """C-order stream of the unknown x unknown entries of the element blocks: M[e][i][j], rank of each in the stream, per-element
    offsets — from conns and the BC list only"""
    nEl, nD = cfg.nEl, cfg.nD
    M = [[[b_and(orc.efree(e, i), orc.efree(e, j)) for j in range(nD)] for i in range(nD)] for e in range(nEl)]
    flat = [M[e][i][j] for e in range(nEl) for i in range(nD) for j in range(nD)]
    pre, total = prefix_counts(flat)
    rank = lambda e, i, j: pre[(e * nD + i) * nD + j]
    ne = [count([orc.efree(e, i) for i in range(nD)]) for e in range(nEl)]
    off = [0]
    for e in range(nEl):
        off.append(i_add(off[-1], table_mul(ne[e], nD, ne[e])))
    return M, rank, total, off


def goals_coo(G, cfg, orc, dm):
    nEl, nD, nd = cfg.nEl, cfg.nD, cfg.ndof
    cap = nEl * nD * nD
    rows, cols, mask = View(dm.HessRowCoords), View(dm.HessColCoords), View(dm.hessian_bc_mask)
    M, rank, total, off = coo_oracle(cfg, orc)
    idx = lambda e, i, j: (e * nD + i) * nD + j
    G('hessian_bc_mask_marks_the_unknown_by_unknown_entries', [b_iff(mask.at(idx(e, i, j)), M[e][i][j]) for e in range(nEl) for i in range(nD) for j in range(nD)] + [mask.shape == (nEl, nD, nD)])
    G('coo_lengths_equal_the_number_of_masked_entries', [i_eq(rows.n, total), i_eq(cols.n, total), i_eq(off[-1], total)])
    G('coo_coordinates_are_unknown_ids', [b_implies(i_lt(t, v.n), b_and(i_le(0, v.at(t)), i_lt(v.at(t), orc.nfree))) for v in (rows, cols) for t in range(cap)])
    # each element's segment [off_e, off_e+1) of the stream addresses exactly the pairs (u, v) of unknowns of that element, each
    # once: the pairs of a segment lie in U_e x U_e, every pair of U_e x U_e occurs, no pair occurs twice
    seg = [[b_and(i_le(off[e], t), i_lt(t, off[e + 1])) for t in range(cap)] for e in range(nEl)]
    within, onto, norepeat = [], [], []
    for e in range(nEl):
        inel = [b_or(*[b_and(orc.efree(e, i), i_eq(orc.unk(e, i), u)) for i in range(nD)]) for u in range(nd)]
        lo, hi = e * 0, min(cap, (e + 1) * nD * nD)          # static range of the segment: offsets are sums of squares <= nD^2
        for t in range(lo, hi):
            within.append(b_implies(seg[e][t], b_and(b_or(*[b_and(inel[u], i_eq(rows.at(t), u)) for u in range(nd)]),
                                                      b_or(*[b_and(inel[u], i_eq(cols.at(t), u)) for u in range(nd)]))))
        for u in range(nd):
            for v in range(nd):
                onto.append(b_implies(b_and(inel[u], inel[v]), b_or(*[b_and(seg[e][t], i_eq(rows.at(t), u), i_eq(cols.at(t), v)) for t in range(lo, hi)])))
        for t in range(lo, hi):
            for t2 in range(t + 1, hi):
                norepeat.append(b_not(b_and(seg[e][t], seg[e][t2], i_eq(rows.at(t), rows.at(t2)), i_eq(cols.at(t), cols.at(t2)))))
    G('coo_pairs_of_an_element_are_pairs_of_its_unknowns', within + [b_implies(i_lt(t, rows.n), b_or(*[seg[e][t] for e in range(nEl)])) for t in range(cap)])
    G('coo_pairs_cover_every_unknown_by_unknown_entry_of_each_element', onto)
    G('coo_pairs_address_no_entry_of_an_element_twice', norepeat)
    # pairing with the masked values kValues[hessian_bc_mask] (C order): entry t of the stream is the (e,i,j) of rank t; its pair is
    # (unknown of i, unknown of j) for all t, or (unknown of j, unknown of i) for all t (the orientation matters only for
    # unsymmetric element blocks and is decided in C02-O1)
    straight, transposed = [], []
    for e in range(nEl):
        for i in range(nD):
            for j in range(nD):
                for t in range(idx(e, i, j) + 1):
                    here = b_and(M[e][i][j], i_eq(rank(e, i, j), t))
                    straight.append(b_implies(here, b_and(i_eq(rows.at(t), orc.unk(e, i)), i_eq(cols.at(t), orc.unk(e, j)))))
                    transposed.append(b_implies(here, b_and(i_eq(rows.at(t), orc.unk(e, j)), i_eq(cols.at(t), orc.unk(e, i)))))
    G('coo_pair_t_belongs_to_masked_entry_t_up_to_one_global_transposition', [b_or(b_and(*straight), b_and(*transposed))])


def make_history_harness(cfgA, cfgB):
    """two DofManagers built one after the other IN THE SAME loaded module namespace (module-level state of FunctionSpace.py
    persists between them): mesh A, then mesh B with the same array shapes, another connectivity and the SAME symbolic mask.
    The goals are stated for the second one. Replay: the two real DofManagers are built in that order after the library module has
    been re-initialised (importlib.reload), i.e. as in a fresh interpreter."""
    assert cfgA.nN == cfgB.nN and cfgA.dim == cfgB.dim and cfgA.bcs == cfgB.bcs and onp.shape(cfgA.conns) == onp.shape(cfgB.conns)

    def fn(ex):
        member = draw_member(ex, cfgA)
        mod = load_function_space_module() if ex.symbolic else None
        if not ex.symbolic:
            import importlib
            import optimism.FunctionSpace as _FS
            importlib.reload(_FS)
        build_dof_manager(cfgA, member, ex.symbolic, mod=mod)
        dmB, _ = build_dof_manager(cfgB, member, ex.symbolic, mod=mod)
        orcB = Oracle(cfgB, member)

        def G(name, conds):
            ex.goal(name, Holds(list(conds)), info='second DofManager (%s) built after one for %s' % (cfgB.name, cfgA.name))
        goals_coo(G, cfgB, orcB, dmB)
        goals_partition(G, cfgB, orcB, dmB)
    return fn


PARTS = {
    'partition': lambda G, cfg, orc, dm, ex: goals_partition(G, cfg, orc, dm),
    'sizes': lambda G, cfg, orc, dm, ex: goals_sizes(G, cfg, orc, dm),
    'roundtrip': goals_roundtrip,
    'slice': goals_slice,
    'coo': lambda G, cfg, orc, dm, ex: goals_coo(G, cfg, orc, dm),
}


def make_harness(cfg, parts, mod_cache=None, index_sets=None):
    def fn(ex):
        member = draw_member(ex, cfg) if index_sets is None else draw_index_sets(ex, cfg, index_sets)
        orc = Oracle(cfg, member)
        dm, _ = build_dof_manager(cfg, member, ex.symbolic, mod=None if mod_cache is None else mod_cache.get('mod'))

        def G(name, conds):
            ex.goal(name, Holds(list(conds)), info='%s' % cfg.name)
        for p in parts:
            PARTS[p](G, cfg, orc, dm, ex)
    return fn


# ------------------------------------------------------------------------------------------ solver portfolio
# the COO queries are purely propositional (one-hot integers): z3's AIG + SAT pipeline decides them 2-3x faster than the SMT
# core (tri2 x 3 fields: 36 s against > 120 s). Registered as an extra solver kind of vf.sym in this worker process only.
_mk_solver_orig = sym._mk_solver


def _mk_solver(kind, ctx=None):
    if kind == 'sat':
        return z3.Then(z3.Tactic('simplify', ctx=ctx), z3.Tactic('aig', ctx=ctx), z3.Tactic('sat', ctx=ctx)).solver()
    if kind == 'lra2':      # SMT core with the older simplex implementation: ~3x faster on the ite-heavy linear sums of C02-O1
        s = z3.Solver(ctx=ctx)
        s.set('arith.solver', 2)
        return s
    return _mk_solver_orig(kind, ctx)


sym._mk_solver = _mk_solver


# ------------------------------------------------------------------------------------------ O0: the model against numpy
def to_numpy(x):
    """a result of the model run on CONCRETE flags (entries are python values) -> numpy array trimmed to its extent"""
    if isinstance(x, SInt):
        return int(x.z)
    if isinstance(x, PA):
        if x.ndim == 1:
            return onp.array([int(v) if x.kind == 'i' else v for v in x.data[:int(x.length())]], dtype=x.dtype)
        x._need_dense('to_numpy')
        return onp.array(x.data.tolist(), dtype=x.dtype)
    return x


ATTRS = ('isBc', 'isUnknown', 'ids', 'unknownIndices', 'bcIndices', 'dofToUnknown', 'HessRowCoords', 'HessColCoords', 'hessian_bc_mask')


def observe(cfg, dm, model):
    """every attribute and method result the goals speak about, as plain numpy values"""
    import jax.numpy as jnp
    conv = to_numpy if model else (lambda a: onp.array(a) if not isinstance(a, int) else a)      # copies: later calls may mutate the manager's arrays
    out = {a: conv(getattr(dm, a)) for a in ATTRS}
    out['fieldShape'] = tuple(dm.fieldShape)
    out['bc_size'], out['unknown_size'] = conv(dm.get_bc_size()), conv(dm.get_unknown_size())
    uvals = [0.5 + 1.25 * i for i in range(cfg.ndof)]
    U = dense_pa(uvals, 'f', (cfg.nN, cfg.dim)) if model else jnp.array(uvals).reshape(cfg.nN, cfg.dim)
    Uu, Ub = dm.get_unknown_values(U), dm.get_bc_values(U)
    out['unknown_values'], out['bc_values'] = conv(Uu), conv(Ub)
    out['create_field'] = conv(dm.create_field(Uu, Ub))
    out['create_field_default'] = conv(dm.create_field(Uu))
    wvals = [-3.0 + 0.75 * i for i in range(cfg.ndof)]
    nu = int(out['unknown_size'])
    W = padded_pa(wvals, nu, 'f') if model else jnp.array(wvals[:nu])
    out['create_field_from_vector'] = conv(dm.create_field(W, 7.0))
    for k in range(cfg.dim):
        out['slice_%d' % k] = conv(dm.slice_unknowns_with_dof_indices(W, (slice(None), k)))
    return out


def masks_of(cfg, index):
    """membership flags of configuration number `index`: the independent sets A_c spell the bits of `index` (so every mask of
    the mesh occurs), the extra sets vary with it"""
    member = {}
    for c in range(cfg.dim):
        member['A%d' % c] = [bool((index >> (n * cfg.dim + c)) & 1) for n in range(cfg.nN)]
    if 'X' in cfg.sets:
        x = (index * 2654435761 + 12345) >> 3
        member['X'] = [bool((x >> n) & 1) for n in range(cfg.nN)]
    return member


def validate_model(h, cfg, indices, tag):
    mod = load_function_space_module()
    bad, n = [], 0
    for index in indices:
        member = masks_of(cfg, index)
        n += 1
        try:
            dm_m, _ = build_dof_manager(cfg, member, True, mod=mod)
            om = observe(cfg, dm_m, True)
        except (IndexError, ValueError) as e:
            om = {'raised': type(e).__name__}
        try:
            dm_r, _ = build_dof_manager(cfg, member, False)
            orr = observe(cfg, dm_r, False)
        except (IndexError, ValueError, TypeError) as e:
            orr = {'raised': type(e).__name__}
        diff = [k for k in set(om) | set(orr) if k not in om or k not in orr or not _same_value(om[k], orr[k])]
        if diff:
            bad.append((index, diff[:4]))
    h.fact('padded_array_model_agrees_with_numpy[%s%s]' % (cfg.name, tag), not bad,
           detail='%d BC configurations (every mask of the %d dofs) compared on %d attributes / method results; mismatches: %s' % (n, cfg.ndof, len(ATTRS) + 9 + cfg.dim, bad[:3]))


def _same_value(a, b):
    if isinstance(a, (int, str, tuple)) or isinstance(b, (int, str, tuple)):
        return type(a) is type(b) and a == b
    a, b = onp.asarray(a), onp.asarray(b)
    return a.shape == b.shape and a.dtype.kind == b.dtype.kind and bool(onp.array_equal(a, b))


# ------------------------------------------------------------------------------------------ obligations
def _meta(h, cs, what):
    from ..core import REPO
    from optimism import FunctionSpace
    src = open(os.path.join(REPO, REL)).read()
    D = FunctionSpace.DofManager
    h.encoded('optimism/FunctionSpace.py executed as source on padded arrays (file sha1=%s)' % hashlib.sha1(src.encode()).hexdigest()[:12],
              D.__init__, D.get_bc_size, D.get_unknown_size, D.create_field, D.get_bc_values, D.get_unknown_values,
              D.slice_unknowns_with_dof_indices, D._make_hessian_coordinates, D._make_hessian_bc_mask)
    h.bounds(*(['bounded meshes (all masks, i.e. every assignment of the node-set membership flags, are covered by each query):'] + [c.describe() for c in cs]))
    h.bounds(what)
    h.assume_note('stub: in the namespace of the executed FunctionSpace.py source the names `onp` (numpy) and `np` (jax.numpy) are bound to the padded-array '
                  'shims ONP / JNP of vf.props.c14 (full, zeros, ones, arange, array, sum, square, tile; boolean-mask and index-array indexing, masked / '
                  'scattered / sliced assignment, reshape, ravel, .T, .at[mask].set); the model is validated against the real DofManager on every '
                  'concrete mask of the bounded meshes (O0) and every solver model is replayed on the real class with real numpy / jax',
                  'every condition under which numpy / jax would raise (length agreement of masked, scattered and sliced assignments, index bounds) is '
                  'itself a goal (numpy_operations_defined); out-of-range gathers count as errors although jax would clamp them',
                  'symbolic integers are one-hot over their finite value sets (exact, no overflow); field values are reals (pure data movement: '
                  'no arithmetic is performed on them)',
                  'functionSpace is represented by its mesh (DofManager reads functionSpace.mesh.coords.shape, .nodeSets, .conns only); node sets are '
                  'index arrays arange(nNodes)[membership flags] of symbolic length')
    h.outside('meshes beyond the bound; element orders > 1 (the code is order-agnostic, not proved); node sets with repeated or unordered entries '
              'inside one set in O3-O5 (O1/O2 cover them: every other attribute is a function of isBc); dofIndexSlice arguments other than (all nodes, component)')


def _run(h, cfg, parts, cap, order=('core',), index_sets=None):
    goals = {'partition': GOALS_PARTITION, 'sizes': GOALS_SIZES, 'roundtrip': GOALS_ROUNDTRIP, 'slice': GOALS_SLICE, 'coo': GOALS_COO}
    px.run_px(h, cfg.name + ('' if index_sets is None else '/index_sets'), make_harness(cfg, parts, index_sets=index_sets), cap=cap, order=order,
              expect_goals=[g for p in parts for g in goals[p]])


GOALS_PARTITION = ['isBc_is_the_union_of_the_essential_bc_sets', 'unknown_indices_increasing', 'bc_indices_increasing', 'indices_are_dof_ids',
                   'unknown_and_bc_indices_disjoint', 'union_of_unknown_and_bc_indices_is_all_dofs', 'bc_indices_are_exactly_the_dofs_named_by_an_essential_bc',
                   'unknown_index_p_is_the_pth_unconstrained_dof', 'bc_index_p_is_the_pth_constrained_dof', 'dofToUnknown_is_the_rank_among_unknowns_or_minus_one',
                   'ids_is_node_times_fields_plus_component']
GOALS_SIZES = ['bc_size_is_the_number_of_constrained_dofs', 'unknown_size_is_the_number_of_unconstrained_dofs', 'sizes_add_up_to_all_dofs',
               'sizes_are_the_lengths_of_the_index_arrays']
GOALS_ROUNDTRIP = ['unknown_values_are_the_unconstrained_entries_in_dof_order', 'bc_values_are_the_constrained_entries_in_dof_order',
                   'split_then_recombine_returns_the_field', 'recombine_then_split_returns_the_unknown_values', 'recombine_then_split_returns_the_bc_values',
                   'created_field_holds_unknown_p_at_the_pth_unconstrained_dof', 'created_field_default_bc_value_is_zero']
GOALS_SLICE = ['component_slice_is_the_unconstrained_entries_of_the_component_in_node_order',
               'repeated_component_slice_is_the_unconstrained_entries_of_the_component_in_node_order', 'slicing_leaves_the_dof_manager_unchanged',
               'component_slice_by_node_array_follows_the_order_and_repeats_of_the_array']
GOALS_COO = ['hessian_bc_mask_marks_the_unknown_by_unknown_entries', 'coo_lengths_equal_the_number_of_masked_entries', 'coo_coordinates_are_unknown_ids',
             'coo_pairs_of_an_element_are_pairs_of_its_unknowns', 'coo_pairs_cover_every_unknown_by_unknown_entry_of_each_element',
             'coo_pairs_address_no_entry_of_an_element_twice', 'coo_pair_t_belongs_to_masked_entry_t_up_to_one_global_transposition']


@obligation(P, 'O0.padded_array_model_agrees_with_numpy', cap=600)
def o0(h):
    """translator validation (ground facts, not the check): on EVERY concrete mask of the bounded meshes the padded-array model
    of the executed source gives the same attributes and method results as the real DofManager on real numpy / jax arrays"""
    cs = [c for c in cfgs(False)] + block_cfgs()
    _meta(h, cs, 'O0: all 2^ndof masks of each mesh with <= 8 dofs; thorough: also all 512 masks of tri1 x 3 fields and 1024 masks of tri2 x 3 fields (every fourth)')
    if h.replay is not None:
        return
    for c in cs:
        validate_model(h, c, range(2 ** c.ndof), '')
    if h.thorough():
        c = Cfg('tri1_f3', *TRI1, 3)
        validate_model(h, c, range(2 ** c.ndof), '')
        c = Cfg('tri2_f3', *TRI2, 3)
        validate_model(h, c, range(0, 2 ** c.ndof, 4), '/every 4th')


@obligation(P, 'O1.indices_partition_all_dofs', cap=300)
def o1(h):
    """unknownIndices and bcIndices are increasing, disjoint, within range, their union is all dofs; they are exactly the dofs
    (not) named by an essential BC, in order; isBc is the union of the BC sets; dofToUnknown is the rank among unknowns or -1
    — for ALL node-set membership flags (empty, full, overlapping, re-used and repeated sets)"""
    cs = cfgs(h.thorough())
    _meta(h, cs, 'O1: every assignment of the membership flags of every node set')
    for c in cs:
        _run(h, c, ['partition'], cap=60)
    # node sets as index arrays with repeated / unordered entries and symbolic length (0..5 entries each, 4 nodes)
    c = Cfg('tri2_f2', *TRI2, 2, extra=False)
    h.bounds('O1/O2 index-set variant (%s): every node set is an index array of symbolic length 0..5 whose entries are arbitrary node ids (repeats, any order)' % c.name)
    _run(h, c, ['partition'], cap=60, index_sets=5)


@obligation(P, 'O2.sizes_are_popcounts', cap=300)
def o2(h):
    """get_bc_size / get_unknown_size equal the number of constrained / unconstrained dofs, add up to all dofs and are the
    lengths of the index arrays, for all masks"""
    cs = cfgs(h.thorough())
    _meta(h, cs, 'O2: every assignment of the membership flags')
    for c in cs:
        _run(h, c, ['sizes'], cap=60)
    c = Cfg('tri2_f2', *TRI2, 2, extra=False)
    h.bounds('O1/O2 index-set variant (%s): every node set is an index array of symbolic length 0..5 whose entries are arbitrary node ids (repeats, any order)' % c.name)
    _run(h, c, ['sizes'], cap=60, index_sets=5)


@obligation(P, 'O3.split_recombine_round_trip', cap=300)
def o3(h):
    """create_field(get_unknown_values(U), get_bc_values(U)) == U, and get_*_values(create_field(Wu, Wb)) == (Wu, Wb) for
    vectors of the right lengths; the split keeps dof order; the default bc value is 0 — all masks, symbolic field values"""
    cs = cfgs(h.thorough())
    _meta(h, cs, 'O3: field values U (nNodes x nFields), unknown vector Wu (length = number of unknowns), bc vector Wb (length = number of constrained dofs): free reals')
    for c in cs:
        _run(h, c, ['roundtrip'], cap=60)


@obligation(P, 'O4.component_slice', cap=300)
def o4(h):
    """slice_unknowns_with_dof_indices(Wu, (slice(None), k)) is the vector of the unconstrained entries of component k in node
    order, for every component k, all masks, symbolic unknown vector — also when it is called again after calls for the same and
    the other components (two-round call history), and the calls leave dofToUnknown / isBc / isUnknown / unknownIndices unchanged"""
    cs = cfgs(h.thorough())
    _meta(h, cs, 'O4: every component k of every configuration; Wu free reals')
    for c in cs:
        _run(h, c, ['slice'], cap=60)


def _register_coo():
    for c in cfgs(True) + block_cfgs():
        three = c.dim == 3
        heavy = three and c.nEl == 2

        def ob(h, c=c, heavy=heavy):
            _meta(h, [c], 'O5: the C-order stream of kValues[hessian_bc_mask] against HessRowCoords / HessColCoords; oracle from conns and the BC list by plain loops')
            _run(h, c, ['coo'], cap=900 if heavy else 120, order=('sat', 'core'))
        ob.__doc__ = ('COO maps: hessian_bc_mask marks exactly the unknown x unknown entries of each element block; HessRowCoords / HessColCoords have one '
                      'entry per masked entry, are unknown ids, and each element\'s segment addresses exactly the pairs of that element\'s unknowns, every '
                      'pair once; entry t pairs with masked entry t up to one global transposition — all masks')
        obligation(P, 'O5.coo_maps[%s]' % c.name, tiers=('thorough',) if three else ('quick', 'thorough'), cap=3000 if heavy else 400)(ob)


_register_coo()


# ------------------------------------------------------------------------------------------ a mesh beyond 256 unknowns (concrete layouts)
LARGE = dict(Nx=12, Ny=11, dim=2)          # 132 nodes (node ids < 256), 2 fields: 264 dofs (unknown ids up to 263)
LARGE_LAYOUTS = [('no BC', []), ('left:x', [('left', 0)]), ('bottom:x,y + left:y', [('bottom', 0), ('bottom', 1), ('left', 1)])]


def choose(ex, name, n):
    """an input that selects one of n configurations: a symbolic integer, forked into its values"""
    k = ex.int(name)
    ex.assume(k >= 0)
    ex.assume(k <= n - 1)
    for i in range(n - 1):
        if bool(k == i):
            return i
    return n - 1


def make_large_mesh_harness():
    """the REAL DofManager (real numpy: no symbolic value anywhere, the BC layout is a forked configuration choice) on a structured
    mesh with more than 256 unknowns and fewer than 256 nodes; the goals are the exact statements of O1 / O5 evaluated by plain
    loops over conns — in reach of integer-width effects that the <= 12-dof symbolic meshes cannot show"""
    def fn(ex):
        import jax.numpy as jnp
        from optimism import FunctionSpace, Mesh
        lay = LARGE_LAYOUTS[choose(ex, 'layout', len(LARGE_LAYOUTS))]
        mesh = Mesh.construct_structured_mesh(LARGE['Nx'], LARGE['Ny'], [0.0, 1.0], [0.0, 1.0])
        X = onp.asarray(mesh.coords)
        nodeSets = {'left': jnp.flatnonzero(X[:, 0] < 1e-8), 'bottom': jnp.flatnonzero(X[:, 1] < 1e-8)}
        mesh = Mesh.mesh_with_nodesets(mesh, nodeSets)
        dim = LARGE['dim']
        try:
            dm = FunctionSpace.DofManager(types.SimpleNamespace(mesh=mesh), dim, [FunctionSpace.EssentialBC(nodeSet=s_, component=c) for s_, c in lay[1]])
        except (ValueError, IndexError, TypeError, OverflowError) as e:
            ex.goal(DEFINED, Holds(False), info='%s: %s (layout %s)' % (type(e).__name__, e, lay[0]))
            return
        conns = onp.asarray(mesh.conns)
        nN, nEl, npe = X.shape[0], conns.shape[0], conns.shape[1]
        nd, nD = nN * dim, npe * dim
        bc = [False] * nd
        for s_, c in lay[1]:
            for n in onp.asarray(nodeSets[s_]):
                bc[int(n) * dim + c] = True
        free = [not b for b in bc]
        unk, r = [], 0
        for d in range(nd):
            unk.append(r if free[d] else -1)
            r += free[d]
        nfree = r
        info = 'layout %s: %d nodes, %d dofs, %d unknowns, %d elements' % (lay[0], nN, nd, nfree, nEl)
        G = lambda name, conds: ex.goal(name, Holds(list(conds)), info=info)
        uI, bI, d2u = [int(v) for v in onp.asarray(dm.unknownIndices)], [int(v) for v in onp.asarray(dm.bcIndices)], [int(v) for v in onp.asarray(dm.dofToUnknown)]
        G('large_mesh_unknown_and_bc_indices_partition_the_dofs_in_order', [uI == [d for d in range(nd) if free[d]], bI == [d for d in range(nd) if bc[d]], d2u == unk,
                                                                          int(dm.get_unknown_size()) == nfree, int(dm.get_bc_size()) == nd - nfree])
        # COO maps against the stream of unknown x unknown entries of the element blocks (C order), by plain loops
        straight_r, straight_c, M = [], [], onp.zeros((nEl, nD, nD), dtype=bool)
        for e in range(nEl):
            dofs = [int(conns[e][i // dim]) * dim + i % dim for i in range(nD)]
            for i in range(nD):
                for j in range(nD):
                    if free[dofs[i]] and free[dofs[j]]:
                        M[e, i, j] = True
                        straight_r.append(unk[dofs[i]])
                        straight_c.append(unk[dofs[j]])
        rows, cols = [int(v) for v in onp.asarray(dm.HessRowCoords)], [int(v) for v in onp.asarray(dm.HessColCoords)]
        mask = onp.asarray(dm.hessian_bc_mask)
        G('large_mesh_hessian_bc_mask_marks_the_unknown_by_unknown_entries', [mask.shape == M.shape and bool((mask == M).all())])
        G('large_mesh_coo_lengths_equal_the_number_of_masked_entries', [len(rows) == len(straight_r), len(cols) == len(straight_r)])
        G('large_mesh_coo_coordinates_are_unknown_ids', [all(0 <= v < nfree for v in rows), all(0 <= v < nfree for v in cols)])
        G('large_mesh_coo_pair_t_is_the_pair_of_unknown_ids_of_masked_entry_t_up_to_one_global_transposition',
          [(rows == straight_r and cols == straight_c) or (rows == straight_c and cols == straight_r)])
    return fn


GOALS_LARGE = ['large_mesh_unknown_and_bc_indices_partition_the_dofs_in_order', 'large_mesh_hessian_bc_mask_marks_the_unknown_by_unknown_entries',
               'large_mesh_coo_lengths_equal_the_number_of_masked_entries', 'large_mesh_coo_coordinates_are_unknown_ids',
               'large_mesh_coo_pair_t_is_the_pair_of_unknown_ids_of_masked_entry_t_up_to_one_global_transposition']


@obligation(P, 'O5.coo_maps_beyond_256_unknowns', cap=300)
def o5_large(h):
    """12 x 11 nodes, 2 fields (132 nodes, 264 dofs): index arrays and COO maps of the REAL DofManager are exactly the partition /
    the unknown-by-unknown stream of every element, for three concrete BC layouts (none, left:x, bottom:x,y + left:y). No symbolic
    value is involved (real numpy throughout); the obligation exists because stored unknown ids exceed 255 here while node ids do
    not — integer-width effects are out of reach of the <= 12-dof symbolic meshes."""
    from optimism import FunctionSpace
    D = FunctionSpace.DofManager
    h.encoded(D.__init__, D._make_hessian_coordinates, D._make_hessian_bc_mask, D.get_bc_size, D.get_unknown_size)
    h.bounds('structured mesh %d x %d nodes, %d fields; BC layouts (a forked configuration input): %s' % (LARGE['Nx'], LARGE['Ny'], LARGE['dim'], [l[0] for l in LARGE_LAYOUTS]))
    h.assume_note('ground obligation: the real DofManager runs on real numpy for each listed layout and the goals are evaluated by plain loops over conns; the symbolic-mask '
                  'obligations (all masks, <= 12 dofs) carry the quantified claim; in the padded-array model integer arrays allocated with a narrow numpy type wrap on store as numpy does')
    h.outside('other layouts / meshes of this size')
    px.run_px(h, 'mesh12x11', make_large_mesh_harness(), cap=30, order=('core',), expect_goals=GOALS_LARGE)


HISTORIES = [('tri2_f1', 'tri2b_f1'), ('tri2b_f1', 'tri2_f1'), ('tri2_f2', 'tri2b_f2')]


def _hist_cfg(name):
    mesh = {'tri2': TRI2, 'tri2b': TRI2B}[name.split('_')[0]]
    return Cfg(name, *mesh, int(name[-1]), extra=False)


@obligation(P, 'O5.coo_maps_after_another_mesh', cap=600)
def o5_history(h):
    """HISTORY: a DofManager built after another one for a mesh with the same array shapes, a different connectivity and the same
    constrained (node, component) pairs — in the same interpreter / loaded module — still has the COO maps, mask and index arrays
    of ITS mesh (all masks). tri2 -> tri2b, tri2b -> tri2 (1 field), tri2 -> tri2b (2 fields)."""
    pairs = [(_hist_cfg(a), _hist_cfg(b)) for a, b in HISTORIES]
    _meta(h, [c for p in pairs for c in p], 'O5 history: two constructions in sequence, the same symbolic membership flags for both meshes; goals on the second DofManager')
    h.assume_note('a.tobytes() of a padded array is a key object whose equality is structural on the symbolic contents (identical terms: equal; otherwise `==` forks the '
                  'exploration on the equality of the contents), hash by size and kind only')
    for a, b in pairs:
        px.run_px(h, '%s_then_%s' % (a.name, b.name), make_history_harness(a, b), cap=120, order=('sat', 'core'), expect_goals=GOALS_COO + GOALS_PARTITION)
