"""C02 — assembled stiffness equals the Hessian of the total energy; symmetric; multi-block = single block.

O1 (PX, padded arrays of C14): the REAL source of optimism/SparseMatrixAssembler.py is executed on top of the REAL source of
   DofManager (optimism/FunctionSpace.py) with a fully symbolic BC mask, kValues = one fresh real per entry, scipy's
   coo_matrix replaced by a symbolic COO (duplicates summed). Entry (u, v) of the result is compared with the sum over
   (e, i, j) with unknown(e,i) = u, unknown(e,j) = v of kValues[e,i,j] (oracle by plain loops over conns).
O2 (JX): element stiffness of the factories is symmetric (linear elastic, Green-Lagrange, neo-Hookean; plane strain and
   axisymmetric); the Newmark element Hessian is the Hessian of the algorithmic energy (NONLINEAR material).
O3 (JX): the _multi_block functions on a 2-element mesh split into two blocks carrying the same material equal the
   single-block functions (energy, updated internal variables, element stiffnesses).
O4 (JX): gradient / Hessian of the total energy w.r.t. the unknown vector = scatter-sum of element gradients / stiffnesses
   through DofManager.create_field (sum rule).
O5: the factories with a pressure-projection degree (every advertised kinematic option must be executable).
"""
import hashlib
import os
import types

import numpy as onp
import z3

from ..core import obligation
from .. import px, sym
from ..sym import Eq, Holds, isz, flat, v_add, v_sub, v_mul, v_sum, v_lt, v_abs
from . import c14
from .c14 import (PA, SInt, ONP, OH, Cfg, Oracle, View, b_and, b_or, b_not, b_implies, i_eq, i_lt, i_le, ite, num, raw, sz,
                  build_dof_manager, draw_member, dense_pa, _require, TRI1, TRI2, TRI2B)

P = 'C02'
REL_ASM = 'optimism/SparseMatrixAssembler.py'
DEFINED = c14.DEFINED

DESIGNED_NOT_REGISTERED = []


# =========================================================================================== O1: assembly (PX)
class SymCOO:
    """stand-in for scipy.sparse.coo_matrix((data, (row, col)), shape=(n, n)) followed by .tocsc(): entry (u, v) is the SUM of
    the data entries whose (row, col) is (u, v) — scipy's documented semantics for duplicate coordinates. The argument
    checks scipy performs (equal lengths, 0 <= index < n) are goals."""

    def __init__(self, arg, shape=None, **kw):
        data, (row, col) = arg
        if not (isinstance(data, PA) and isinstance(row, PA) and isinstance(col, PA)) or shape is None:
            raise px.Unsupported('coo_matrix arguments of this form')
        self.data, self.row, self.col = data, row, col
        self.shape = tuple(shape)
        n0, n1 = raw(self.shape[0]), raw(self.shape[1])
        L = data.length()
        _require(b_and(i_eq(row.length(), L), i_eq(col.length(), L)), 'coo_matrix: row, column, and data arrays must be 1-D and have the same length')
        cap = data.data.shape[0]
        ok = []
        for t in range(min(cap, row.data.shape[0], col.data.shape[0])):
            ok.append(b_implies(i_lt(t, L), b_and(i_le(0, row.data[t]), i_lt(row.data[t], n0), i_le(0, col.data[t]), i_lt(col.data[t], n1))))
        _require(b_and(*ok), 'coo_matrix: row / column index within the matrix dimensions')

    def tocsc(self):
        return self

    def entry(self, u, v):
        L = self.data.length()
        terms = []
        for t in range(self.data.data.shape[0]):
            hit = b_and(i_lt(t, L), i_eq(self.row.data[t], u), i_eq(self.col.data[t], v))
            if not isz(hit) and not hit:
                continue
            terms.append(ite(hit, self.data.data[t], 0.0, 'f'))
        return v_sum(terms) if terms else 0.0


def load_assembler_module():
    mod = px.load_module(REL_ASM)
    mod.coo_matrix = SymCOO
    mod.onp = ONP()
    return mod


def block_sum_oracle(cfg, orc, kv, transposed=False):
    """A[u][v] = sum over elements e and local dofs i, j with both unconstrained, unknown(e,i) = u, unknown(e,j) = v of
    kValues[e,i,j] — written from conns and the BC list by plain loops"""
    nd, nD = cfg.ndof, cfg.nD
    A = [[[] for _ in range(nd)] for _ in range(nd)]
    for e in range(cfg.nEl):
        for i in range(nD):
            for j in range(nD):
                both = b_and(orc.efree(e, i), orc.efree(e, j))
                k = kv[(e * nD + i) * nD + j]
                for u in range(nd):
                    cu = i_eq(orc.unk(e, i), u)
                    if not isz(cu) and not cu:
                        continue
                    for v in range(nd):
                        c = b_and(both, cu, i_eq(orc.unk(e, j), v))
                        if not isz(c) and not c:
                            continue
                        (A[v][u] if transposed else A[u][v]).append(ite(c, k, 0.0, 'f'))
    return [[(v_sum(A[u][v]) if A[u][v] else 0.0) for v in range(nd)] for u in range(nd)]


def make_assembly_harness(cfg, goals, rows=None, per_entry=False):
    """goals: subset of ASM_GOALS; rows: the matrix rows u this harness owns (sharding); per_entry: one query per (u, v)"""
    nd, nD, nEl = cfg.ndof, cfg.nD, cfg.nEl
    rows = list(range(nd)) if rows is None else list(rows)

    def fn(ex):
        member = draw_member(ex, cfg)
        orc = Oracle(cfg, member)
        kv = [px.unwrap(ex.real('k_e%d_%d_%d' % (e, i, j))) for e in range(nEl) for i in range(nD) for j in range(nD)]
        symblock = b_and(*[c14.v_eq(kv[(e * nD + i) * nD + j], kv[(e * nD + j) * nD + i]) for e in range(nEl) for i in range(nD) for j in range(i + 1, nD)])
        conns = onp.asarray(cfg.conns)
        if ex.symbolic:
            dm, _ = build_dof_manager(cfg, member, True)
            asm = load_assembler_module()
            K = asm.assemble_sparse_stiffness_matrix(dense_pa(kv, 'f', (nEl, 3, cfg.dim, 3, cfg.dim)), conns, dm)
            entry = K.entry
            shape_ok = [i_eq(raw(K.shape[0]), orc.nfree), i_eq(raw(K.shape[1]), orc.nfree)]
        else:
            import jax.numpy as jnp
            from optimism import SparseMatrixAssembler
            try:
                dm, _ = build_dof_manager(cfg, member, False)
                Kr = SparseMatrixAssembler.assemble_sparse_stiffness_matrix(onp.asarray(kv, dtype=float).reshape(nEl, 3, cfg.dim, 3, cfg.dim), jnp.asarray(conns), dm)
            except (ValueError, IndexError, TypeError) as e:
                ex.goal(DEFINED, Holds(False), info='%s: %s' % (type(e).__name__, e))
                return
            Kd = Kr.toarray()
            n = Kd.shape[0]
            entry = lambda u, v: float(Kd[u, v]) if (u < n and v < n) else 0.0
            shape_ok = [Kd.shape == (int(orc.nfree), int(orc.nfree))]
        if 'assembled_shape_is_unknowns_by_unknowns' in goals:
            ex.goal('assembled_shape_is_unknowns_by_unknowns', Holds(shape_ok))
        A = block_sum_oracle(cfg, orc, kv)
        inside = {(u, v): b_and(i_lt(u, orc.nfree), i_lt(v, orc.nfree)) for u in range(nd) for v in range(nd)}
        ent = {}

        def E(u, v):
            if (u, v) not in ent:
                ent[u, v] = entry(u, v)
            return ent[u, v]
        sides = {
            'assembled_entry_is_the_block_sum_for_symmetric_blocks': (lambda u, v: E(u, v), lambda u, v: A[u][v], symblock,
                                                                      'hypothesis: kValues[e,i,j] == kValues[e,j,i]'),
            'assembled_matrix_is_symmetric_for_symmetric_blocks': (lambda u, v: E(u, v), lambda u, v: E(v, u), symblock, 'hypothesis: kValues[e,i,j] == kValues[e,j,i]'),
            'assembled_entry_is_the_block_sum_transposed_for_arbitrary_blocks': (lambda u, v: E(u, v), lambda u, v: A[v][u], True,
                                                                                 'what the code computes for unsymmetric blocks: entry (u,v) collects kValues[e,j,i]'),
            'assembled_entry_is_the_block_sum_for_arbitrary_blocks': (lambda u, v: E(u, v), lambda u, v: A[u][v], True,
                                                                      'entry (u,v) = sum of kValues[e,i,j] with unknown(e,i)=u, unknown(e,j)=v; no symmetry hypothesis on the blocks'),
        }
        for g in goals:
            if g not in sides:
                continue
            lhs, rhs, when, info = sides[g]
            pairs = [(u, v) for u in rows for v in range(nd)]
            groups = [[p] for p in pairs] if per_entry else [pairs]
            for grp in groups:
                ex.goal(g, Eq([ite(inside[u, v], lhs(u, v), 0.0, 'f') for u, v in grp], [ite(inside[u, v], rhs(u, v), 0.0, 'f') for u, v in grp], when=when, scale=1.0),
                        info='%s; entries %s' % (info, grp if len(grp) < 4 else 'rows %s' % rows))
    return fn


ASM_GOALS = ['assembled_shape_is_unknowns_by_unknowns', 'assembled_entry_is_the_block_sum_for_symmetric_blocks', 'assembled_matrix_is_symmetric_for_symmetric_blocks',
             'assembled_entry_is_the_block_sum_transposed_for_arbitrary_blocks', 'assembled_entry_is_the_block_sum_for_arbitrary_blocks']


def _asm_meta(h, cs, what):
    from ..core import REPO
    from optimism import FunctionSpace, SparseMatrixAssembler
    D = FunctionSpace.DofManager
    src = open(os.path.join(REPO, REL_ASM)).read()
    h.encoded('optimism/SparseMatrixAssembler.py and optimism/FunctionSpace.py executed as source on padded arrays (assembler file sha1=%s)' % hashlib.sha1(src.encode()).hexdigest()[:12],
              SparseMatrixAssembler.assemble_sparse_stiffness_matrix, D.__init__, D._make_hessian_coordinates, D._make_hessian_bc_mask)
    h.bounds(*(['O1 bounded meshes (every assignment of the node-set membership flags = every BC mask, and ALL real block values, are covered by each query):'] + [c.describe() for c in cs]))
    h.bounds(what)
    h.assume_note('stub: scipy.sparse.coo_matrix((data,(row,col)), shape).tocsc() is the symbolic COO `SymCOO`: entry (u,v) = sum of the data entries whose coordinates are (u,v) '
                  '(duplicates summed: scipy\'s documented semantics); its argument checks (equal lengths, indices within the shape) are goals (numpy_operations_defined); '
                  'every replay runs the real scipy',
                  'numpy / jax.numpy are the padded-array shims of vf.props.c14 (validated against real numpy on every concrete mask in C14-O0); kValues entries are free reals, '
                  'moved but never combined by the code under test; symbolic integers are one-hot over their finite value sets',
                  'one independent node set per field component (the mask then ranges over all 2^ndof values; overlapping / repeated sets are C14-O1)')
    h.outside('meshes beyond the bound, element orders > 1 in O1 (the assembler is order-agnostic, not proved)',
              'that the element blocks handed to the assembler are the element Hessians (O2-O4 / JAX autodiff trusted)')


def _asm_cfgs():
    return {'tri1_f2': Cfg('tri1_f2', *TRI1, 2, extra=False), 'tri2_f2': Cfg('tri2_f2', *TRI2, 2, extra=False), 'tri2b_f2': Cfg('tri2b_f2', *TRI2B, 2, extra=False)}


@obligation(P, 'O1.assembly[tri1_f2]', cap=400)
def o1_small(h):
    """one triangle, 2 fields (6 dofs): shape; entry (u,v) = block sum for symmetric blocks; result symmetric; for arbitrary
    blocks the result is the TRANSPOSED block sum — all masks, all block values, one query per goal"""
    c = _asm_cfgs()['tri1_f2']
    _asm_meta(h, [c], 'kValues: 36 free reals')
    px.run_px(h, c.name, make_assembly_harness(c, ASM_GOALS[:4]), cap=120, order=('lra2', 'core'), expect_goals=ASM_GOALS[:4])


def _register_o1_rows():
    for name, tiers, goals in (('tri2_f2', ('quick', 'thorough'), ASM_GOALS[:2] + ASM_GOALS[3:4]), ('tri2b_f2', ('thorough',), ASM_GOALS[:4])):
        for k in range(4):
            rows = [k, k + 4]

            def ob(h, name=name, rows=rows, goals=goals):
                c = _asm_cfgs()[name]
                _asm_meta(h, [c], 'kValues: 72 free reals; this obligation owns rows %s of the assembled matrix (one query per entry (u,v), v = 0..7)' % rows)
                px.run_px(h, c.name, make_assembly_harness(c, goals, rows=rows, per_entry=True), cap=120, order=('lra2', 'core'), expect_goals=goals)
            ob.__doc__ = ('two triangles / 4 nodes / 2 fields (8 dofs): entry (u,v) of assemble_sparse_stiffness_matrix(kValues, conns, dofManager) equals the sum over (e,i,j) with '
                          'unknown(e,i)=u, unknown(e,j)=v of kValues[e,i,j] for symmetric blocks, and the transposed sum for arbitrary blocks — all masks, all block values')
            obligation(P, 'O1.assembly[%s rows %d,%d]' % (name, rows[0], rows[1]), tiers=tiers, cap=900)(ob)


_register_o1_rows()


@obligation(P, 'O1.assembly_orientation', cap=400)
def o1_orientation(h):
    """narrow query: WITHOUT a symmetry hypothesis on the element blocks, entry (u,v) equals the sum of kValues[e,i,j] with
    unknown(e,i)=u, unknown(e,j)=v (row index from the first block index). On the unchanged tree HessRowCoords/HessColCoords are
    swapped relative to the C-order of kValues[hessian_bc_mask], so the assembled matrix is the transpose of that sum."""
    c = _asm_cfgs()['tri1_f2']
    _asm_meta(h, [c], 'kValues: 36 free reals, no symmetry hypothesis')
    g = ['assembled_entry_is_the_block_sum_for_arbitrary_blocks']
    px.run_px(h, c.name, make_assembly_harness(c, g), cap=120, order=('lra2', 'core'), expect_goals=g)


# =========================================================================================== JX part: O2, O3, O4
def s0(a):
    return a[()] if hasattr(a, 'shape') and a.shape == () else a


def _mods():
    from optimism import Mechanics, FunctionSpace, Interpolants, QuadratureRule, Mesh
    from optimism.material import LinearElastic, Neohookean, MaterialModel
    return Mechanics, FunctionSpace, Interpolants, QuadratureRule, Mesh, LinearElastic, Neohookean, MaterialModel


MESHES = {
    1: ([[0.0, 0.0], [1.0, 0.0], [0.0, 1.0]], [[0, 1, 2]]),
    2: ([[0.0, 0.0], [1.0, 0.0], [1.0, 1.0], [0.0, 1.0]], [[0, 1, 2], [0, 2, 3]]),
    3: ([[0.0, 0.0], [1.0, 0.0], [1.0, 1.0], [0.0, 1.0], [-1.0, 0.5]], [[0, 1, 2], [0, 2, 3], [0, 3, 4]]),
}
AXI_SHIFT = 1.0     # axisymmetric example meshes sit at r >= 1


class Setup:
    """parent element, quadrature rule, shape tables (ground data of the real code) and connectivity of a 1-3 element P1 mesh;
    the function space is built INSIDE the traced function from symbolic nodal coordinates"""

    def __init__(self, nel=1, qdeg=1):
        import jax.numpy as jnp
        M = _mods()
        self.nel = nel
        self.pe, self.pe1 = M[2].make_parent_elements(1)
        self.qr = M[3].create_quadrature_rule_on_triangle(qdeg)
        self.shp = M[2].compute_shapes(self.pe, self.qr.xigauss)
        self.X0 = onp.asarray(MESHES[nel][0])
        self.conns = onp.asarray(MESHES[nel][1])
        self.nn = self.X0.shape[0]
        self.nq = len(self.qr)

    def fs(self, X, mode2D='cartesian', blocks=None, nodeSets=None):
        import jax.numpy as jnp
        M = _mods()
        if blocks is None:
            blocks = {'block_0': jnp.arange(self.nel)}
        mesh = M[4].Mesh(X, jnp.asarray(self.conns), None, self.pe, self.pe1, blocks, nodeSets, None)
        return M[1].construct_function_space_from_parent_element(mesh, self.shp, self.qr, mode2D)

    def state(self, ns=0):
        import jax.numpy as jnp
        return jnp.zeros((self.nel, self.nq, ns))


def synthetic_material(c, density=None):
    """a path-dependent material through the repository's MaterialModel interface (harness material: exercises the state
    plumbing of the block loops; two internal variables)"""
    import jax.numpy as jnp
    MaterialModel = _mods()[7].MaterialModel

    def energy(H, Q, dt):
        e = 0.5 * (H + H.T)
        return 0.5 * c[0] * jnp.tensordot(e, e) + c[1] * Q[0] * jnp.trace(H) + c[2] * Q[1] * Q[1] * H[0, 1] + dt * Q[0] * H[1, 1] * H[0, 0]

    def state_new(H, Q, dt):
        return jnp.array([Q[0] + dt * jnp.trace(H), c[1] * Q[1] + H[0, 1] * H[1, 0]])
    return MaterialModel(compute_energy_density=energy, compute_initial_state=lambda: jnp.zeros(2), compute_state_new=state_new, density=density)


def material(kind, E, nu, rho=None):
    M = _mods()
    props = {'elastic modulus': E, 'poisson ratio': nu}
    if rho is not None:
        props['density'] = rho
    if kind == 'linear':
        return M[5].create_material_model_functions(props)
    if kind == 'green_lagrange':
        return M[5].create_material_model_functions(dict(props, **{'strain measure': 'green lagrange'}))
    if kind == 'neohookean':
        return M[6].create_material_model_functions(props)
    if kind == 'neohookean_coupled':
        return M[6].create_material_model_functions(dict(props, version='coupled'))
    if kind == 'synthetic':
        return synthetic_material([E, nu, E * nu], rho)
    raise ValueError(kind)


NSTATE = {'linear': 0, 'green_lagrange': 0, 'neohookean': 0, 'neohookean_coupled': 0, 'synthetic': 2}


def _jx_encoded(h):
    M = _mods()
    Mech, FS, LE, NH = M[0], M[1], M[5], M[6]
    h.encoded(Mech.create_mechanics_functions, Mech.create_multi_block_mechanics_functions, Mech.create_dynamics_functions,
              Mech.compute_element_stiffness_from_global_fields, Mech._compute_element_stiffnesses, Mech._compute_strain_energy,
              Mech._compute_updated_internal_variables, Mech._compute_strain_energy_multi_block, Mech._compute_updated_internal_variables_multi_block,
              Mech._compute_element_stiffnesses_multi_block, Mech.compute_newmark_lagrangian, Mech._compute_newmark_element_hessians,
              Mech.plane_strain_gradient_transformation, Mech.axisymmetric_element_gradient_transformation, Mech.axisymmetric_gradient,
              Mech.strain_energy_density_to_lagrangian_density, Mech.kinetic_energy_density,
              FS.construct_function_space_from_parent_element, FS.map_element_shape_grads, FS.compute_element_volumes, FS.compute_element_volumes_axisymmetric,
              FS.integrate_over_block, FS.evaluate_on_block, FS.evaluate_on_element, FS.integrate_element_from_local_field, FS.compute_field_gradient,
              FS.DofManager.create_field,
              LE.create_material_model_functions, LE._linear_elastic_energy_density, LE.linear_strain, LE.green_lagrange_strain,
              NH.create_material_model_functions, NH._adagio_neohookean, NH._neohookean_3D_energy_density)


BOX = 'E > 0, -1 < nu < 1/2; coordinates, displacements, states: all reals (element Jacobians non-singular; axisymmetric: radii of the quadrature points non-zero)'


def _box(i):
    out = []
    if 'E' in i:
        out.append(v_lt(0.0, s0(i['E'])))
    if 'nu' in i:
        out += [v_lt(-1.0, s0(i['nu'])), v_lt(s0(i['nu']), 0.5)]
    for k in ('rho', 'beta', 'dt'):
        if k in i:
            out.append(v_lt(0.0, s0(i[k])))
    return out


def _rand_X(S, rng, axi=False):
    X = S.X0 + rng.uniform(-0.15, 0.15, size=S.X0.shape)
    if axi:
        X = X + onp.array([AXI_SHIFT, 0.0])
    return X


def _X0(S, axi=False):
    return S.X0 + (onp.array([AXI_SHIFT, 0.0]) if axi else 0.0)


import contextlib


@contextlib.contextmanager
def det_by_closed_form():
    """jnp.linalg.det carries a custom JVP that runs a pivoted LU (`_cofactor_solve`), which has no relational encoding for a
    symbolic matrix; while TRACING it is replaced by JAX's own closed-form 3x3 primal `_det_3x3` (whose derivative is the
    cofactor matrix). Ground validation compares against, and every replay runs, the real jnp.linalg.det."""
    import jax.numpy as jnp
    import jax.numpy.linalg as jl
    from jax._src.numpy import linalg as _l
    saved = jl.det

    def det3(a):
        a = jnp.asarray(a)
        if a.shape != (3, 3):
            return saved(a)
        return _l._det_3x3(a)
    jl.det = det3
    try:
        yield
    finally:
        jl.det = saved


NOTE_DET = ('jnp.linalg.det (3x3): its custom JVP (pivoted LU) is replaced at trace time by the derivative of JAX\'s own closed-form primal _det_3x3; '
            'translator validation compares the encoded jaxpr with the unpatched real function, replays run the unpatched real function')
NOTE_UF = ('log and pow (non-integer exponent) are uninterpreted functions of their arguments (Ackermannised); the symmetry / equality goals are identities of the '
           'autodiff expressions that hold for arbitrary values of these functions')
