"""C02 — assembled stiffness equals the Hessian of the total energy; symmetric; multi-block = single block.

O1 (PX, padded arrays of C14): the REAL source of optimism/SparseMatrixAssembler.py is executed on top of the REAL source of
   DofManager (optimism/FunctionSpace.py) with a fully symbolic BC mask, kValues = one fresh real per entry, scipy's
   coo_matrix replaced by a symbolic COO (duplicates summed). Entry (u, v) of the result is compared with the sum over
   (e, i, j) with unknown(e,i) = u, unknown(e,j) = v of kValues[e,i,j] (oracle by plain loops over conns).
O2 (JX): element stiffness of the factories is symmetric (linear elastic, Green-Lagrange, neo-Hookean; plane strain and
   axisymmetric); the Newmark element Hessian is the Hessian of the algorithmic energy (NONLINEAR material).
O3 (JX): the _multi_block functions on a 2-element mesh split into two blocks carrying the same material equal the
   single-block functions (energy, updated internal variables, element stiffnesses).
O4 (JX): gradient / Hessian of the total energy w.r.t. the unknown vector = scatter-sum of element gradients / stiffnesses
   through DofManager.create_field (sum rule).
O5: the factories with a pressure-projection degree (every advertised kinematic option must be executable).
"""
import hashlib
import os
import types

import numpy as onp
import z3

from ..core import obligation
from .. import px, sym
from ..sym import Eq, Holds, isz, flat, v_add, v_sub, v_mul, v_sum, v_lt, v_abs
from . import c14
from .c14 import (PA, SInt, ONP, OH, Cfg, Oracle, View, b_and, b_or, b_not, b_implies, i_eq, i_lt, i_le, ite, num, raw, sz,
                  build_dof_manager, draw_member, dense_pa, _require, TRI1, TRI2, TRI2B)

P = 'C02'
# a non-identity over log / pow atoms (seen on a seeded regression) made z3 grow past 60 GB: every worker of this module caps z3's memory;
# exceeding it is an ordinary solver failure (inconclusive), never a verdict
z3.set_param('memory_max_size', 6000)
REL_ASM = 'optimism/SparseMatrixAssembler.py'
DEFINED = c14.DEFINED

DESIGNED_NOT_REGISTERED = []


# =========================================================================================== O1: assembly (PX)
class SymCOO:
    """stand-in for scipy.sparse.coo_matrix((data, (row, col)), shape=(n, n)) followed by .tocsc(): entry (u, v) is the SUM of
    the data entries whose (row, col) is (u, v) — scipy's documented semantics for duplicate coordinates. The argument
    checks scipy performs (equal lengths, 0 <= index < n) are goals."""

    def __init__(self, arg, shape=None, **kw):
        data, (row, col) = arg
        if not (isinstance(data, PA) and isinstance(row, PA) and isinstance(col, PA)):
            raise px.Unsupported('coo_matrix arguments of this form')
        self.data, self.row, self.col = data, row, col
        L = data.length()
        if shape is None:
            # scipy's documented shape inference: (max(row) + 1, max(col) + 1); "cannot infer dimensions from zero sized index arrays"
            _require(b_and(i_lt(0, row.length()), i_lt(0, col.length())), 'coo_matrix: cannot infer dimensions from zero sized index arrays')
            dims = []
            for ix in (row, col):
                m = -1
                for t in range(ix.data.shape[0]):
                    m = ite(b_and(i_lt(t, ix.length()), i_lt(m, ix.data[t])), ix.data[t], m, 'i')
                dims.append(SInt(c14.i_add(m, 1), ix.data.shape[0] + 1 if ix.ecap is None else ix.ecap + 1))
            shape = tuple(dims)
        self.shape = tuple(shape)
        n0, n1 = raw(self.shape[0]), raw(self.shape[1])
        _require(b_and(i_eq(row.length(), L), i_eq(col.length(), L)), 'coo_matrix: row, column, and data arrays must be 1-D and have the same length')
        cap = data.data.shape[0]
        ok = []
        for t in range(min(cap, row.data.shape[0], col.data.shape[0])):
            ok.append(b_implies(i_lt(t, L), b_and(i_le(0, row.data[t]), i_lt(row.data[t], n0), i_le(0, col.data[t]), i_lt(col.data[t], n1))))
        _require(b_and(*ok), 'coo_matrix: row / column index within the matrix dimensions')

    def tocsc(self):
        return self

    def diagonal(self, k=0):
        """the main diagonal as an array of length n (n possibly symbolic: padded)"""
        if k != 0:
            raise px.Unsupported('off-diagonals of a symbolic sparse matrix')
        n = self.shape[0]
        cap = n.cap if isinstance(n, SInt) else int(n)
        vals = [self.entry(u, u) for u in range(cap)]
        return c14.padded_pa(vals, n, 'f') if isinstance(n, SInt) else dense_pa(vals, 'f')

    def setdiag(self, values, k=0):
        if k != 0 or not isinstance(values, PA):
            raise px.Unsupported('setdiag of this form')
        self.__dict__['_diag'] = list(values.data.reshape(-1))

    def __getattr__(self, name):
        raise px.Unsupported('scipy sparse-matrix attribute `%s` of a matrix whose index pattern is symbolic (only entries and the shape are modelled; index '
                             'structures of concrete patterns are computed by the real scipy in O1.assembly_history / O1.assembly_cubic_element)' % name)

    def entry(self, u, v):
        d = self.__dict__.get('_diag')
        if d is not None and u == v and u < len(d):
            return d[u]
        L = self.data.length()
        terms = []
        for t in range(self.data.data.shape[0]):
            hit = b_and(i_lt(t, L), i_eq(self.row.data[t], u), i_eq(self.col.data[t], v))
            if not isz(hit) and not hit:
                continue
            terms.append(ite(hit, self.data.data[t], 0.0, 'f'))
        return v_sum(terms) if terms else 0.0


def load_assembler_module():
    mod = px.load_module(REL_ASM)
    mod.coo_matrix = SymCOO
    mod.onp = ONP()
    c14.install_builtin_shims(mod)
    return mod


def block_sum_oracle(cfg, orc, kv, transposed=False):
    """A[u][v] = sum over elements e and local dofs i, j with both unconstrained, unknown(e,i) = u, unknown(e,j) = v of
    kValues[e,i,j] — written from conns and the BC list by plain loops"""
    nd, nD = cfg.ndof, cfg.nD
    A = [[[] for _ in range(nd)] for _ in range(nd)]
    for e in range(cfg.nEl):
        for i in range(nD):
            for j in range(nD):
                both = b_and(orc.efree(e, i), orc.efree(e, j))
                k = kv[(e * nD + i) * nD + j]
                for u in range(nd):
                    cu = i_eq(orc.unk(e, i), u)
                    if not isz(cu) and not cu:
                        continue
                    for v in range(nd):
                        c = b_and(both, cu, i_eq(orc.unk(e, j), v))
                        if not isz(c) and not c:
                            continue
                        (A[v][u] if transposed else A[u][v]).append(ite(c, k, 0.0, 'f'))
    return [[(v_sum(A[u][v]) if A[u][v] else 0.0) for v in range(nd)] for u in range(nd)]


def make_assembly_harness(cfg, goals, rows=None, per_entry=False):
    """goals: subset of ASM_GOALS; rows: the matrix rows u this harness owns (sharding); per_entry: one query per (u, v)"""
    nd, nD, nEl = cfg.ndof, cfg.nD, cfg.nEl
    rows = list(range(nd)) if rows is None else list(rows)

    def fn(ex):
        member = draw_member(ex, cfg)
        orc = Oracle(cfg, member)
        kv = [px.unwrap(ex.real('k_e%d_%d_%d' % (e, i, j))) for e in range(nEl) for i in range(nD) for j in range(nD)]
        symblock = b_and(*[c14.v_eq(kv[(e * nD + i) * nD + j], kv[(e * nD + j) * nD + i]) for e in range(nEl) for i in range(nD) for j in range(i + 1, nD)])
        conns = onp.asarray(cfg.conns)
        if ex.symbolic:
            dm, _ = build_dof_manager(cfg, member, True)
            asm = load_assembler_module()
            K = asm.assemble_sparse_stiffness_matrix(dense_pa(kv, 'f', (nEl, 3, cfg.dim, 3, cfg.dim)), conns, dm)
            entry = K.entry
            shape_ok = [i_eq(raw(K.shape[0]), orc.nfree), i_eq(raw(K.shape[1]), orc.nfree)]
        else:
            import jax.numpy as jnp
            from optimism import SparseMatrixAssembler
            try:
                dm, _ = build_dof_manager(cfg, member, False)
                Kr = SparseMatrixAssembler.assemble_sparse_stiffness_matrix(onp.asarray(kv, dtype=float).reshape(nEl, 3, cfg.dim, 3, cfg.dim), jnp.asarray(conns), dm)
            except (ValueError, IndexError, TypeError) as e:
                ex.goal(DEFINED, Holds(False), info='%s: %s' % (type(e).__name__, e))
                return
            Kd = Kr.toarray()
            n = Kd.shape[0]
            entry = lambda u, v: float(Kd[u, v]) if (u < n and v < n) else 0.0
            shape_ok = [Kd.shape == (int(orc.nfree), int(orc.nfree))]
        if 'assembled_shape_is_unknowns_by_unknowns' in goals:
            ex.goal('assembled_shape_is_unknowns_by_unknowns', Holds(shape_ok))
        A = block_sum_oracle(cfg, orc, kv)
        inside = {(u, v): b_and(i_lt(u, orc.nfree), i_lt(v, orc.nfree)) for u in range(nd) for v in range(nd)}
        ent = {}

        def E(u, v):
            if (u, v) not in ent:
                ent[u, v] = entry(u, v)
            return ent[u, v]
        sides = {
            'assembled_entry_is_the_block_sum_for_symmetric_blocks': (lambda u, v: E(u, v), lambda u, v: A[u][v], symblock,
                                                                      'hypothesis: kValues[e,i,j] == kValues[e,j,i]'),
            'assembled_matrix_is_symmetric_for_symmetric_blocks': (lambda u, v: E(u, v), lambda u, v: E(v, u), symblock, 'hypothesis: kValues[e,i,j] == kValues[e,j,i]'),
            'assembled_entry_is_the_block_sum_transposed_for_arbitrary_blocks': (lambda u, v: E(u, v), lambda u, v: A[v][u], True,
                                                                                 'what the code computes for unsymmetric blocks: entry (u,v) collects kValues[e,j,i]'),
            'assembled_entry_is_the_block_sum_for_arbitrary_blocks': (lambda u, v: E(u, v), lambda u, v: A[u][v], True,
                                                                      'entry (u,v) = sum of kValues[e,i,j] with unknown(e,i)=u, unknown(e,j)=v; no symmetry hypothesis on the blocks'),
        }
        for g in goals:
            if g not in sides:
                continue
            lhs, rhs, when, info = sides[g]
            pairs = [(u, v) for u in rows for v in range(nd)]
            groups = [[p] for p in pairs] if per_entry else [pairs]
            for grp in groups:
                ex.goal(g, Eq([ite(inside[u, v], lhs(u, v), 0.0, 'f') for u, v in grp], [ite(inside[u, v], rhs(u, v), 0.0, 'f') for u, v in grp], when=when, scale=1.0),
                        info='%s; entries %s' % (info, grp if len(grp) < 4 else 'rows %s' % rows))
    return fn


ASM_GOALS = ['assembled_shape_is_unknowns_by_unknowns', 'assembled_entry_is_the_block_sum_for_symmetric_blocks', 'assembled_matrix_is_symmetric_for_symmetric_blocks',
             'assembled_entry_is_the_block_sum_transposed_for_arbitrary_blocks', 'assembled_entry_is_the_block_sum_for_arbitrary_blocks']


def _asm_meta(h, cs, what):
    from ..core import REPO
    from optimism import FunctionSpace, SparseMatrixAssembler
    D = FunctionSpace.DofManager
    src = open(os.path.join(REPO, REL_ASM)).read()
    h.encoded('optimism/SparseMatrixAssembler.py and optimism/FunctionSpace.py executed as source on padded arrays (assembler file sha1=%s)' % hashlib.sha1(src.encode()).hexdigest()[:12],
              SparseMatrixAssembler.assemble_sparse_stiffness_matrix, D.__init__, D._make_hessian_coordinates, D._make_hessian_bc_mask)
    h.bounds(*(['O1 bounded meshes (every assignment of the node-set membership flags = every BC mask, and ALL real block values, are covered by each query):'] + [c.describe() for c in cs]))
    h.bounds(what)
    h.assume_note('stub: scipy.sparse.coo_matrix((data,(row,col)), shape).tocsc() is the symbolic COO `SymCOO`: entry (u,v) = sum of the data entries whose coordinates are (u,v) '
                  '(duplicates summed: scipy\'s documented semantics); its argument checks (equal lengths, indices within the shape) are goals (numpy_operations_defined); '
                  'every replay runs the real scipy',
                  'numpy / jax.numpy are the padded-array shims of vf.props.c14 (validated against real numpy on every concrete mask in C14-O0); kValues entries are free reals, '
                  'moved but never combined by the code under test; symbolic integers are one-hot over their finite value sets',
                  'one independent node set per field component (the mask then ranges over all 2^ndof values; overlapping / repeated sets are C14-O1)')
    h.outside('meshes beyond the bound, element orders > 1 in O1 (the assembler is order-agnostic, not proved)',
              'that the element blocks handed to the assembler are the element Hessians (O2-O4 / JAX autodiff trusted)')


TRI1X = ([[0.0, 0.0], [1.0, 0.0], [0.0, 1.0], [1.0, 1.0]], [[0, 1, 2]])      # one triangle and a node (the last) that belongs to no element


def _asm_cfgs():
    return {'tri1x_f2': Cfg('tri1x_f2', *TRI1X, 2, extra=False), 'tri1_f2': Cfg('tri1_f2', *TRI1, 2, extra=False), 'tri2_f2': Cfg('tri2_f2', *TRI2, 2, extra=False), 'tri2b_f2': Cfg('tri2b_f2', *TRI2B, 2, extra=False)}


@obligation(P, 'O1.assembly[tri1_f2]', cap=400)
def o1_small(h):
    """one triangle, 2 fields (6 dofs): shape; entry (u,v) = block sum for symmetric blocks; result symmetric — all masks, all
    (symmetric) block values, one query per goal"""
    c = _asm_cfgs()['tri1_f2']
    _asm_meta(h, [c], 'kValues: 36 free reals')
    px.run_px(h, c.name, make_assembly_harness(c, ASM_GOALS[:3]), cap=120, order=('lra2', 'core'), expect_goals=ASM_GOALS[:3])


@obligation(P, 'O1.assembly[tri1x_f2]', cap=400)
def o1_unattached(h):
    """one triangle plus a node that belongs to no element, 2 fields (8 dofs): the assembled matrix still is nUnknowns x nUnknowns
    (rows / columns of the unattached unknowns are empty) and equals the block sum — all masks, all (symmetric) block values"""
    c = _asm_cfgs()['tri1x_f2']
    _asm_meta(h, [c], 'kValues: 36 free reals; node 3 is in no element, so the largest COO index can be smaller than nUnknowns - 1')
    px.run_px(h, c.name, make_assembly_harness(c, ASM_GOALS[:3]), cap=120, order=('lra2', 'core'), expect_goals=ASM_GOALS[:3])


def _register_o1_rows():
    for name, tiers, goals in (('tri2_f2', ('quick', 'thorough'), ASM_GOALS[:2]), ('tri2b_f2', ('thorough',), ASM_GOALS[:3])):
        for k in range(4):
            rows = [k, k + 4]

            def ob(h, name=name, rows=rows, goals=goals):
                c = _asm_cfgs()[name]
                _asm_meta(h, [c], 'kValues: 72 free reals; this obligation owns rows %s of the assembled matrix (one query per entry (u,v), v = 0..7)' % rows)
                px.run_px(h, c.name, make_assembly_harness(c, goals, rows=rows, per_entry=True), cap=120, order=('lra2', 'core'), expect_goals=goals)
            ob.__doc__ = ('two triangles / 4 nodes / 2 fields (8 dofs): entry (u,v) of assemble_sparse_stiffness_matrix(kValues, conns, dofManager) equals the sum over (e,i,j) with '
                          'unknown(e,i)=u, unknown(e,j)=v of kValues[e,i,j] for symmetric element blocks — all masks, all block values')
            obligation(P, 'O1.assembly[%s rows %d+%d]' % (name, rows[0], rows[1]), tiers=tiers, cap=900)(ob)


_register_o1_rows()


DESIGNED_NOT_REGISTERED.append(
    ('O2-O4 with volume-averaged pressure projection (element stiffness symmetric with modify_element_gradient = volume_average_J_gradient_transformation composed with '
     'the plane-strain map, P1 triangle, 3-point rule, degree-0 pressure, Green-Lagrange material)',
     'the factories do not execute with a pressure-projection degree on the unchanged tree (O5); run on volume_average_J_gradient_transformation directly (DESIGN C02) the '
     'symmetry query is unknown at 120 s both as a free identity and with the side conditions (sqrt(JBar/J) and the derivative of the projection solve are relational '
     'encodings, so the goal is not a polynomial identity of the expressions)'))
DESIGNED_NOT_REGISTERED.append(
    ('O1 goal "assembled_entry_is_the_block_sum_transposed_for_arbitrary_blocks" (what the unchanged tree computes for unsymmetric blocks; discharges on the unchanged tree, '
     'tri1_f2 5 s, tri2_f2 2 s per entry)', 'a description of the present behaviour, not a property: it turns into a violation as soon as the row/column orientation is '
     'corrected; kept in make_assembly_harness for diagnosis only'))


DESIGNED_NOT_REGISTERED.append(
    ('O1.assembly_orientation: assembled entry == block sum for ARBITRARY (unsymmetric) blocks',
     'FALSE ALARM, removed from the registered set: DofManager._make_hessian_coordinates pairs rows/columns transposed relative to the C-order of '
     'kValues[hessian_bc_mask], so for unsymmetric blocks the assembled matrix is the transpose of the block sum (solver model: tri1_f2, k_e0_0_2 = 2, '
     'entry 0 vs 2). The property is about element blocks that are Hessians, which are symmetric (O2 proves that for the real element stiffness), and '
     'for symmetric blocks the assembled matrix equals the block sum (O1.assembly discharges it). The orientation goal therefore demands more than the '
     'property states; it is kept as an unregistered function for diagnosis.'))


# not registered (see DESIGNED_NOT_REGISTERED): demands more than the property states
def o1_orientation_2el(h):
    """the narrow orientation query of O1.assembly_orientation on two triangles / 8 dofs (one query per entry)"""
    c = _asm_cfgs()['tri2_f2']
    _asm_meta(h, [c], 'kValues: 72 free reals, no symmetry hypothesis')
    g = ['assembled_entry_is_the_block_sum_for_arbitrary_blocks']
    px.run_px(h, c.name, make_assembly_harness(c, g, per_entry=True), cap=120, order=('lra2', 'core'), expect_goals=g)


# not registered (see DESIGNED_NOT_REGISTERED): demands more than the property states
def o1_orientation(h):
    """narrow query: WITHOUT a symmetry hypothesis on the element blocks, entry (u,v) equals the sum of kValues[e,i,j] with
    unknown(e,i)=u, unknown(e,j)=v (row index from the first block index). On the unchanged tree HessRowCoords/HessColCoords are
    swapped relative to the C-order of kValues[hessian_bc_mask], so the assembled matrix is the transpose of that sum."""
    c = _asm_cfgs()['tri1_f2']
    _asm_meta(h, [c], 'kValues: 36 free reals, no symmetry hypothesis')
    g = ['assembled_entry_is_the_block_sum_for_arbitrary_blocks']
    px.run_px(h, c.name, make_assembly_harness(c, g), cap=120, order=('lra2', 'core'), expect_goals=g)


# ------------------------------------------------------------------------------------------ O1: call histories / higher order, concrete BC layouts
# The BC layouts are CONCRETE here (a forked configuration choice), so the real DofManager class runs on real numpy (sorting,
# searching, scipy's COO->CSC conversion of an index pattern are executed by the real libraries: constant folding) and only the
# block values are symbolic: what the solver decides is "for ALL block values" per layout history.
class SymCSC:
    """scipy.sparse.csc_matrix((data, indices, indptr), shape) with symbolic data and a concrete pattern: entry (u, v) is the sum
    of data[k] over the k in column v (indptr[v] <= k < indptr[v+1]) with indices[k] == u"""

    def __init__(self, arg, shape=None, **kw):
        data, indices, indptr = arg
        self.data, self.indices, self.indptr = data, onp.asarray(indices), onp.asarray(indptr)
        if shape is None or self.indptr.shape[0] != int(shape[1]) + 1 or int(self.indptr[-1]) > data.data.shape[0] or self.indices.shape[0] != data.data.shape[0]:
            raise ValueError('csc_matrix: inconsistent index pointer / index / data arrays')
        if self.indices.size and (self.indices.min() < 0 or self.indices.max() >= int(shape[0])):
            raise ValueError('csc_matrix: row index exceeds matrix dimensions')
        self.shape = (int(shape[0]), int(shape[1]))

    def tocsc(self):
        return self

    def entry(self, u, v):
        if v >= self.shape[1]:
            return 0.0
        ks = [k for k in range(int(self.indptr[v]), int(self.indptr[v + 1])) if int(self.indices[k]) == u]
        return v_sum([self.data.data[k] for k in ks]) if ks else 0.0


def _to_pa(x, kind):
    if isinstance(x, PA):
        return x
    a = onp.asarray(x)
    return dense_pa([v.item() for v in a.reshape(-1)], kind)


def coo_stub(arg, shape=None, **kw):
    """coo_matrix: symbolic data -> SymCOO (concrete index arrays are lifted); all-concrete arguments -> the real scipy"""
    import scipy.sparse
    try:
        data, (row, col) = arg
    except (TypeError, ValueError):
        return scipy.sparse.coo_matrix(arg, shape=shape, **kw)
    if not any(isinstance(x, PA) for x in (data, row, col)):
        return scipy.sparse.coo_matrix(arg, shape=shape, **kw)
    return SymCOO((_to_pa(data, 'f'), (_to_pa(row, 'i'), _to_pa(col, 'i'))), shape=shape)


def csc_stub(arg, shape=None, **kw):
    import scipy.sparse
    if isinstance(arg, tuple) and len(arg) == 3 and isinstance(arg[0], PA):
        return SymCSC(arg, shape=shape)
    return scipy.sparse.csc_matrix(arg, shape=shape, **kw)


class HybridNP:
    """numpy for a module that handles CONCRETE index data and symbolic values: everything is the real numpy, except the
    reductions that receive an array of symbolic values"""

    def __getattr__(self, name):
        return getattr(onp, name)

    def any(self, a, axis=None):
        return ONP().any(a, axis) if isinstance(a, PA) else onp.any(a, axis=axis)

    def all(self, a, axis=None):
        return ONP().all(a, axis) if isinstance(a, PA) else onp.all(a, axis=axis)

    def where(self, c, a=None, b=None):
        return ONP().where(c, a, b)

    def bincount(self, x, weights=None, minlength=0):
        if not isinstance(weights, PA):
            return onp.bincount(x, weights=weights, minlength=minlength)
        x = onp.asarray(x)
        weights._need_dense('bincount weights')
        if x.ndim != 1 or weights.ndim != 1 or x.shape[0] != weights.data.shape[0]:
            raise ValueError('bincount: the weights and list don\'t have the same length')
        if x.size and x.min() < 0:
            raise ValueError('bincount: first argument must be non-negative')
        n = max(int(minlength), int(x.max()) + 1 if x.size else 0)
        return dense_pa([v_sum([weights.data[t] for t in range(x.shape[0]) if int(x[t]) == s_]) if (x == s_).any() else 0.0 for s_ in range(n)], 'f')


def load_assembler_module_concrete_patterns():
    mod = px.load_module(REL_ASM)
    mod.onp = HybridNP()
    mod.coo_matrix = coo_stub
    mod.csc_matrix = csc_stub
    return mod


P3_COORDS = None


def _p3_cfg():
    """one cubic triangle: 10 nodes, 2 fields, 20 dofs per element (numpy's default sort is not stable beyond 16 entries)"""
    from optimism import Interpolants
    pe, _ = Interpolants.make_parent_elements(3)
    coords = onp.asarray(pe.coordinates, dtype=float).tolist()
    return Cfg('tri1_P3_f2', coords, [list(range(len(coords)))], 2, extra=False)


def real_dof_manager(cfg, member):
    """the real DofManager class (real numpy) for a concrete layout; DofManager reads functionSpace.mesh only"""
    import jax.numpy as jnp
    from optimism import FunctionSpace, Mesh
    nodeSets = {s_: jnp.array([j for j in range(cfg.nN) if member[s_][j]], dtype=int) for s_ in cfg.sets}
    mesh = Mesh.Mesh(jnp.array(cfg.coords), jnp.array(cfg.conns), None, None, None, None, nodeSets, None)
    return FunctionSpace.DofManager(types.SimpleNamespace(mesh=mesh), cfg.dim, [FunctionSpace.EssentialBC(nodeSet=a, component=c) for a, c in cfg.bcs])


def _layout(cfg, pairs):
    """membership flags of the layout that constrains the (node, component) pairs"""
    member = {'A%d' % c: [False] * cfg.nN for c in range(cfg.dim)}
    for n, c in pairs:
        member['A%d' % c][n] = True
    return member


def choose(ex, name, n):
    """an input that selects one of n configurations: a symbolic integer, forked into its values"""
    k = ex.int(name)
    ex.assume(k >= 0)
    ex.assume(k <= n - 1)
    for i in range(n - 1):
        if bool(k == i):
            return i
    return n - 1


def make_history_harness(cfg, histories):
    """histories(ex) -> list of layouts (each a list of (node, component) pairs), chosen through forked inputs. All assemblies
    of one history run IN ONE loaded instance of the assembler module (module-level state persists between the calls); each
    call gets its own free block values."""
    nd, nD, nEl = cfg.ndof, cfg.nD, cfg.nEl
    npe = len(cfg.conns[0])

    def fn(ex):
        layouts = histories(ex)
        conns = onp.asarray(cfg.conns)
        if ex.symbolic:
            asm = load_assembler_module_concrete_patterns()
        else:
            import importlib
            import jax.numpy as jnp
            from optimism import SparseMatrixAssembler as asm
            importlib.reload(asm)                # module-level state as in a fresh interpreter
        for call, pairs in enumerate(layouts):
            member = _layout(cfg, pairs)
            orc = Oracle(cfg, member)
            kv = [px.unwrap(ex.real('k%d_e%d_%d_%d' % (call, e, i, j))) for e in range(nEl) for i in range(nD) for j in range(nD)]
            symblock = b_and(*[c14.v_eq(kv[(e * nD + i) * nD + j], kv[(e * nD + j) * nD + i]) for e in range(nEl) for i in range(nD) for j in range(i + 1, nD)])
            try:
                dm = real_dof_manager(cfg, member)
                if ex.symbolic:
                    K = asm.assemble_sparse_stiffness_matrix(dense_pa(kv, 'f', (nEl, npe, cfg.dim, npe, cfg.dim)), conns, dm)
                    shape, entry = tuple(int(raw(x)) for x in K.shape), K.entry
                else:
                    Kd = asm.assemble_sparse_stiffness_matrix(onp.asarray(kv, dtype=float).reshape(nEl, npe, cfg.dim, npe, cfg.dim), jnp.asarray(conns), dm).toarray()
                    shape = Kd.shape
                    entry = lambda u, v, Kd=Kd: float(Kd[u, v]) if (u < Kd.shape[0] and v < Kd.shape[1]) else 0.0
            except (ValueError, IndexError, TypeError) as e:
                ex.goal('assembly_call_%d_executes' % (call + 1), Holds(False), info='%s: %s (layout %s)' % (type(e).__name__, e, pairs))
                return
            n = int(orc.nfree)
            info = 'call %d of the history %s in one module instance' % (call + 1, layouts)
            ex.goal('assembly_call_%d_executes' % (call + 1), Holds(True))
            ex.goal('matrix_of_call_%d_has_shape_unknowns_by_unknowns' % (call + 1), Holds(shape == (n, n)), info=info)
            A = block_sum_oracle(cfg, orc, kv)
            cells = [(u, v) for u in range(n) for v in range(n)]
            ex.goal('matrix_of_call_%d_is_the_block_sum_for_symmetric_blocks' % (call + 1),
                    Eq([entry(u, v) for u, v in cells], [A[u][v] for u, v in cells], when=symblock, scale=1.0), info=info)
            ex.goal('matrix_of_call_%d_is_symmetric_for_symmetric_blocks' % (call + 1),
                    Eq([entry(u, v) for u, v in cells], [entry(v, u) for u, v in cells], when=symblock, scale=1.0), info=info)
    return fn


def _hist_goals(ncalls):
    out = []
    for c in range(1, ncalls + 1):
        out += ['assembly_call_%d_executes' % c, 'matrix_of_call_%d_has_shape_unknowns_by_unknowns' % c, 'matrix_of_call_%d_is_the_block_sum_for_symmetric_blocks' % c,
                'matrix_of_call_%d_is_symmetric_for_symmetric_blocks' % c]
    return out


def _hist_meta(h, cfg, what):
    from optimism import FunctionSpace, SparseMatrixAssembler
    D = FunctionSpace.DofManager
    h.encoded('optimism/SparseMatrixAssembler.py executed as source, symbolic block values on concrete index patterns',
              SparseMatrixAssembler.assemble_sparse_stiffness_matrix, D.__init__, D._make_hessian_coordinates, D._make_hessian_bc_mask)
    h.bounds(cfg.describe(), what)
    h.assume_note('BC layouts are concrete configuration choices (forked inputs): the real DofManager class and every index computation of the assembler run on real '
                  'numpy / scipy; kValues are free reals; scipy matrices that receive symbolic data are SymCOO (duplicates summed) / SymCSC (entry = sum of the data of the '
                  'column range whose row index matches); numpy.bincount with symbolic weights is the sum of the weights per bin',
                  'all assemblies of a history run in ONE loaded instance of the assembler module; the replay re-imports the real module and repeats the calls in order')
    h.outside('layouts outside the listed families; meshes beyond the bound')


@obligation(P, 'O1.assembly_history[tri2_f2]', cap=600)
def o1_history(h):
    """HISTORY: two different DofManagers assembled one after the other in the same assembler module instance — every ordered
    pair of single constrained dofs (64 histories; nodes of equal valence give equal unknown and entry counts with different
    layouts) and every ordered pair of fully constrained nodes (16 histories): BOTH matrices equal the block sum (hence the
    Hessian) and are symmetric, for all symmetric block values"""
    c = _asm_cfgs()['tri2_f2']
    _hist_meta(h, c, 'histories of 2 assemblies: (a) constrained dof d1 then constrained dof d2, d1, d2 in 0..7; (b) node n1 fully constrained then node n2, n1, n2 in 0..3; '
                     'kValues: 72 free reals per call')

    def single(ex):
        d1, d2 = choose(ex, 'first_constrained_dof', c.ndof), choose(ex, 'second_constrained_dof', c.ndof)
        return [[(d1 // c.dim, d1 % c.dim)], [(d2 // c.dim, d2 % c.dim)]]

    def node(ex):
        n1, n2 = choose(ex, 'first_constrained_node', c.nN), choose(ex, 'second_constrained_node', c.nN)
        return [[(n1, k) for k in range(c.dim)], [(n2, k) for k in range(c.dim)]]
    px.run_px(h, 'single_dof_then_single_dof', make_history_harness(c, single), cap=60, order=('lra2', 'core'), expect_goals=_hist_goals(2))
    px.run_px(h, 'node_then_node', make_history_harness(c, node), cap=60, order=('lra2', 'core'), expect_goals=_hist_goals(2))


P3_LAYOUTS = [[], [(0, 0), (0, 1)], [(1, 0), (3, 0), (4, 0), (2, 0)], [(n, 1) for n in range(10)]]


@obligation(P, 'O1.assembly_cubic_element', cap=600)
def o1_cubic(h):
    """one CUBIC triangle (10 nodes, 2 fields: 20 dofs per element, 400 block values): the assembled matrix equals the block sum and
    is symmetric for all symmetric block values, for the layouts: no BC, one node fixed, one edge constrained in x, all y
    constrained — assembled in sequence in one module instance"""
    c = _p3_cfg()
    _hist_meta(h, c, 'history of %d assemblies with the layouts (node, component) = %s; kValues: 400 free reals per call' % (len(P3_LAYOUTS), P3_LAYOUTS))
    px.run_px(h, 'cubic', make_history_harness(c, lambda ex: P3_LAYOUTS), cap=120, order=('lra2', 'core'), expect_goals=_hist_goals(len(P3_LAYOUTS)))


# =========================================================================================== JX part: O2, O3, O4
def s0(a):
    return a[()] if hasattr(a, 'shape') and a.shape == () else a


def _mods():
    from optimism import Mechanics, FunctionSpace, Interpolants, QuadratureRule, Mesh
    from optimism.material import LinearElastic, Neohookean, MaterialModel
    return Mechanics, FunctionSpace, Interpolants, QuadratureRule, Mesh, LinearElastic, Neohookean, MaterialModel


MESHES = {
    1: ([[0.0, 0.0], [1.0, 0.0], [0.0, 1.0]], [[0, 1, 2]]),
    2: ([[0.0, 0.0], [1.0, 0.0], [1.0, 1.0], [0.0, 1.0]], [[0, 1, 2], [0, 2, 3]]),
    3: ([[0.0, 0.0], [1.0, 0.0], [1.0, 1.0], [0.0, 1.0], [-1.0, 0.5]], [[0, 1, 2], [0, 2, 3], [0, 3, 4]]),
}
AXI_SHIFT = 1.0     # axisymmetric example meshes sit at r >= 1


class Setup:
    """parent element, quadrature rule, shape tables (ground data of the real code) and connectivity of a 1-3 element P1 mesh;
    the function space is built INSIDE the traced function from symbolic nodal coordinates"""

    def __init__(self, nel=1, qdeg=1):
        import jax.numpy as jnp
        M = _mods()
        self.nel = nel
        self.pe, self.pe1 = M[2].make_parent_elements(1)
        self.qr = M[3].create_quadrature_rule_on_triangle(qdeg)
        self.shp = M[2].compute_shapes(self.pe, self.qr.xigauss)
        self.X0 = onp.asarray(MESHES[nel][0])
        self.conns = onp.asarray(MESHES[nel][1])
        self.nn = self.X0.shape[0]
        self.nq = len(self.qr)

    def fs(self, X, mode2D='cartesian', blocks=None, nodeSets=None):
        import jax.numpy as jnp
        M = _mods()
        if blocks is None:
            blocks = {'block_0': jnp.arange(self.nel)}
        mesh = M[4].Mesh(X, jnp.asarray(self.conns), None, self.pe, self.pe1, blocks, nodeSets, None)
        return M[1].construct_function_space_from_parent_element(mesh, self.shp, self.qr, mode2D)

    def state(self, ns=0):
        import jax.numpy as jnp
        return jnp.zeros((self.nel, self.nq, ns))


def synthetic_material(c, density=None):
    """a path-dependent material through the repository's MaterialModel interface (harness material: exercises the state
    plumbing of the block loops; two internal variables)"""
    import jax.numpy as jnp
    MaterialModel = _mods()[7].MaterialModel

    def energy(H, Q, dt):
        e = 0.5 * (H + H.T)
        return 0.5 * c[0] * jnp.tensordot(e, e) + c[1] * Q[0] * jnp.trace(H) + c[2] * Q[1] * Q[1] * H[0, 1] + dt * Q[0] * H[1, 1] * H[0, 0]

    def state_new(H, Q, dt):
        return jnp.array([Q[0] + dt * jnp.trace(H), c[1] * Q[1] + H[0, 1] * H[1, 0]])
    return MaterialModel(compute_energy_density=energy, compute_initial_state=lambda: jnp.zeros(2), compute_state_new=state_new, density=density)


def anisotropic_state_material(c, density=None):
    """harness material whose energy density is NOT invariant under transposition of the displacement gradient and depends on a
    non-symmetric tensorial internal variable (9 state variables = a 3x3 tensor per quadrature point):
    W(H, Q) = a tr(H^T H) + b (Q : H)^2 + c H01^2 + d H01 H10.  Every isotropic repository material at a virgin state satisfies
    W(H^T) = W(H), so a stiffness path that sees (grad u)^T instead of grad u is invisible with them."""
    import jax.numpy as jnp
    MaterialModel = _mods()[7].MaterialModel

    def energy(H, Q, dt):
        T = Q.reshape(3, 3)
        return c[0] * jnp.tensordot(H, H) + c[1] * jnp.tensordot(T, H) ** 2 + c[2] * H[0, 1] ** 2 + c[3] * H[0, 1] * H[1, 0]

    def state_new(H, Q, dt):
        return Q + dt * (H @ Q.reshape(3, 3)).reshape(9)
    return MaterialModel(compute_energy_density=energy, compute_initial_state=lambda: jnp.zeros(9), compute_state_new=state_new, density=density)


def material(kind, E, nu, rho=None):
    M = _mods()
    props = {'elastic modulus': E, 'poisson ratio': nu}
    if rho is not None:
        props['density'] = rho
    if kind == 'linear':
        return M[5].create_material_model_functions(props)
    if kind == 'green_lagrange':
        return M[5].create_material_model_functions(dict(props, **{'strain measure': 'green lagrange'}))
    if kind == 'neohookean':
        return M[6].create_material_model_functions(props)
    if kind == 'neohookean_coupled':
        return M[6].create_material_model_functions(dict(props, version='coupled'))
    if kind == 'synthetic':
        return synthetic_material([E, nu, E * nu], rho)
    if kind == 'anisotropic_state':
        return anisotropic_state_material([E, nu, E + nu, E * nu], rho)
    raise ValueError(kind)


NSTATE = {'linear': 0, 'green_lagrange': 0, 'neohookean': 0, 'neohookean_coupled': 0, 'synthetic': 2, 'anisotropic_state': 9}


def _jx_encoded(h):
    M = _mods()
    Mech, FS, LE, NH = M[0], M[1], M[5], M[6]
    h.encoded(Mech.create_mechanics_functions, Mech.create_multi_block_mechanics_functions, Mech.create_dynamics_functions,
              Mech.compute_element_stiffness_from_global_fields, Mech._compute_element_stiffnesses, Mech._compute_strain_energy,
              Mech._compute_updated_internal_variables, Mech._compute_strain_energy_multi_block, Mech._compute_updated_internal_variables_multi_block,
              Mech._compute_element_stiffnesses_multi_block, Mech.compute_newmark_lagrangian, Mech._compute_newmark_element_hessians,
              Mech.plane_strain_gradient_transformation, Mech.axisymmetric_element_gradient_transformation, Mech.axisymmetric_gradient,
              Mech.strain_energy_density_to_lagrangian_density, Mech.kinetic_energy_density,
              FS.construct_function_space_from_parent_element, FS.map_element_shape_grads, FS.compute_element_volumes, FS.compute_element_volumes_axisymmetric,
              FS.integrate_over_block, FS.evaluate_on_block, FS.evaluate_on_element, FS.integrate_element_from_local_field, FS.compute_field_gradient,
              FS.DofManager.create_field,
              LE.create_material_model_functions, LE._linear_elastic_energy_density, LE.linear_strain, LE.green_lagrange_strain,
              NH.create_material_model_functions, NH._adagio_neohookean, NH._neohookean_3D_energy_density)


BOX = 'E > 0, -1 < nu < 1/2; coordinates, displacements, states: all reals (element Jacobians non-singular; axisymmetric: radii of the quadrature points non-zero)'


def _box(i):
    out = []
    if 'E' in i:
        out.append(v_lt(0.0, s0(i['E'])))
    if 'nu' in i:
        out += [v_lt(-1.0, s0(i['nu'])), v_lt(s0(i['nu']), 0.5)]
    for k in ('rho', 'beta', 'dt'):
        if k in i:
            out.append(v_lt(0.0, s0(i[k])))
    return out


def _rand_X(S, rng, axi=False):
    X = S.X0 + rng.uniform(-0.15, 0.15, size=S.X0.shape)
    if axi:
        X = X + onp.array([AXI_SHIFT, 0.0])
    return X


def _X0(S, axi=False):
    return S.X0 + (onp.array([AXI_SHIFT, 0.0]) if axi else 0.0)


import contextlib


@contextlib.contextmanager
def det_by_closed_form():
    """jnp.linalg.det carries a custom JVP that runs a pivoted LU (`_cofactor_solve`), which has no relational encoding for a
    symbolic matrix; while TRACING it is replaced by JAX's own closed-form primal `_det_3x3` / `_det_2x2` (whose derivative is the
    cofactor matrix). Ground validation compares against, and every replay runs, the real jnp.linalg.det."""
    import jax.numpy as jnp
    import jax.numpy.linalg as jl
    from jax._src.numpy import linalg as _l
    saved = jl.det

    def det3(a):
        a = jnp.asarray(a)
        if a.shape[-2:] == (3, 3):
            return _l._det_3x3(a)
        if a.shape[-2:] == (2, 2):
            return _l._det_2x2(a)
        return saved(a)
    jl.det = det3
    try:
        yield
    finally:
        jl.det = saved


NOTE_DET = ('jnp.linalg.det (3x3): its custom JVP (pivoted LU) is replaced at trace time by the derivative of JAX\'s own closed-form primal _det_3x3; '
            'translator validation compares the encoded jaxpr with the unpatched real function, replays run the unpatched real function')
NOTE_UF = ('log and pow (non-integer exponent) are uninterpreted functions of their arguments (Ackermannised); the symmetry / equality goals are identities of the '
           'autodiff expressions that hold for arbitrary values of these functions')


def reciprocal_div_hook(ctx, eqn, iv):
    """x / d with a symbolic denominator d := x * r_d with one fresh r_d per distinct denominator term (hash-consed) and the
    side condition d != 0 -> r_d * d = 1. Goals that are identities of the autodiff expressions then are POLYNOMIAL identities
    (z3 treats `/` with a non-constant divisor as an opaque operator otherwise)."""
    from .. import jx

    def d(x, y):
        if not isz(y):
            return NotImplemented
        key = ('c02recip', jx.term_key(y))
        if key not in ctx.cache:
            r = ctx.fresh('recip')
            ctx.cache[key] = (r, y)          # keeps y alive: z3 AST ids are reused after garbage collection
            ctx.add_side(z3.Implies(y != 0, r * y == 1))
            ctx.denoms.append((ctx.guard(), y))
        return sym.v_mul(x, ctx.cache[key][0])
    a, b = [jx.lift(v) for v in iv]
    if not any(isz(t) for t in b.reshape(-1)):
        return NotImplemented
    out = jx.ew(lambda x, y: d(x, y) if isz(y) else (sym.toz(x) / sym.toz(y) if isz(x) else x / y), a, b)
    return out


def jx_ctx():
    from .. import jx
    ctx = jx.Ctx()
    ctx.hooks['div'] = reciprocal_div_hook
    return ctx


def zsimp(x):
    """difference of two symbolic expressions in sum-of-monomials normal form (z3's own rewriter); floats pass through"""
    if isz(x):
        return z3.simplify(x, som=True)
    return x


def _exact_binop_hook(op):
    """constant (x) constant inside the traced program is folded by JX with the real primitive, i.e. ROUNDED to binary64, while
    constant (x) symbolic is exact: identities of the autodiff expressions (K[a,b] vs K[b,a]: the one-hot tangent passes through
    different factors first) then hold only up to an ulp in the encoding. Under the all-reals semantics of DESIGN section 2
    (rounding of evaluation is outside every claim) an INEXACT constant product / sum is kept as the exact rational."""
    from fractions import Fraction
    from .. import jx
    import operator
    fop = {'mul': operator.mul, 'add': operator.add, 'sub': operator.sub}[op]

    def hook(ctx, eqn, iv):
        a, b = [jx.lift(v) for v in iv]
        if a.dtype == object or b.dtype == object:
            if any(isz(t) for t in a.reshape(-1)) or any(isz(t) for t in b.reshape(-1)):
                return NotImplemented
        if onp.asarray(a).dtype.kind not in 'fO' or a.size * b.size > 4096:
            return NotImplemented
        changed = [False]

        def f(x, y):
            if isinstance(x, (bool, onp.bool_)) or isinstance(y, (bool, onp.bool_)):
                return fop(x, y)
            x, y = float(x), float(y)
            r = fop(x, y)
            if r != r or r in (float('inf'), float('-inf')):
                return r
            ex = fop(Fraction(x), Fraction(y))
            if Fraction(r) == ex:
                return r
            changed[0] = True
            return sym.rat(ex)
        out = jx.ew(f, a, b)
        return out if changed[0] else NotImplemented
    return hook


def jx_ctx_exact():
    ctx = jx_ctx()
    for op in ('mul', 'add', 'sub'):
        ctx.hooks[op] = _exact_binop_hook(op)
    return ctx


NOTE_EXACT = ('all-reals semantics also for constant sub-expressions: a product / sum / difference of two binary64 constants inside the traced program that is not '
              'exactly representable is kept as its exact rational (JX would otherwise fold it with rounding, which breaks exact identities by one ulp)')
NOTE_RECIP = 'x / d with symbolic d is encoded as x * r_d with r_d * d = 1 (d != 0 assumed: 1+nu, 1-2nu, radii of the quadrature points, det F)'


def prove_atoms(c, name, spec, cap=60, order=('core', 'nlsat'), side=True, extra=()):
    """like Case.prove, but side=False proves the atoms WITHOUT the definitional side conditions of the encoding (linear-solve
    relations, reciprocal definitions, Ackermann constraints) and without the box: the goal then is an identity of the
    expressions in all their atoms, which is the stronger statement (dropping assumptions keeps `unsat` sound) and is what z3
    decides in seconds (with the side conditions present the same queries come back unknown)."""
    import jax
    assumes, atoms = spec(c.inp, c.out)
    if isinstance(atoms, sym.Atom):
        atoms = [atoms]
    base = (list(assumes) + c.side(True) if side else []) + list(extra)
    recs = []
    import time as _time
    spent = 0.0          # time spent on goals that are not free identities (many-atom specs: the obligation is not green any more, bound the work)
    for i, atom in enumerate(atoms):
        def concrete(vals, i=i):
            ci = c.conc_inputs(vals)
            co = c.real(vals)
            ca, catoms = spec(ci, co)
            if isinstance(catoms, sym.Atom):
                catoms = [catoms]
            ok = all(bool(x) for x in flat(list(ca))) if side else True
            return ok, catoms[i], dict(outputs=[onp.asarray(l).tolist() for l in jax.tree_util.tree_leaves(co)][:4])
        qname = '%s.%s' % (name, atom.name) if atom.name else name
        t_atom = _time.time()
        rec = c.h.prove(qname, base, atom, inputs=c.inp, concrete=concrete, cap=cap if spent < 240 else min(cap, 20), order=order)
        if not side and rec is not None and rec.get('status') != 'discharged' and (spent >= 240 or c.ctx.ufs):
            # (goals over uninterpreted log / pow atoms: a counterexample search under the full encoding has no replayable models and has crashed nlsat)
            spent += _time.time() - t_atom
        elif not side and rec is not None and rec.get('status') != 'discharged':
            # not an identity of the expressions: decide the goal under the complete encoding (box, linear-solve relations, reciprocal
            # definitions), whose models are points of the real function and can be replayed
            full = list(assumes) + c.side(True) + list(extra)

            def concrete_full(vals, i=i):
                ok, at, info = concrete(vals)
                ca, _ = spec(c.conc_inputs(vals), c.real(vals))
                return all(bool(x) for x in flat(list(ca))), at, info
            if c.h.records and c.h.records[-1] is rec:
                c.h.records.pop()
            # counterexample search: first with geometry / moduli / step pinned to the example values (a low-dimensional polynomial
            # problem; any model found is a model of the unpinned query as well), then unpinned
            pins = []
            for k, e in zip(c.names, c.example):
                if k in ('X', 'E', 'nu', 'rho', 'beta', 'dt', 'E1', 'nu1', 'E2', 'nu2'):
                    pins += [sym.toz(x) == sym.rat(float(v)) for x, v in zip(flat(c.inp[k]), onp.asarray(e, dtype=float).reshape(-1))]
            st = sym.solve(full + pins + [atom.neg(1e-5)], min(cap, 40), order=('nlsat', 'core'))[0] if pins else 'unknown'
            note = 'free identity not established (%s); decided with the side conditions of the encoding' % rec.get('status')
            if st == 'sat':
                rec = c.h.prove(qname, full + pins, atom, inputs=c.inp, concrete=concrete_full, cap=cap, order=('nlsat', 'core'),
                                note=note + '; counterexample search with geometry and moduli pinned to the example values')
            else:
                rec = c.h.prove(qname, full, atom, inputs=c.inp, concrete=concrete_full, cap=min(cap, 60), order=('nlsat', 'core'), note=note)
            spent += _time.time() - t_atom
        recs.append(rec)
    return recs


SYM_PAIRS = [(a, i, b, j) for a in range(3) for i in range(2) for b in range(3) for j in range(2) if (a, i) < (b, j)]


def stiffness_case(h, kind, mode, qdeg, label=None):
    """K = create_mechanics_functions(fs(X), mode, material(E, nu)).compute_element_stiffnesses(U, state)[0] on one triangle with
    symbolic nodal coordinates X, moduli and displacements"""
    import jax.numpy as jnp
    from ..jxh import Case
    S = Setup(1, qdeg)
    M = _mods()
    axi = mode == 'axisymmetric'
    ns = NSTATE[kind]

    def f(X, E, nu, U, Q):
        import jax
        fs = S.fs(X, 'axisymmetric' if axi else 'cartesian')
        mech = M[0].create_mechanics_functions(fs, mode, material(kind, E, nu))
        return mech.compute_element_stiffnesses(U, Q, 0.125)[0], jax.hessian(lambda u: mech.compute_strain_energy(u, Q, 0.125))(U)
    Z = onp.zeros((3, 2))
    ex = dict(X=_X0(S, axi), E=1.0, nu=0.3, U=Z + 0.05, Q=onp.zeros((1, S.nq, ns)) + 0.1)
    smp = lambda rng: [_rand_X(S, rng, axi), rng.uniform(0.5, 2.0), rng.uniform(-0.3, 0.45), rng.normal(size=(3, 2)) * 0.1, rng.normal(size=(1, S.nq, ns)) * 0.1]
    with det_by_closed_form():
        return Case(h, f, ex, sampler=smp, label=label or 'stiffness[%s/%s/q%d]' % (kind, mode, qdeg), ctx=jx_ctx_exact(), validate=2, rtol=1e-7)


def _sym_spec(i, o):
    o = o[0]
    return _box(i), Eq([o[a, k, b, l] for a, k, b, l in SYM_PAIRS], [o[b, l, a, k] for a, k, b, l in SYM_PAIRS], name='K_abij_eq_K_baji')


def _hess_spec(i, o):
    """the literal property statement on one element: the stiffness block is the second derivative of the energy that
    compute_strain_energy integrates, w.r.t. the element's nodal displacements"""
    K, H = o
    return _box(i), Eq([K[p] for p in ALL_PAIRS], [H[p] for p in ALL_PAIRS], name='element_stiffness_is_hessian_of_the_strain_energy', scale=1.0)


def _hess_spec_split(i, o):
    K, H = o
    return _box(i), [Eq(K[p], H[p], name='K_%d%d%d%d_is_d2E' % p, scale=1.0) for p in ALL_PAIRS if p[:2] <= p[2:]]


def _sym_spec_split(i, o):
    """one atom per pair of entries (the monolithic query needs ~100 s for neo-Hookean / axisymmetric, a single pair 2-8 s)"""
    o = o[0]
    return _box(i), [Eq(o[a, k, b, l], o[b, l, a, k], name='K_%d%d%d%d_eq_K_%d%d%d%d' % (a, k, b, l, b, l, a, k)) for a, k, b, l in SYM_PAIRS]


STIFF_QUICK = [('linear', 'plane strain', 2), ('linear', 'axisymmetric', 2), ('green_lagrange', 'plane strain', 2), ('green_lagrange', 'axisymmetric', 2),
               ('neohookean', 'plane strain', 1), ('neohookean', 'axisymmetric', 1), ('neohookean_coupled', 'plane strain', 2), ('synthetic', 'plane strain', 2),
               ('anisotropic_state', 'plane strain', 2), ('anisotropic_state', 'axisymmetric', 2)]
STIFF_THOROUGH = [('neohookean', 'plane strain', 2), ('synthetic', 'axisymmetric', 2), ('green_lagrange', 'axisymmetric', 4)]
DESIGNED_NOT_REGISTERED.append(
    ('O2 element stiffness symmetric for neo-Hookean (both energy versions) / axisymmetric with the 3-point rule',
     'one query per pair of entries, free identity: the obligation did not finish within 1800 s (three sets of log / pow atoms times the hoop terms N_a N_b / r^2 of three '
     'quadrature points); the same material and mode are registered with the 1-point rule (2-8 s per pair), and axisymmetric with the 3-point rule for the linear, '
     'Green-Lagrange and synthetic materials'))


def _jx_notes(h):
    h.assume_note(NOTE_DET, NOTE_UF, NOTE_EXACT, NOTE_RECIP,
                  'element Jacobian non-singular: the shape gradients are the solution of J^T g = dN (jnp solve encoded relationally, hash-consed)')
    h.outside('that jax.hessian of the element energy is its Hessian (JAX autodiff trusted); element order > 1; rounding error of evaluation '
              '(the real K is symmetric to ~1e-15 relative only)', 'path-dependent repository materials (J2, viscoelastic) in the element-level identities: '
              'a harness material with two internal variables stands in for the state plumbing')


def _register_o2_symmetry():
    for kind, mode, qdeg in STIFF_QUICK + STIFF_THOROUGH:
        tiers = ('quick', 'thorough') if (kind, mode, qdeg) in STIFF_QUICK else ('thorough',)

        def ob(h, kind=kind, mode=mode, qdeg=qdeg):
            _jx_encoded(h)
            _jx_notes(h)
            h.bounds('O2: one P1 triangle, nodal coordinates X (3x2), E, nu, nodal displacements U (3x2), internal state: ALL reals (the identity is proved without '
                     'any hypothesis, in particular for every triangle and every modulus); material %s, mode %s, %d-point rule' % (kind, mode, len(Setup(1, qdeg).qr)))
            c = stiffness_case(h, kind, mode, qdeg)
            split = kind.startswith('neohookean') and mode == 'axisymmetric'
            prove_atoms(c, 'symmetry', _sym_spec_split if split else _sym_spec, cap=150, order=('core', 'nlsat'), side=False)
            # (split = log/pow atoms: SMT core only; nlsat on a non-identity of this size has exhausted the worker's memory)
            prove_atoms(c, 'hessian', _hess_spec_split if split else _hess_spec, cap=60 if split else 150, order=('core',) if split else ('core', 'nlsat'), side=False)
        ob.__doc__ = ('element stiffness K[a,i,b,j] = K[b,j,a,i] exactly, and K = jax.hessian of MechanicsFunctions.compute_strain_energy w.r.t. the nodal displacements: '
                      'jaxprs of the factory functions on one symbolic-coordinate triangle')
        obligation(P, 'O2.element_stiffness_symmetric[%s/%s/q%d]' % (kind, mode.replace(' ', '_'), qdeg), tiers=tiers, cap=600)(ob)


_register_o2_symmetry()


# ------------------------------------------------------------------------------------------ O2: Newmark element Hessian
def newmark_case(h, kind, mode, qdeg, label=None):
    """(Hessian of DynamicsFunctions.compute_algorithmic_energy w.r.t. U, DynamicsFunctions.compute_element_hessians(U, UPredicted)[0]) on one
    triangle with symbolic coordinates, moduli, density, Newmark beta, time step, U and UPredicted"""
    import jax
    import jax.numpy as jnp
    from ..jxh import Case
    S = Setup(1, qdeg)
    M = _mods()
    axi = mode == 'axisymmetric'

    def f(X, E, nu, rho, beta, U, Up, dt):
        fs = S.fs(X, 'axisymmetric' if axi else 'cartesian')
        dyn = M[0].create_dynamics_functions(fs, mode, material(kind, E, nu, rho), M[0].NewmarkParameters(gamma=0.5, beta=beta))
        H = jax.hessian(lambda u: dyn.compute_algorithmic_energy(u, Up, S.state(), dt))(U)
        return H, dyn.compute_element_hessians(U, Up, S.state(), dt)[0]
    Z = onp.zeros((3, 2))
    ex = dict(X=_X0(S, axi), E=1.0, nu=0.3, rho=1.5, beta=0.25, U=Z + 0.05, Up=Z - 0.1, dt=0.5)
    smp = lambda rng: [_rand_X(S, rng, axi), rng.uniform(0.5, 2.0), rng.uniform(-0.3, 0.45), rng.uniform(0.5, 2.0), rng.uniform(0.1, 0.5),
                       rng.normal(size=(3, 2)) * 0.1, rng.normal(size=(3, 2)) * 0.1, rng.uniform(0.1, 1.0)]
    with det_by_closed_form():
        return Case(h, f, ex, sampler=smp, label=label or 'newmark[%s/%s/q%d]' % (kind, mode, qdeg), ctx=jx_ctx_exact(), validate=2, rtol=1e-7)


ALL_PAIRS = [(a, i, b, j) for a in range(3) for i in range(2) for b in range(3) for j in range(2)]


def _newmark_hessian_spec(i, o):
    H, K = o
    return _box(i), Eq([K[p] for p in ALL_PAIRS], [H[p] for p in ALL_PAIRS], name='element_hessian_is_hessian_of_algorithmic_energy', scale=1.0)


def _newmark_sym_spec(i, o):
    H, K = o
    return _box(i), Eq([K[a, k, b, l] for a, k, b, l in SYM_PAIRS], [K[b, l, a, k] for a, k, b, l in SYM_PAIRS], name='K_abij_eq_K_baji')


def _newmark_meta(h, kind, mode, qdeg):
    _jx_encoded(h)
    _jx_notes(h)
    h.bounds('O2 Newmark: one P1 triangle, nodal coordinates, E, nu, density rho, Newmark beta, dt, U, UPredicted: reals; box for the Hessian comparison: ' + BOX +
             ', rho > 0, beta > 0, dt > 0; material %s, mode %s, %d-point rule' % (kind, mode, len(Setup(1, qdeg).qr)))


@obligation(P, 'O2.newmark_element_hessian[linear]', cap=600)
def o2_newmark_linear(h):
    """linear elasticity (quadratic strain energy): DynamicsFunctions.compute_element_hessians equals the Hessian of the Newmark
    algorithmic energy (strain energy + inertia) w.r.t. U and is symmetric — plane strain and axisymmetric"""
    for mode in ('plane strain', 'axisymmetric'):
        _newmark_meta(h, 'linear', mode, 2)
        c = newmark_case(h, 'linear', mode, 2)
        prove_atoms(c, 'newmark[%s]' % mode, _newmark_hessian_spec, cap=100, side=False)
        prove_atoms(c, 'newmark[%s]' % mode, _newmark_sym_spec, cap=100, side=False)


@obligation(P, 'O2.newmark_element_hessian_symmetric[nonlinear]', cap=600)
def o2_newmark_sym(h):
    """the Newmark element Hessian of a nonlinear material is symmetric (whatever point it is evaluated at)"""
    for kind, mode, q in (('green_lagrange', 'plane strain', 2), ('neohookean', 'plane strain', 1)):
        _newmark_meta(h, kind, mode, q)
        c = newmark_case(h, kind, mode, q)
        prove_atoms(c, 'newmark[%s/%s]' % (kind, mode), _newmark_sym_spec, cap=100, side=False)


@obligation(P, 'O2.newmark_element_hessian_at_U[green_lagrange]', cap=600)
def o2_newmark_nonlinear(h):
    """narrow query, NONLINEAR material (LinearElastic with 'strain measure': 'green lagrange'): element Hessian of the dynamics
    functions == jax.hessian of compute_algorithmic_energy w.r.t. U. On the unchanged tree _compute_newmark_element_hessians hands
    `U - UPredicted` to the element Hessian, so the strain-energy part is evaluated at U - UPredicted instead of U."""
    _newmark_meta(h, 'green_lagrange', 'plane strain', 1)
    c = newmark_case(h, 'green_lagrange', 'plane strain', 1)
    c.prove('newmark[green_lagrange/plane strain]', _newmark_hessian_spec, cap=200, order=('nlsat', 'core'))


# =========================================================================================== O3: multi-block = single block
BLOCKINGS = {
    '2el_split': (2, (('left', (0,)), ('right', (1,)))),
    '2el_split_reversed_keys': (2, (('b', (1,)), ('a', (0,)))),
    '3el_interleaved': (3, (('outer', (0, 2)), ('middle', (1,)))),                   # a block whose element ids are not one consecutive run
    '3el_interleaved_descending': (3, (('middle', (1,)), ('outer', (2, 0)))),        # ... listed in descending order, after the other block
}


def blocks_case(h, kind, blocking, qdeg):
    import jax.numpy as jnp
    from ..jxh import Case
    nel, blocks = BLOCKINGS[blocking]
    S = Setup(nel, qdeg)
    M = _mods()
    w = max(1, NSTATE[kind])

    def f(X, E, nu, U, Q, dt):
        bl = {k: jnp.asarray(v) for k, v in blocks}
        fs = S.fs(X, 'cartesian', blocks=bl)
        mat = material(kind, E, nu)
        one = M[0].create_mechanics_functions(fs, 'plane strain', mat)
        many = M[0].create_multi_block_mechanics_functions(fs, 'plane strain', {k: mat for k, _ in blocks})
        return (one.compute_strain_energy(U, Q, dt), many.compute_strain_energy(U, Q, dt),
                one.compute_updated_internal_variables(U, Q, dt), many.compute_updated_internal_variables(U, Q, dt),
                one.compute_element_stiffnesses(U, Q, dt), many.compute_element_stiffnesses(U, Q, dt))
    Z = onp.zeros((S.nn, 2))
    ex = dict(X=S.X0, E=1.0, nu=0.3, U=Z + 0.05, Q=onp.zeros((nel, S.nq, w)) + 0.1, dt=0.25)
    smp = lambda rng: [_rand_X(S, rng), rng.uniform(0.5, 2.0), rng.uniform(-0.3, 0.45), rng.normal(size=(S.nn, 2)) * 0.1, rng.normal(size=(nel, S.nq, w)) * 0.1, rng.uniform(0.1, 1.0)]
    with det_by_closed_form():
        return Case(h, f, ex, sampler=smp, label='blocks[%s/%s/q%d]' % (kind, blocking, qdeg), ctx=jx_ctx_exact(), validate=2, rtol=1e-7)


def _blocks_spec(i, o):
    e1, e2, s1, s2, k1, k2 = o
    return _box(i), [Eq(s0(e2), s0(e1), name='strain_energy_multi_block_eq_single_block', scale=1.0),
                     Eq(s2, s1, name='updated_internal_variables_multi_block_eq_single_block', scale=1.0),
                     Eq(k2, k1, name='element_stiffnesses_multi_block_eq_single_block', scale=1.0)]


# the synthetic material is state dependent (energy, stiffness and state update all read the internal variables), and the internal state is a free real
# per element / quadrature point / variable: a block loop that reads the wrong elements' state is visible
BLOCK_QUICK = [('neohookean', '2el_split', 1), ('synthetic', '3el_interleaved', 2), ('synthetic', '3el_interleaved_descending', 1), ('green_lagrange', '2el_split_reversed_keys', 2)]
BLOCK_THOROUGH = [('synthetic', '2el_split', 2), ('synthetic', '3el_interleaved_descending', 2), ('neohookean', '3el_interleaved', 1), ('linear', '2el_split', 2),
                  ('neohookean_coupled', '2el_split_reversed_keys', 2)]


def _register_o3():
    for kind, blocking, qdeg in BLOCK_QUICK + BLOCK_THOROUGH:
        tiers = ('quick', 'thorough') if (kind, blocking, qdeg) in BLOCK_QUICK else ('thorough',)

        def ob(h, kind=kind, blocking=blocking, qdeg=qdeg):
            _jx_encoded(h)
            _jx_notes(h)
            nel, blocks = BLOCKINGS[blocking]
            h.bounds('O3: %d P1 triangles (mesh %s) split into blocks %s, all blocks carrying the same material %s; nodal coordinates, E, nu, U, internal '
                     'state (width %d), dt: ALL reals (identities proved without hypotheses); %d-point rule; plane strain'
                     % (nel, MESHES[nel][1], dict(blocks), kind, max(1, NSTATE[kind]), len(Setup(nel, qdeg).qr)))
            h.outside('multi-block axisymmetric (create_multi_block_mechanics_functions raises NotImplementedError explicitly); blocks with different materials')
            c = blocks_case(h, kind, blocking, qdeg)
            prove_atoms(c, 'blocks', _blocks_spec, cap=100, side=False)
        ob.__doc__ = ('create_multi_block_mechanics_functions on a mesh split into blocks carrying the same material gives the same strain energy, updated internal '
                      'variables and element stiffnesses as create_mechanics_functions, for all U / states / coordinates / moduli')
        obligation(P, 'O3.multi_block_equals_single_block[%s/%s/q%d]' % (kind, blocking, qdeg), tiers=tiers, cap=600)(ob)


_register_o3()


# ------------------------------------------------------------------------------------------ O3: two blocks with DIFFERENT materials
def two_material_case(h, kind, qdeg):
    """2-element mesh, mesh.blocks = {'left': [0], 'right': [1]}; materialModels = {'right': B, 'left': A} (listed in the REVERSED
    order): every function of the multi-block factory must pair a material with the elements of the block of the same NAME"""
    import jax
    import jax.numpy as jnp
    from ..jxh import Case
    S = Setup(2, qdeg)
    M = _mods()
    Mech, FS = M[0], M[1]
    w = max(1, NSTATE[kind])

    def f(X, E1, nu1, E2, nu2, U, Q, dt):
        fs = S.fs(X, 'cartesian', blocks={'left': jnp.array([0]), 'right': jnp.array([1])})
        matA, matB = material(kind, E1, nu1), material(kind, E2, nu2)
        many = Mech.create_multi_block_mechanics_functions(fs, 'plane strain', {'right': matB, 'left': matA})
        ref = 0.0
        for mat, el in ((matA, [0]), (matB, [1])):
            L = Mech.strain_energy_density_to_lagrangian_density(mat.compute_energy_density)
            ref = ref + FS.integrate_over_block(fs, U, Q, dt, L, jnp.array(el), modify_element_gradient=Mech.plane_strain_gradient_transformation)
        H = jax.hessian(lambda u: many.compute_strain_energy(u, Q, dt))(U)
        refstate = jnp.concatenate([Mech._compute_updated_internal_variables(fs, U, Q, dt, mat.compute_state_new, Mech.plane_strain_gradient_transformation)[e:e + 1]
                                    for e, mat in ((0, matA), (1, matB))])
        return many.compute_strain_energy(U, Q, dt), ref, H, many.compute_element_stiffnesses(U, Q, dt), many.compute_updated_internal_variables(U, Q, dt), refstate
    Z = onp.zeros((S.nn, 2))
    ex = dict(X=S.X0, E1=1.0, nu1=0.3, E2=2.5, nu2=0.1, U=Z + 0.05, Q=onp.zeros((2, S.nq, w)) + 0.1, dt=0.25)
    smp = lambda rng: [_rand_X(S, rng), rng.uniform(0.5, 2.0), rng.uniform(-0.3, 0.45), rng.uniform(0.5, 2.0), rng.uniform(-0.3, 0.45),
                       rng.normal(size=(S.nn, 2)) * 0.1, rng.normal(size=(2, S.nq, w)) * 0.1, rng.uniform(0.1, 1.0)]
    with det_by_closed_form():
        return Case(h, f, ex, sampler=smp, label='two_materials[%s/q%d]' % (kind, qdeg), ctx=jx_ctx_exact(), validate=2, rtol=1e-7), S


def _two_material_spec(S):
    conns = S.conns

    def spec(i, o):
        e_many, e_ref, H, K, s_many, s_ref = o
        box = [v_lt(0.0, s0(i['E1'])), v_lt(0.0, s0(i['E2'])), v_lt(-1.0, s0(i['nu1'])), v_lt(s0(i['nu1']), 0.5), v_lt(-1.0, s0(i['nu2'])), v_lt(s0(i['nu2']), 0.5)]
        A = {}
        for e in range(len(conns)):
            for a in range(3):
                for k in range(2):
                    for b in range(3):
                        for l in range(2):
                            A.setdefault((int(conns[e][a]), k, int(conns[e][b]), l), []).append(K[e, a, k, b, l])
        cells = [(n, k, m, l) for n in range(S.nn) for k in range(2) for m in range(S.nn) for l in range(2)]
        return box, [Eq(s0(e_many), s0(e_ref), name='strain_energy_is_the_sum_of_each_block_material_over_its_own_elements', scale=1.0),
                     Eq([H[c] for c in cells], [v_sum(A.get(c, [0.0])) for c in cells], name='element_stiffnesses_are_the_hessian_of_the_multi_block_strain_energy', scale=1.0),
                     Eq(s_many, s_ref, name='state_update_uses_each_block_material_on_its_own_elements', scale=1.0)]
    return spec


@obligation(P, 'O3.multi_block_two_materials', cap=600)
def o3_two_materials(h):
    """create_multi_block_mechanics_functions with TWO DIFFERENT materials (symbolic moduli E1, nu1 / E2, nu2) and the materialModels
    dict listed in the reversed order of mesh.blocks: the strain energy is the sum over blocks of the block's own material over the
    block's own elements (by name), the element stiffnesses scatter to the Hessian of that factory energy, and the state update
    uses each block's own material"""
    _jx_encoded(h)
    _jx_notes(h)
    h.bounds('O3 two materials: 2 P1 triangles %s, mesh.blocks = {left: [0], right: [1]}, materialModels = {right: B, left: A}; coordinates, both pairs of moduli, U, state, '
             'dt: all reals (free identities); materials: Green-Lagrange (3-point rule) and the synthetic state material (3-point rule); plane strain' % (MESHES[2][1],))
    for kind, q in (('green_lagrange', 2), ('synthetic', 2)):
        c, S = two_material_case(h, kind, q)
        prove_atoms(c, 'two_materials[%s]' % kind, _two_material_spec(S), cap=100, side=False)


# =========================================================================================== O4: sum rule
BCSETS = {
    'free': [],
    'pin0_roller1y': [(0, 0), (0, 1), (1, 1)],
    'node2_fixed_node3_x': [(2, 0), (2, 1), (3, 0)],
}


def sumrule_case(h, kind, bcs, qdeg, mode='plane strain'):
    import jax
    import jax.numpy as jnp
    from ..jxh import Case
    S = Setup(2, qdeg)
    M = _mods()
    Mech, FS = M[0], M[1]
    axi = mode == 'axisymmetric'
    ns = NSTATE[kind]
    nodeSets = {'n%d' % n: jnp.array([n]) for n in range(S.nn)}
    fs0 = S.fs(jnp.asarray(_X0(S, axi)), 'axisymmetric' if axi else 'cartesian', nodeSets=nodeSets)
    dm = FS.DofManager(fs0, 2, [FS.EssentialBC(nodeSet='n%d' % n, component=k) for n, k in BCSETS[bcs]])
    nu_, nb = dm.get_unknown_size(), dm.get_bc_size()

    def f(X, E, nu, Uu, Ub, Q):
        fs = S.fs(X, 'axisymmetric' if axi else 'cartesian', nodeSets=nodeSets)
        mat = material(kind, E, nu)
        mech = Mech.create_mechanics_functions(fs, mode, mat)
        total = lambda w: mech.compute_strain_energy(dm.create_field(w, Ub), Q, 0.125)
        U = dm.create_field(Uu, Ub)
        L = Mech.strain_energy_density_to_lagrangian_density(mat.compute_energy_density)
        modify = Mech.parse_2D_to_3D_gradient_transformation(mode)
        el_energy = lambda ue, e: FS.integrate_element_from_local_field(ue, X[S.conns[e]], Q[e], 0.125, fs.shapes[e], fs.shapeGrads[e], fs.vols[e], L, modify)
        ge = jnp.stack([jax.grad(el_energy)(U[S.conns[e]], e) for e in range(S.nel)])
        return jax.grad(total)(Uu), jax.hessian(total)(Uu), ge, mech.compute_element_stiffnesses(U, Q, 0.125)
    ex = dict(X=_X0(S, axi), E=1.0, nu=0.3, Uu=onp.zeros(nu_) + 0.05, Ub=onp.zeros(nb) - 0.02, Q=onp.zeros((2, S.nq, ns)) + 0.1)
    smp = lambda rng: [_rand_X(S, rng, axi), rng.uniform(0.5, 2.0), rng.uniform(-0.3, 0.45), rng.normal(size=nu_) * 0.1, rng.normal(size=nb) * 0.1, rng.normal(size=(2, S.nq, ns)) * 0.1]
    with det_by_closed_form():
        c = Case(h, f, ex, sampler=smp, label='sumrule[%s/%s/q%d/%s]' % (kind, bcs, qdeg, mode), ctx=jx_ctx_exact(), validate=2, rtol=1e-7)
    # scatter maps by plain loops: unknown number of (node, component), or None
    unk = {int(d): u for u, d in enumerate(onp.asarray(dm.unknownIndices))}
    loc = [[[unk.get(int(S.conns[e][a]) * 2 + i) for i in range(2)] for a in range(3)] for e in range(S.nel)]
    return c, loc, nu_


def _sumrule_spec(loc, n):
    def spec(i, o):
        g, H, ge, Ke = o
        r = [[] for _ in range(n)]
        A = [[[] for _ in range(n)] for _ in range(n)]
        for e in range(len(loc)):
            for a in range(3):
                for k in range(2):
                    u = loc[e][a][k]
                    if u is None:
                        continue
                    r[u].append(ge[e, a, k])
                    for b in range(3):
                        for l in range(2):
                            v = loc[e][b][l]
                            if v is not None:
                                A[u][v].append(Ke[e, a, k, b, l])
        atoms = []
        if n:
            atoms.append(Eq([g[u] for u in range(n)], [v_sum(r[u]) for u in range(n)], name='gradient_of_total_energy_is_scatter_sum_of_element_gradients', scale=1.0))
            atoms.append(Eq([H[u, v] for u in range(n) for v in range(n)], [v_sum(A[u][v]) for u in range(n) for v in range(n)],
                            name='hessian_of_total_energy_is_scatter_sum_of_element_stiffnesses', scale=1.0))
        return _box(i), atoms
    return spec


SUM_QUICK = [('anisotropic_state', 'pin0_roller1y', 2, 'plane strain'), ('green_lagrange', 'pin0_roller1y', 2, 'plane strain'), ('neohookean', 'node2_fixed_node3_x', 1, 'plane strain'), ('linear', 'pin0_roller1y', 2, 'axisymmetric')]
SUM_THOROUGH = [('neohookean', 'free', 1, 'plane strain'), ('synthetic', 'node2_fixed_node3_x', 2, 'plane strain'), ('green_lagrange', 'free', 2, 'axisymmetric'),
                ('neohookean', 'pin0_roller1y', 1, 'axisymmetric')]


def _register_o4():
    for kind, bcs, qdeg, mode in SUM_QUICK + SUM_THOROUGH:
        tiers = ('quick', 'thorough') if (kind, bcs, qdeg, mode) in SUM_QUICK else ('thorough',)

        def ob(h, kind=kind, bcs=bcs, qdeg=qdeg, mode=mode):
            _jx_encoded(h)
            _jx_notes(h)
            h.bounds('O4: 2 P1 triangles %s / 4 nodes / 2 fields, essential BCs (node, component) = %s (real DofManager, concrete mask; every mask of this mesh is O1); nodal '
                     'coordinates, E, nu, unknown vector Uu, bc values Ub, internal state: ALL reals; material %s, %s, %d-point rule'
                     % (MESHES[2][1], BCSETS[bcs], kind, mode, len(Setup(2, qdeg).qr)))
            c, loc, n = sumrule_case(h, kind, bcs, qdeg, mode)
            prove_atoms(c, 'sumrule', _sumrule_spec(loc, n), cap=150, side=False)
        ob.__doc__ = ('jax.grad / jax.hessian of the total strain energy w.r.t. the unknown vector (through DofManager.create_field) equal the scatter-sum of the element '
                      'gradients / element stiffnesses over the unknown dofs (oracle scatter by plain loops over conns and unknownIndices)')
        obligation(P, 'O4.sum_rule[%s/%s/q%d/%s]' % (kind, bcs, qdeg, mode.replace(' ', '_')), tiers=tiers, cap=900)(ob)


_register_o4()


# =========================================================================================== O5: pressure projection through the factories
PP_CALLS = [
    ('create_mechanics_functions', 'plane strain'), ('create_mechanics_functions', 'axisymmetric'),
    ('create_multi_block_mechanics_functions', 'plane strain'),
    ('create_dynamics_functions', 'plane strain'), ('create_dynamics_functions', 'axisymmetric'),
]


def _pp_call(factory, mode, degree):
    """build the functions with a pressure-projection degree on a 2-element P1 mesh (3-point rule) and evaluate energy, element
    stiffnesses / Hessians and the internal-variable update once; returns (ok, detail)"""
    import traceback
    import jax.numpy as jnp
    S = Setup(2, 2)
    M = _mods()
    Mech = M[0]
    axi = mode == 'axisymmetric'
    X = jnp.asarray(_X0(S, axi))
    fs = S.fs(X, 'axisymmetric' if axi else 'cartesian', blocks={'a': jnp.array([0]), 'b': jnp.array([1])})
    mat = material('neohookean', 1.0, 0.3, 1.0)
    U = jnp.asarray(0.01 * onp.arange(S.nn * 2, dtype=float).reshape(S.nn, 2))
    try:
        if factory == 'create_mechanics_functions':
            F = Mech.create_mechanics_functions(fs, mode, mat, pressureProjectionDegree=degree)
            Q = F.compute_initial_state()
            out = (F.compute_strain_energy(U, Q), F.compute_element_stiffnesses(U, Q), F.compute_updated_internal_variables(U, Q))
        elif factory == 'create_multi_block_mechanics_functions':
            F = Mech.create_multi_block_mechanics_functions(fs, mode, {'a': mat, 'b': mat}, pressureProjectionDegree=degree)
            Q = F.compute_initial_state()
            out = (F.compute_strain_energy(U, Q), F.compute_element_stiffnesses(U, Q), F.compute_updated_internal_variables(U, Q))
        else:
            F = Mech.create_dynamics_functions(fs, mode, mat, Mech.NewmarkParameters(), pressureProjectionDegree=degree)
            Q = F.compute_initial_state()
            out = (F.compute_algorithmic_energy(U, 0.5 * U, Q, 0.1), F.compute_element_hessians(U, 0.5 * U, Q, 0.1), F.compute_updated_internal_variables(U, Q, 0.1))
        vals = [onp.asarray(o) for o in out]
        finite = all(bool(onp.all(onp.isfinite(v))) for v in vals)
        return finite, 'executed; energy %.6g, stiffness shape %s, all finite: %s' % (float(vals[0]), vals[1].shape, finite)
    except (AttributeError, NameError, TypeError, ValueError, IndexError, RecursionError) as e:
        tb = traceback.extract_tb(e.__traceback__)
        site = [fr for fr in tb if fr.filename.endswith('Mechanics.py')]
        where = '%s:%d in %s: `%s`' % (os.path.basename(site[-1].filename), site[-1].lineno, site[-1].name, site[-1].line) if site else ''
        return False, '%s: %s at %s' % (type(e).__name__, e, where)


def _register_o5():
    for factory in ('create_mechanics_functions', 'create_multi_block_mechanics_functions', 'create_dynamics_functions'):
        modes = [m for f, m in PP_CALLS if f == factory]

        def ob(h, factory=factory, modes=modes):
            M = _mods()
            h.encoded(getattr(M[0], factory), M[0].define_pressure_projection_gradient_tranformation, M[0].volume_average_J_gradient_transformation)
            h.bounds('O5: the calls %s(functionSpace, mode2D, material, ..., pressureProjectionDegree=d) for mode2D in %s, d in (1, 0) on a 2-element P1 mesh with the 3-point rule, '
                     'neo-Hookean material, each followed by one evaluation of the energy, the element stiffnesses / Hessians and the internal-variable update' % (factory, modes))
            h.outside('values computed with pressure projection (the option must first be executable at all); no solver query is involved: the obligation is the ground fact '
                      '"the advertised option executes", a failure is reported as a violation whose replay repeats the calls')
            h.assume_note('C02 statement: "for every advertised kinematic option (plane strain, axisymmetric, with or without volume-averaged pressure projection)"')
            name = 'factory_executes_with_pressure_projection'
            qn = '%s/%s' % (h.ob, name)
            if h.replay is not None and h.replay.get('query') != qn:
                return
            results = [(m, d) + _pp_call(factory, m, d) for m in modes for d in (1, 0)]
            bad = [(m, d, detail) for m, d, ok, detail in results if not ok]
            detail = '; '.join('[mode2D=%r, degree=%d] %s' % (m, d, t) for m, d, t in (bad or [(m, d, t) for m, d, ok, t in results]))
            if h.replay is not None:
                h.replay_result = dict(status='violated' if bad else 'unreproduced', detail=detail)
            elif bad:
                h.violation(name, dict(factory='optimism.Mechanics.' + factory, failing_calls=[dict(mode2D=m, pressureProjectionDegree=d) for m, d, _ in bad],
                                       mesh='2 P1 triangles, 3-point rule', material='Neohookean E=1 nu=0.3 density=1'), detail)
            else:
                h.fact(name, True, detail)
        ob.__doc__ = ('narrow query: the factory accepts a pressure-projection degree (volume-averaged J) and the functions it returns can be evaluated — every advertised '
                      'kinematic option must at least execute')
        obligation(P, 'O5.pressure_projection[%s]' % factory, cap=300)(ob)


_register_o5()
