"""C02 — assembled stiffness equals the Hessian of the total energy; symmetric; multi-block = single block.

O1 (PX, padded arrays of C14): the REAL source of optimism/SparseMatrixAssembler.py is executed on top of the REAL source of
   DofManager (optimism/FunctionSpace.py) with a fully symbolic BC mask, kValues = one fresh real per entry, scipy's
   coo_matrix replaced by a symbolic COO (duplicates summed). Entry (u, v) of the result is compared with the sum over
   (e, i, j) with unknown(e,i) = u, unknown(e,j) = v of kValues[e,i,j] (oracle by plain loops over conns).
O2 (JX): element stiffness of the factories is symmetric (linear elastic, Green-Lagrange, neo-Hookean; plane strain and
   axisymmetric); the Newmark element Hessian is the Hessian of the algorithmic energy (NONLINEAR material).
O3 (JX): the _multi_block functions on a 2-element mesh split into two blocks carrying the same material equal the
   single-block functions (energy, updated internal variables, element stiffnesses).
O4 (JX): gradient / Hessian of the total energy w.r.t. the unknown vector = scatter-sum of element gradients / stiffnesses
   through DofManager.create_field (sum rule).
O5: the factories with a pressure-projection degree (every advertised kinematic option must be executable).
"""
import hashlib
import os
import types

import numpy as onp
import z3

from ..core import obligation
from .. import px, sym
from ..sym import Eq, Holds, isz, flat, v_add, v_sub, v_mul, v_sum, v_lt, v_abs
from . import c14
from .c14 import (PA, SInt, ONP, OH, Cfg, Oracle, View, b_and, b_or, b_not, b_implies, i_eq, i_lt, i_le, ite, num, raw, sz,
                  build_dof_manager, draw_member, dense_pa, _require, TRI1, TRI2, TRI2B)

P = 'C02'
REL_ASM = 'optimism/SparseMatrixAssembler.py'
DEFINED = c14.DEFINED

DESIGNED_NOT_REGISTERED = []


# =========================================================================================== O1: assembly (PX)
class SymCOO:
    """stand-in for scipy.sparse.coo_matrix((data, (row, col)), shape=(n, n)) followed by .tocsc(): entry (u, v) is the SUM of
    the data entries whose (row, col) is (u, v) — scipy's documented semantics for duplicate coordinates. The argument
    checks scipy performs (equal lengths, 0 <= index < n) are goals."""

    def __init__(self, arg, shape=None, **kw):
        data, (row, col) = arg
        if not (isinstance(data, PA) and isinstance(row, PA) and isinstance(col, PA)) or shape is None:
            raise px.Unsupported('coo_matrix arguments of this form')
        self.data, self.row, self.col = data, row, col
        self.shape = tuple(shape)
        n0, n1 = raw(self.shape[0]), raw(self.shape[1])
        L = data.length()
        _require(b_and(i_eq(row.length(), L), i_eq(col.length(), L)), 'coo_matrix: row, column, and data arrays must be 1-D and have the same length')
        cap = data.data.shape[0]
        ok = []
        for t in range(min(cap, row.data.shape[0], col.data.shape[0])):
            ok.append(b_implies(i_lt(t, L), b_and(i_le(0, row.data[t]), i_lt(row.data[t], n0), i_le(0, col.data[t]), i_lt(col.data[t], n1))))
        _require(b_and(*ok), 'coo_matrix: row / column index within the matrix dimensions')

    def tocsc(self):
        return self

    def entry(self, u, v):
        L = self.data.length()
        terms = []
        for t in range(self.data.data.shape[0]):
            hit = b_and(i_lt(t, L), i_eq(self.row.data[t], u), i_eq(self.col.data[t], v))
            if not isz(hit) and not hit:
                continue
            terms.append(ite(hit, self.data.data[t], 0.0, 'f'))
        return v_sum(terms) if terms else 0.0


def load_assembler_module():
    mod = px.load_module(REL_ASM)
    mod.coo_matrix = SymCOO
    mod.onp = ONP()
    return mod


def block_sum_oracle(cfg, orc, kv, transposed=False):
    """A[u][v] = sum over elements e and local dofs i, j with both unconstrained, unknown(e,i) = u, unknown(e,j) = v of
    kValues[e,i,j] — written from conns and the BC list by plain loops"""
    nd, nD = cfg.ndof, cfg.nD
    A = [[[] for _ in range(nd)] for _ in range(nd)]
    for e in range(cfg.nEl):
        for i in range(nD):
            for j in range(nD):
                both = b_and(orc.efree(e, i), orc.efree(e, j))
                k = kv[(e * nD + i) * nD + j]
                for u in range(nd):
                    cu = i_eq(orc.unk(e, i), u)
                    if not isz(cu) and not cu:
                        continue
                    for v in range(nd):
                        c = b_and(both, cu, i_eq(orc.unk(e, j), v))
                        if not isz(c) and not c:
                            continue
                        (A[v][u] if transposed else A[u][v]).append(ite(c, k, 0.0, 'f'))
    return [[(v_sum(A[u][v]) if A[u][v] else 0.0) for v in range(nd)] for u in range(nd)]


def make_assembly_harness(cfg):
    nd, nD, nEl = cfg.ndof, cfg.nD, cfg.nEl

    def fn(ex):
        member = draw_member(ex, cfg)
        orc = Oracle(cfg, member)
        kv = [px.unwrap(ex.real('k_e%d_%d_%d' % (e, i, j))) for e in range(nEl) for i in range(nD) for j in range(nD)]
        symblock = b_and(*[c14.v_eq(kv[(e * nD + i) * nD + j], kv[(e * nD + j) * nD + i]) for e in range(nEl) for i in range(nD) for j in range(i + 1, nD)])
        conns = onp.asarray(cfg.conns)
        if ex.symbolic:
            dm, _ = build_dof_manager(cfg, member, True)
            asm = load_assembler_module()
            K = asm.assemble_sparse_stiffness_matrix(dense_pa(kv, 'f', (nEl, 3, cfg.dim, 3, cfg.dim)), conns, dm)
            n = raw(K.shape[0])
            entry = K.entry
            shape_ok = [i_eq(raw(K.shape[0]), orc.nfree), i_eq(raw(K.shape[1]), orc.nfree)]
        else:
            import jax.numpy as jnp
            from optimism import SparseMatrixAssembler
            try:
                dm, _ = build_dof_manager(cfg, member, False)
                Kr = SparseMatrixAssembler.assemble_sparse_stiffness_matrix(onp.asarray(kv, dtype=float).reshape(nEl, 3, cfg.dim, 3, cfg.dim), jnp.asarray(conns), dm)
            except (ValueError, IndexError, TypeError) as e:
                ex.goal(DEFINED, Holds(False), info='%s: %s' % (type(e).__name__, e))
                return
            Kd = Kr.toarray()
            n = Kd.shape[0]
            entry = lambda u, v: float(Kd[u, v]) if (u < n and v < n) else 0.0
            shape_ok = [Kd.shape == (int(orc.nfree), int(orc.nfree))]
        ex.goal('assembled_shape_is_unknowns_by_unknowns', Holds(shape_ok))
        A = block_sum_oracle(cfg, orc, kv)
        inside = [[b_and(i_lt(u, orc.nfree), i_lt(v, orc.nfree)) for v in range(nd)] for u in range(nd)]
        ent = [[entry(u, v) for v in range(nd)] for u in range(nd)]
        pick = lambda M, T=False: [ite(inside[u][v], (M[v][u] if T else M[u][v]), 0.0, 'f') for u in range(nd) for v in range(nd)]
        scale = 1.0
        ex.goal('assembled_entry_is_the_block_sum_for_symmetric_blocks', Eq(pick(ent), pick(A), when=symblock, scale=scale),
                info='hypothesis: kValues[e,i,j] == kValues[e,j,i]')
        ex.goal('assembled_matrix_is_symmetric_for_symmetric_blocks', Eq(pick(ent), pick(ent, True), when=symblock, scale=scale))
        ex.goal('assembled_entry_is_the_block_sum_transposed_for_arbitrary_blocks', Eq(pick(ent), pick(A, True), scale=scale),
                info='what the code computes for unsymmetric blocks: entry (u,v) collects kValues[e,j,i]')
        ex.goal('assembled_entry_is_the_block_sum_for_arbitrary_blocks', Eq(pick(ent), pick(A), scale=scale),
                info='entry (u,v) = sum of kValues[e,i,j] with unknown(e,i)=u, unknown(e,j)=v, no symmetry hypothesis on the blocks')
    return fn


ASM_GOALS = ['assembled_shape_is_unknowns_by_unknowns', 'assembled_entry_is_the_block_sum_for_symmetric_blocks', 'assembled_matrix_is_symmetric_for_symmetric_blocks',
             'assembled_entry_is_the_block_sum_transposed_for_arbitrary_blocks', 'assembled_entry_is_the_block_sum_for_arbitrary_blocks']
